"""C01 — Deferred callback chains vs a sequential reference interpreter.

A program is a plain list of operations over D Deferreds:

    ["add", i, verb, cbBeh, ebBeh]   verb in cb | eb | both | cbs
                                     (addCallback / addErrback / addBoth / addCallbacks)
                                     behaviours: "val" return a fresh value, "raise" raise,
                                     "fail" return a Failure, "pass" return the argument,
                                     "raisef" raise a Failure instance, "raisefv" the same built with
                                     captureVars=True, "reraise" raise the Failure received (or a fresh
                                     exception when the argument is not a Failure),
                                     "d<j>" return Deferred j (j != i)
    ["fire", i, mode]                mode in ok (callback(value)) | fail (errback(Failure))
                                     | cbfail (callback(Failure))
    ["pause", i]
    ["unpause", i]                   (ignored unless the harness itself has an unmatched pause(i))

Optional case keys: "debug" (Deferred debugging on), "cls" (one letter per Deferred: P plain Deferred,
S instance of a user subclass, T instance of a subclass of that subclass; both defined once per process).

run_case executes it on real twisted Deferreds and on Model (a recursive, naive
interpreter written from the documented chaining rules) and compares, after
every operation, the log of callback invocations and the state of every
Deferred.
"""
from hypothesis import strategies as st

from lib.core import hyp_run, enumerate_run

META = dict(
    property="C01",
    level="exploration",
    technique="complete enumeration of all 5-step (thorough: 6-step, and 5-step over 24 operations) programs over 2 Deferreds and a 16-operation alphabet, plus Hypothesis programs built from chaining scenario fragments over up to 6 Deferreds, against a recursive reference interpreter; compared after every operation",
    level_text="Every program of length <= 5 (quick) / <= 6 (thorough; plus length <= 5 over the 24-operation alphabet) over two Deferreds and the 16-operation alphabet ALPHABET16 is executed, up to renaming of the two Deferreds and leaving out programs that contain an unpause the harness ignores (those are equal to a shorter program); each length-L program also checks all its prefixes, because the comparison is made after every operation. Beyond that scope programs of up to 24 operations over 2..6 Deferreds are sampled with Hypothesis from scenario fragments (chains, inner-first / outer-first firing, callbacks added after a Deferred was returned, pauses of waiter and of inner Deferred, one Deferred returned twice, cycles). Further, smaller complete scopes add callbacks that raise Failure instances (alphabet a20) and Deferreds that are instances of a Deferred subclass / of a subclass of a subclass (cls=TT, TS, ST); Hypothesis draws both freely. A smaller complete scope (one step shorter) and a fifth of the Hypothesis programs run with Deferred debugging switched on (documented to change only diagnostics). Not a proof: exhaustive only inside the small scope.",
    level_note="Trusted base: the reference interpreter in this file (class Model, mode 'spec'), written from the Deferred docstrings/howto: callbacks run in order, a returned Deferred with a usable result is consumed (its result becomes None), otherwise the waiter is paused and resumed through a continuation that hands the result over. Callbacks in the programs never call back into Deferreds (no re-entrancy), never return the Deferred they are attached to, and only the harness's own pauses are unpaused.",
    design_ref="§5 C01",
    rule="case = {D, ops}. Non-trivial = some callback returned a Deferred and some callback ran after that (anywhere in the program); distinct by the op list. Classes count what the reference interpreter saw: result stolen from a fired Deferred, waiter parked on an unfired / paused / chained Deferred, hand-over through a continuation, hand-over to a waiter that is still paused, AlreadyCalledError, callbacks run after a hand-over.",
)

MAX_D = 6
NO = ("no",)
V_NONE = ("v", None)

KNOWN_STRAND_SIG = "runcallbacks-return-on-paused-chainee-strands-remaining-callbacks"


class TagError(Exception):
    def __init__(self, tag):
        Exception.__init__(self, tag)
        self.tag = tag


# ---------------------------------------------------------------------------
# The reference interpreter.

class _MD:
    __slots__ = ("i", "called", "result", "paused", "cbs")

    def __init__(self, i):
        self.i = i
        self.called = False
        self.result = NO
        self.paused = 0
        self.cbs = []


class _Strand(Exception):
    pass


class Model:
    """Sequential interpreter of the documented chaining rules.

    mode 'spec' is the oracle.  mode 'strand' differs in one place only and is
    used *after* a divergence was seen, to decide whether that divergence is
    the already-listed one (hand-over to a waiter that is still paused ends
    the whole run and leaves the remaining callbacks where they are).
    """

    def __init__(self, n, mode="spec", cls=""):
        self.cls = cls            # only for the class histogram
        self.ds = [_MD(i) for i in range(n)]
        self.log = []
        self.mode = mode
        self.ev = set()           # class labels
        self.returned_deferred_at = None   # log length when a callback first returned a Deferred
        self.ran_after_return = False

    # -- the API the programs use
    def add(self, i, cid, cb, eb, cbside, ebside):
        d = self.ds[i]
        d.cbs.append((cid, cb, eb, cbside, ebside))
        if d.called:
            self._top(d)

    def fire(self, i, res):
        d = self.ds[i]
        if d.called:
            self.ev.add("already-called")
            return False
        d.called = True
        d.result = res
        self._top(d)
        return True

    def pause(self, i):
        self.ds[i].paused += 1

    def unpause(self, i):
        d = self.ds[i]
        d.paused -= 1
        if d.paused:
            return
        if d.called:
            self._top(d)

    # -- running
    def _top(self, d):
        try:
            self._run(d)
        except _Strand:
            pass

    def _run(self, d):
        if d.paused:
            return
        while d.cbs:
            e = d.cbs.pop(0)
            if e[0] == "cont":
                w = self.ds[e[1]]
                w.result = d.result
                d.result = V_NONE
                w.paused -= 1
                self.ev.add("handover")
                if w.paused == 0:
                    self._run(w)
                else:
                    self.ev.add("handover-to-paused-waiter")
                    if self.mode == "strand":
                        raise _Strand()
                if d.cbs:
                    self.ev.add("callbacks-after-handover")
                continue
            cid, cb, eb, cbside, ebside = e
            if d.result[0] == "f":
                beh, side = eb, ebside
            else:
                beh, side = cb, cbside
            if beh is None:
                continue        # default pass-through: no user code runs
            if self.returned_deferred_at is not None:
                self.ran_after_return = True
            self.log.append((cid, side, d.result))
            if beh == "val":
                d.result = ("v", "r%d" % cid)
            elif beh == "raise":
                d.result = ("f", "x%d" % cid)
            elif beh == "fail":
                d.result = ("f", "y%d" % cid)
            elif beh == "pass":
                pass
            elif beh in ("raisef", "raisefv"):
                self.ev.add("callback raised a Failure instance")
                d.result = ("f", "z%d" % cid)
            elif beh == "reraise":
                if d.result[0] == "f":
                    self.ev.add("callback raised a Failure instance")   # the one it received; unchanged
                else:
                    d.result = ("f", "w%d" % cid)
            else:
                j = int(beh[1:])
                r = self.ds[j]
                if self.cls[j:j + 1] in ("S", "T"):
                    self.ev.add("callback returned an instance of a Deferred subclass")
                if self.cls[j:j + 1] == "T":
                    self.ev.add("callback returned an instance of a second-level Deferred subclass")
                if self.returned_deferred_at is None:
                    self.returned_deferred_at = len(self.log)
                if r.result is NO or r.result[0] == "d" or r.paused:
                    self.ev.add("wait-unfired" if r.result is NO else
                                "wait-chained-inner" if r.result[0] == "d" else
                                "wait-paused-inner")
                    d.result = ("d", j)
                    d.paused += 1
                    r.cbs.append(("cont", d.i))
                    break
                self.ev.add("steal-failure" if r.result[0] == "f" else "steal")
                d.result = r.result
                r.result = V_NONE

    def pending(self, i):
        return [e[0] for e in self.ds[i].cbs if e[0] != "cont"]


# ---------------------------------------------------------------------------
# Real side.

def _valid(op, D):
    if not isinstance(op, (list, tuple)) or not op:
        return False
    k = op[0]
    if k in ("pause", "unpause"):
        return len(op) == 2 and 0 <= op[1] < D
    if k == "fire":
        return len(op) == 3 and 0 <= op[1] < D and op[2] in ("ok", "fail", "cbfail")
    if k == "add":
        if len(op) != 5 or not 0 <= op[1] < D or op[2] not in ("cb", "eb", "both", "cbs"):
            return False
        for b in _sides(op)[:2]:
            if b is None:
                continue
            if b in ("val", "raise", "fail", "pass", "raisef", "raisefv", "reraise"):
                continue
            if isinstance(b, str) and b[:1] == "d" and b[1:].isdigit() and 0 <= int(b[1:]) < D \
                    and int(b[1:]) != op[1]:
                continue
            return False
        return True
    return False


def _sides(op):
    """(cbBeh, ebBeh, cbSide, ebSide) of an add operation."""
    verb = op[2]
    if verb == "cb":
        return op[3], None, "c", None
    if verb == "eb":
        return None, op[4], None, "e"
    if verb == "both":
        return op[3], op[3], "b", "b"
    return op[3], op[4], "c", "e"


_CLASSES = {}


def _classes():
    """P/S/T -> class; the two subclasses are defined once per process."""
    if not _CLASSES:
        from twisted.internet.defer import Deferred

        class VerifSub(Deferred):
            pass

        class VerifSubSub(VerifSub):
            pass
        _CLASSES.update(P=Deferred, S=VerifSub, T=VerifSubSub)
    return _CLASSES


def _execute(ops, D, mode, stats=None, cls=""):
    """Run the program on twisted and on Model(mode); first mismatch or None.

    A mismatch is (kind, op index, text)."""
    from twisted.internet import defer
    from twisted.python.failure import Failure
    Deferred = defer.Deferred
    CONT = defer._CONTINUE

    C = _classes()
    reals = [C.get(cls[k:k + 1], Deferred)() for k in range(D)]
    index = {id(d): k for k, d in enumerate(reals)}
    rlog = []
    model = Model(D, mode, cls)
    mlog = model.log
    own_pause = [0] * D

    def canon(x):
        if x is NO:
            return NO
        if isinstance(x, Failure):
            return ("f", getattr(x.value, "tag", "?" + type(x.value).__name__))
        if isinstance(x, Deferred):
            return ("d", index.get(id(x), -1))
        return ("v", x)

    def mk(cid, side, beh):
        if beh == "val":
            out = "r%d" % cid

            def f(arg):
                rlog.append((cid, side, canon(arg)))
                return out
        elif beh == "raise":
            def f(arg):
                rlog.append((cid, side, canon(arg)))
                raise TagError("x%d" % cid)
        elif beh == "fail":
            def f(arg):
                rlog.append((cid, side, canon(arg)))
                return Failure(TagError("y%d" % cid))
        elif beh == "pass":
            def f(arg):
                rlog.append((cid, side, canon(arg)))
                return arg
        elif beh in ("raisef", "raisefv"):
            cv = beh == "raisefv"

            def f(arg):
                rlog.append((cid, side, canon(arg)))
                raise Failure(TagError("z%d" % cid), captureVars=cv)
        elif beh == "reraise":
            def f(arg):
                rlog.append((cid, side, canon(arg)))
                if isinstance(arg, Failure):
                    raise arg
                raise TagError("w%d" % cid)
        else:
            target = reals[int(beh[1:])]

            def f(arg):
                rlog.append((cid, side, canon(arg)))
                return target
        f.cid = cid
        return f

    def pending(d):
        out = []
        for c in d.callbacks:
            fn = c[0][0]
            if fn is CONT:
                continue
            cid = getattr(fn, "cid", None)
            if cid is None:
                cid = getattr(c[1][0], "cid", None)
            out.append(cid)
        return out

    for n, op in enumerate(ops):
        if not _valid(op, D):
            continue
        k, i = op[0], op[1]
        d = reals[i]
        if k == "add":
            cb, eb, cbside, ebside = _sides(op)
            verb = op[2]
            if verb == "cb":
                d.addCallback(mk(n, "c", cb))
            elif verb == "eb":
                d.addErrback(mk(n, "e", eb))
            elif verb == "both":
                d.addBoth(mk(n, "b", cb))
            else:
                d.addCallbacks(mk(n, "c", cb), mk(n, "e", eb))
            model.add(i, n, cb, eb, cbside, ebside)
        elif k == "fire":
            mode_ = op[2]
            raised = False
            try:
                if mode_ == "ok":
                    d.callback("v%d" % n)
                elif mode_ == "fail":
                    d.errback(Failure(TagError("e%d" % n)))
                else:
                    d.callback(Failure(TagError("e%d" % n)))
            except defer.AlreadyCalledError:
                raised = True
            accepted = model.fire(i, ("v", "v%d" % n) if mode_ == "ok" else ("f", "e%d" % n))
            if raised == accepted:
                return ("already-called-error", n,
                        "op %d %r: AlreadyCalledError %s but the Deferred had %s been fired before"
                        % (n, op, "raised" if raised else "not raised", "not" if accepted else "already"))
        elif k == "pause":
            d.pause()
            own_pause[i] += 1
            model.pause(i)
        else:
            if own_pause[i] <= 0:
                continue
            own_pause[i] -= 1
            d.unpause()
            model.unpause(i)

        # ---- compare after every operation
        if rlog != mlog:
            return _log_mismatch(n, op, rlog, mlog)
        for q in range(D):
            r = reals[q]
            m = model.ds[q]
            if r.called != m.called:
                return ("state:called", n, "after op %d %r: Deferred %d called=%r, reference says %r"
                        % (n, op, q, r.called, m.called))
            got = canon(getattr(r, "result", NO))
            if got != m.result:
                return ("state:result", n, "after op %d %r: Deferred %d holds %r, reference says %r"
                        % (n, op, q, got, m.result))
            if r.paused != m.paused:
                return ("state:paused", n, "after op %d %r: Deferred %d pause count %r, reference says %r"
                        % (n, op, q, r.paused, m.paused))
            if r.callbacks or m.cbs:
                pr, pm = pending(r), model.pending(q)
                if pr != pm:
                    return ("state:pending-callbacks", n,
                            "after op %d %r: Deferred %d still has callbacks %r pending, reference says %r"
                            % (n, op, q, pr, pm))

    if stats is not None:
        stats["ev"] = model.ev
        stats["calls"] = len(mlog)
        stats["nt"] = model.ran_after_return
        stats["returned"] = model.returned_deferred_at is not None
    # leave no 'Unhandled error in Deferred' noise behind
    for r in reals:
        if r._debugInfo is not None:
            r._debugInfo.failResult = None
    return None


def _log_mismatch(n, op, rlog, mlog):
    ids_r = [(c, s) for c, s, a in rlog]
    ids_m = [(c, s) for c, s, a in mlog]
    if ids_r == ids_m:
        kind = "log:wrong-argument"
    elif len(set(ids_r)) != len(ids_r):
        kind = "log:callback-ran-twice"
    elif sorted(ids_r) == sorted(ids_m):
        kind = "log:wrong-order"
    elif set(ids_r) < set(ids_m) and ids_r == [x for x in ids_m if x in set(ids_r)]:
        kind = "log:callback-not-run"
    elif set(ids_m) < set(ids_r) and ids_m == [x for x in ids_r if x in set(ids_m)]:
        kind = "log:callback-ran-early"
    else:
        kind = "log:different-callbacks"
    return (kind, n, "after op %d %r: callbacks ran as %r, the reference interpreter says %r"
            % (n, op, rlog, mlog))


def _key(case):
    return ("dbg" if case.get("debug") else "") + case.get("cls", "") + "%d|" % case["D"] + ";".join(",".join(str(x) for x in op) for op in case["ops"])


def run_case(ctx, case):
    """Optional case key "debug": run with Deferred debugging on (defer.setDebugging(True)), which
    is documented to record creation / invocation tracebacks and to change nothing else."""
    from twisted.internet import defer
    debug = bool(case.get("debug"))
    old = defer.getDebugging()
    defer.setDebugging(debug)
    try:
        _run_case(ctx, case)
    finally:
        defer.setDebugging(old)
    if debug:
        ctx.count("program run with Deferred debugging on")


def _run_case(ctx, case):
    D = int(case["D"])
    ops = case["ops"]
    if not 1 <= D <= MAX_D:
        return
    cls = case.get("cls", "")
    if not isinstance(cls, str) or any(c not in "PST" for c in cls):
        return
    stats = {}
    m = _execute(ops, D, "spec", stats, cls)
    if m is not None:
        # Which root cause?  Re-run against the interpreter with the one listed
        # deviation; only a program that agrees with it at *every* step is
        # attributed to that deviation.
        m2 = _execute(ops, D, "strand", None, cls)
        if m2 is None:
            ctx.violation(KNOWN_STRAND_SIG, case,
                          "program %r: %s. (Real behaviour = reference interpreter + 'a hand-over "
                          "to a waiter that is still paused ends the whole _runCallbacks run'.)"
                          % (ops, m[2]))
        ctx.violation("diverge:" + m[0], case, "program %r: %s" % (ops, m[2]))
    ev = stats["ev"]
    for label in ev:
        ctx.count(label)
    if stats["returned"]:
        ctx.count("a callback returned a Deferred")
    if stats["calls"] == 0:
        ctx.count("no callback ran")
    if stats["nt"]:
        ctx.count("nontrivial")
        ctx.nontrivial(_key(case))
        if len(ctx.samples) < 5 and "handover" in ev and "steal" in ev:
            ctx.sample(case)


# ---------------------------------------------------------------------------
# Complete small scope: D = 2, 16 operations.

def _alphabet16():
    ops = []
    for i in (0, 1):
        j = 1 - i
        ops += [
            ["add", i, "cb", "val", None],          # success -> new value; failure passes
            ["add", i, "cbs", "raise", "val"],      # success -> failure, failure -> success
            ["add", i, "both", "d%d" % j, None],    # returns the other Deferred
            ["add", i, "both", "pass", None],       # probe: returns what it got (value or Failure)
            ["fire", i, "ok"],
            ["fire", i, "fail"],
            ["pause", i],
            ["unpause", i],
        ]
    return ops


ALPHABET16 = _alphabet16()


def _alphabet24():
    ops = []
    base = _alphabet16()
    for i in (0, 1):
        j = 1 - i
        ops += base[8 * i:8 * i + 8] + [
            ["add", i, "eb", None, "val"],          # only failures are handled
            ["add", i, "both", "fail", None],       # returns a Failure whatever it got
            ["add", i, "cb", "d%d" % j, None],      # returns the other Deferred on success only
            ["fire", i, "cbfail"],                  # callback(Failure)
        ]
    return ops


def _alphabet20():
    ops = []
    base = _alphabet16()
    for i in (0, 1):
        ops += base[8 * i:8 * i + 8] + [
            ["add", i, "both", "raisef", None],     # raises a Failure instance whatever it got
            ["add", i, "eb", None, "reraise"],      # raises the Failure it received
        ]
    return ops


ALPHABETS = {"a16": ALPHABET16, "a24": _alphabet24(), "a20": _alphabet20()}


def _enum_shard(ctx, arg):
    """All programs of the given length that start with `prefix`.

    Two reductions, both of programs that are *equal* to another enumerated
    one: the first operation is on Deferred 0 (renaming the two Deferreds is a
    symmetry of the alphabet), and a program containing an unpause that the
    harness ignores (no unmatched pause of its own) is skipped, because it is
    the same run as the shorter program without that step, which is a prefix
    of other enumerated programs."""
    name, length, prefix = arg
    flags = name.split("+")[1:]
    debug = "debug" in flags
    cls = "".join(f[4:] for f in flags if f.startswith("cls="))
    name = name.split("+")[0]
    A = ALPHABETS[name]
    n = len(A)
    kind = [(1 if op[0] == "pause" else -1 if op[0] == "unpause" else 0, op[1]) for op in A]
    rest = length - len(prefix)

    def ok(seq):
        own = [0, 0]
        for x in seq:
            k, i = kind[x]
            if k:
                own[i] += k
                if own[i] < 0:
                    return False
        return True

    def cases():
        if not ok(prefix):
            return
        idx = [0] * rest
        while True:
            seq = list(prefix) + idx
            if ok(seq):
                c = dict(D=2, ops=[A[x] for x in seq])
                if debug:
                    c["debug"] = True
                if cls:
                    c["cls"] = cls
                yield c
            else:
                ctx.extra["skipped_equal_to_shorter_program"] = \
                    ctx.extra.get("skipped_equal_to_shorter_program", 0) + 1
            p = rest - 1
            while p >= 0:
                idx[p] += 1
                if idx[p] < n:
                    break
                idx[p] = 0
                p -= 1
            if p < 0:
                return
    enumerate_run(ctx, cases(), run_case)


def _enum_args(name, length):
    A = ALPHABETS[name.split("+")[0]]
    n = len(A)
    firsts = [a for a in range(n) if A[a][1] == 0]
    return [(name, length, (a, b)) for a in firsts for b in range(n)]


# ---------------------------------------------------------------------------
# Hypothesis: scenario fragments over up to 6 Deferreds.

SIMPLE = ["val", "val", "raise", "fail", "pass", "pass", "raisef", "raisefv", "reraise"]


@st.composite
def programs(draw):
    D = draw(st.sampled_from([2, 2, 3, 3, 4, 5, 6]))
    idx = st.integers(0, D - 1)
    simple = st.sampled_from(SIMPLE)
    fire_mode = st.sampled_from(["ok", "ok", "fail", "cbfail"])

    def pair():
        i = draw(idx)
        j = (i + draw(st.integers(1, D - 1))) % D
        return i, j

    def add(i):
        verb = draw(st.sampled_from(["cb", "eb", "both", "cbs"]))
        if verb == "cb":
            return ["add", i, "cb", draw(simple), None]
        if verb == "eb":
            return ["add", i, "eb", None, draw(simple)]
        if verb == "both":
            return ["add", i, "both", draw(simple), None]
        return ["add", i, "cbs", draw(simple), draw(simple)]

    def addret(i, j):
        t = "d%d" % j
        verb = draw(st.sampled_from(["both", "both", "both", "cb", "eb", "cbs1", "cbs2", "cbs3"]))
        if verb == "both":
            return ["add", i, "both", t, None]
        if verb == "cb":
            return ["add", i, "cb", t, None]
        if verb == "eb":
            return ["add", i, "eb", None, t]
        if verb == "cbs1":
            return ["add", i, "cbs", t, draw(simple)]
        if verb == "cbs2":
            return ["add", i, "cbs", draw(simple), t]
        return ["add", i, "cbs", t, t]

    def fire(i):
        return ["fire", i, draw(fire_mode)]

    def maybe(op_thunk):
        return [op_thunk()] if draw(st.booleans()) else []

    def fragment():
        kind = draw(st.sampled_from([
            "chain", "inner-first", "outer-first", "add-after-return", "pause-waiter",
            "pause-waiter-late", "pause-inner", "double-return", "long-chain", "cycle",
            "free", "free", "refire"]))
        if kind == "free":
            i = draw(idx)
            k = draw(st.sampled_from(["add", "add", "fire", "pause", "unpause", "addret"]))
            if k == "add":
                return [add(i)]
            if k == "fire":
                return [fire(i)]
            if k == "addret":
                return [addret(*pair())]
            return [[k, i]]
        if kind == "refire":
            i = draw(idx)
            return [fire(i), fire(i)]
        i, j = pair()
        if kind == "chain":
            return [addret(i, j)] + maybe(lambda: add(i))
        if kind == "inner-first":
            return maybe(lambda: add(j)) + [fire(j), addret(i, j)] + maybe(lambda: add(i)) + [fire(i)] \
                + maybe(lambda: add(j))
        if kind == "outer-first":
            return [addret(i, j)] + maybe(lambda: add(i)) + [fire(i)] + maybe(lambda: add(i)) + [fire(j)]
        if kind == "add-after-return":
            return [addret(i, j), fire(i), add(j)] + maybe(lambda: add(i)) + maybe(lambda: add(j)) \
                + [fire(j)] + maybe(lambda: add(j))
        if kind == "pause-waiter":
            return [addret(i, j), fire(i), ["pause", i]] + maybe(lambda: add(j)) + [fire(j)] \
                + maybe(lambda: add(i)) + maybe(lambda: add(j)) + [["unpause", i]]
        if kind == "pause-waiter-late":
            return [["pause", i], addret(i, j)] + maybe(lambda: add(i)) + [fire(i), ["unpause", i]] \
                + maybe(lambda: ["pause", i]) + [fire(j)] + maybe(lambda: ["unpause", i])
        if kind == "pause-inner":
            return [["pause", j], fire(j), addret(i, j), fire(i)] + maybe(lambda: add(j)) \
                + [["unpause", j]] + maybe(lambda: add(j))
        if kind == "double-return":
            k = draw(idx)
            if k == j:
                k = i
            return [addret(i, j), addret(k, j) if k != j else add(i), fire(i)] \
                + ([fire(k)] if k != i else []) + maybe(lambda: add(j)) + [fire(j)] + maybe(lambda: add(i))
        if kind == "long-chain":
            if D < 3:
                return [addret(i, j), fire(i), fire(j)]
            k = (j + draw(st.integers(1, D - 1))) % D
            if k == j:
                k = i
            body = [addret(i, j)] + ([addret(j, k)] if k != j else []) + maybe(lambda: add(i))
            fires = [fire(i), fire(j)] + ([fire(k)] if k not in (i, j) else [])
            order = draw(st.permutations(fires))
            return body + list(order)
        # cycle
        return [addret(i, j), addret(j, i)] + list(draw(st.permutations([fire(i), fire(j)]))) \
            + maybe(lambda: add(i))

    ops = []
    for _ in range(draw(st.integers(1, 6))):
        ops += fragment()
    # a few perturbations: any op sequence is a legal program
    for _ in range(draw(st.integers(0, 2))):
        if len(ops) >= 2:
            a = draw(st.integers(0, len(ops) - 1))
            b = draw(st.integers(0, len(ops) - 1))
            ops[a], ops[b] = ops[b], ops[a]
    case = dict(D=D, ops=ops[:24])
    cls = "".join(draw(st.lists(st.sampled_from("PPST"), min_size=D, max_size=D)))
    if cls.strip("P"):
        case["cls"] = cls
    if draw(st.sampled_from([False, False, False, False, True])):
        case["debug"] = True
    return case


def _hyp_shard(ctx, i):
    hyp_run(ctx, programs(), run_case, ctx.pick(2200, 20000), label="frag%d" % i)


def run(ctx):
    k = ctx.pick(4, 5)
    # "+cls=XY": the two Deferreds are instances of those classes; TS and ST together make up for the
    # mirror-image reduction, which is only a symmetry when both have the same class.
    scopes = [("a16", ctx.pick(5, 6)), ("a20", k), ("a20+debug", k - 1),
              ("a16+cls=TT", k), ("a16+cls=TS", k), ("a16+cls=ST", k)] \
        + ([("a24", 5), ("a16+debug", 5)] if ctx.thorough else [])
    args = []
    for name, length in scopes:
        args += _enum_args(name, length)
    # quick: ~3*10^5 programs, ~10 CPU-seconds: run in this process (on a loaded
    # machine 16 workers are slower than one); thorough fans out.
    ctx.shards(_enum_shard, args, procs=None if ctx.thorough else 1)
    ctx.extra["exhaustive_scope"] = dict(
        deferreds=2,
        alphabets=ALPHABETS,
        scopes=[dict(scope=name, length=length) for name, length in scopes],
        note="every program of that length whose first operation is on Deferred 0 (the other half is "
             "its mirror image) and that contains no harness-ignored unpause; the comparison after "
             "every operation covers all shorter programs as prefixes")
    ctx.exhaustive = False   # the property quantifies over ~6 Deferreds / ~20 ops; only this scope is complete
    if ctx.has_violation():
        return
    if ctx.thorough:
        ctx.shards(_hyp_shard, list(range(16)))
    else:
        _hyp_shard(ctx, 0)


def _enum_only(ctx):      # used by hand when measuring drills
    ctx.shards(_enum_shard, _enum_args("a16", 5), procs=1)


def _hyp_only(ctx):
    _hyp_shard(ctx, 0)
