"""C02 — firing long Deferred chains / await loops uses constant stack.

case = {"shape": ..., "result": "success"|"failure", "n": length,
        "late": 0..2, "every": 1..3, "trail": 0|1,      (optional, chain shapes only)
        "cls": ..., "park": 0..2}                       (optional)

cls    "Deferred" | "subclass" | "mixed": the links (and the Deferreds a generator awaits) are plain
       Deferreds, instances of a user subclass of Deferred (defined once per process), or alternate
park   generators / coroutines only: 0 = every awaited Deferred has already fired; 1 = the generator
       first really waits on an UNFIRED Deferred (fired later by the harness) and only then loops
       over the already-fired ones; 2 = it parks again in the middle of the loop
late   that many extra callbacks are added to link k+1 right after link k has started waiting on
       it (for k % every == 0), so they sit *behind* the continuation in the inner Deferred's
       callback list ("result observers attached as the chain is built")
trail  every link gets one more pass-through callback after the chaining callback at build
       time, so every waiter still has work to do when it is resumed

Shapes (n Deferreds ds[0..n-1]; the callback of ds[k] returns ds[k+1]):
  outer-first          fire ds[0], ds[1], ... (each parks on the next one), the innermost last:
                       one firing hands the result up through all n-1 waiters
  inner-first          fire the innermost first, then outwards (every callback finds a fired Deferred)
  parked-inner-first   fire ds[n-2], ds[n-3], ... ds[0] (each parks on a Deferred that is itself
                       already parked), the innermost last
  outer-first-paused   as outer-first, but the innermost is paused, fired, then unpaused
  inner-first-paused   all paused, fired inner-first, then unpaused from the outside in: the last
                       unpause hands the result up through all waiters
  inline               an @inlineCallbacks generator that yields n already-fired Deferreds
  coroutine            an `async def` that awaits n already-fired Deferreds, via ensureDeferred

Oracle: no RecursionError (recursion limit forced to the CPython default, 1000),
the expected final result, every intermediate Deferred left with result None,
and the Python stack depth seen inside callbacks / the generator body at the
first, middle and last link is within 8 frames of the depth seen for the same
shape with n = 10.
"""
import sys

from hypothesis import strategies as st

from lib.core import hyp_run, enumerate_run

META = dict(
    property="C02",
    level="exploration",
    technique="generated (shape, result kind, length) triples up to 2*10^4 (thorough 10^5) links; completion + final-result check and a stack-depth probe inside callbacks compared with the n=10 run of the same shape",
    level_text="Seven chain/await shapes (links and awaited Deferreds being plain Deferreds, instances of a Deferred subclass, or alternating; generators and coroutines also after having genuinely waited on an unfired Deferred once or twice; chains also with callbacks queued behind the continuation of every link, added after the waiter parked, and with a trailing callback on every waiter) x {success, failure} x lengths {1, 2, 10, 999, 1001, 5000, 10^4, 2*10^4} (thorough: up to 10^5) are all run, plus Hypothesis-drawn lengths (dense around the recursion limit); each run must finish without RecursionError under the default recursion limit, deliver the expected result, and show a stack depth inside callbacks at the first/middle/last link that exceeds the n=10 depth of the same shape by at most 8 frames. Sampled lengths, not all lengths.",
    level_note="The depth probe counts Python frames (sys._getframe); C-level recursion is not measured. chainDeferred chains are outside the statement (documented to recurse) and not generated. The recursion limit is set to 1000 for the duration of a case because Hypothesis raises it while it runs a test.",
    design_ref="§5 C02",
    rule="case = (shape, result, n, late, every, trail, cls, park). Non-trivial = n is larger than the recursion limit (1000), so a recursive implementation of that shape could not finish; distinct by the whole case. Classes: per shape, per result kind, length buckets, and the callback layout of the links (late observers behind the continuation / trailing callback on the waiter / plain), the class of the Deferreds (plain / subclass / mixed) and whether a generator had really waited on an unfired Deferred before its run of already-fired ones.",
)

DEFAULT_LIMIT = 1000
SLACK = 8
SHAPES = ["outer-first", "inner-first", "parked-inner-first", "outer-first-paused", "inner-first-paused",
          "inline", "coroutine"]


class TagError(Exception):
    pass


def _depth():
    f = sys._getframe(1)
    n = 0
    while f is not None:
        n += 1
        f = f.f_back
    return n


_SUB = []


def _subclass():
    """A user subclass of Deferred, defined once per process."""
    if not _SUB:
        from twisted.internet.defer import Deferred

        class VerifSubDeferred(Deferred):
            pass
        _SUB.append(VerifSubDeferred)
    return _SUB[0]


def _drive(shape, result, n, late=0, every=1, trail=0, cls="Deferred", park=0):
    """Build and fire one shape.  Returns dict(final=..., depths=[...], leftovers=int)."""
    from twisted.internet import defer
    from twisted.python.failure import Failure
    Deferred = defer.Deferred
    Sub = _subclass()

    def mk(k):
        if cls == "Deferred" or (cls == "mixed" and k % 2 == 0):
            return Deferred()
        return Sub()
    depths = []
    base = _depth()
    final = []
    fail = result == "failure"

    def capture(r):
        if isinstance(r, Failure):
            final.append(("f", type(r.value).__name__, r.value.args))
        else:
            final.append(("v", r))
        return None

    if shape in ("inline", "coroutine"):
        marks = {0, n // 2, n - 1}
        parks = set() if not park else {0} if park == 1 else {0, n // 2}
        pending = []
        seen = {"parks": 0}

        def fired(k):
            if cls == "Deferred":
                return defer.fail(TagError(k)) if fail else defer.succeed(k)
            d = mk(k)
            if fail:
                d.errback(TagError(k))
            else:
                d.callback(k)
            return d

        def unfired(k):
            d = mk(k + 1)
            pending.append(d)
            return d

        if shape == "inline":
            @defer.inlineCallbacks
            def loop():
                got = 0
                for k in range(n):
                    if k in parks:
                        try:
                            yield unfired(k)
                        except TagError:
                            pass
                        seen["parks"] += 1
                    d = fired(k)
                    try:
                        v = yield d
                        if v == k:
                            got += 1
                    except TagError as e:
                        if e.args == (k,):
                            got += 1
                    if k in marks:
                        depths.append(_depth() - base)
                if fail:
                    raise TagError("end", got)
                return ("end", got)
            out = loop()
        else:
            async def loop():
                got = 0
                for k in range(n):
                    if k in parks:
                        try:
                            await unfired(k)
                        except TagError:
                            pass
                        seen["parks"] += 1
                    d = fired(k)
                    try:
                        v = await d
                        if v == k:
                            got += 1
                    except TagError as e:
                        if e.args == (k,):
                            got += 1
                    if k in marks:
                        depths.append(_depth() - base)
                if fail:
                    raise TagError("end", got)
                return ("end", got)
            out = defer.ensureDeferred(loop())
        out.addBoth(capture)
        early = False
        while pending:
            if final:
                early = True
                break
            d = pending.pop(0)
            if fail:
                d.errback(Failure(TagError("park")))
            else:
                d.callback("go")
        if early:
            return dict(final=final, expect=None, depths=depths, leftovers=0, called=True, early=True)
        expect = ("f", "TagError", ("end", n)) if fail else ("v", ("end", n))
        return dict(final=final, expect=expect, depths=depths, leftovers=0, called=out.called,
                    parks=(seen["parks"], len(parks)))

    ds = [mk(k) for k in range(n)]
    marks = {0, (n - 1) // 2, max(0, n - 2)}
    counts = {"late": 0, "trail": 0}

    def link(nxt):
        def cb(_):
            return nxt
        return cb

    def probe(r):
        depths.append(_depth() - base)
        return r

    def mk_counting(kind, k):
        if k in marks:
            def cb(r):
                counts[kind] += 1
                depths.append(_depth() - base)
                return r
        else:
            def cb(r):
                counts[kind] += 1
                return r
        return cb

    for k in range(n - 1):
        ds[k].addCallback(link(ds[k + 1]))
        if trail:
            ds[k].addBoth(mk_counting("trail", k))
        if k in marks:
            ds[k].addBoth(probe)
    if n == 1:
        ds[0].addBoth(probe)

    def capture_deep(r):
        depths.append(_depth() - base)
        return capture(r)
    ds[0].addBoth(capture_deep)

    expected_late = 0

    def parked(k):
        """ds[k] has just been fired / resumed: it now waits on ds[k+1] (or, in the inner-first
        shape, has consumed its result).  Attach the late observers to ds[k+1]."""
        nonlocal expected_late
        if late and k % every == 0:
            for _ in range(late):
                ds[k + 1].addBoth(mk_counting("late", k))
                expected_late += 1

    def fire_last():
        if fail:
            ds[n - 1].errback(Failure(TagError("end", n)))
        else:
            ds[n - 1].callback(("end", n))

    early = False
    if shape == "outer-first":
        for k in range(n - 1):
            ds[k].callback(k)
            parked(k)
        fire_last()
    elif shape == "inner-first":
        fire_last()
        for k in range(n - 2, -1, -1):
            ds[k].callback(k)
            parked(k)
    elif shape == "parked-inner-first":
        for k in range(n - 2, -1, -1):
            ds[k].callback(k)
            parked(k)
        fire_last()
    elif shape == "outer-first-paused":
        for k in range(n - 1):
            ds[k].callback(k)
            parked(k)
        ds[n - 1].pause()
        fire_last()
        early = bool(final)
        ds[n - 1].unpause()
    elif shape == "inner-first-paused":
        for d in ds:
            d.pause()
        fire_last()
        for k in range(n - 2, -1, -1):
            ds[k].callback(k)
        early = bool(final)
        for k in range(n):
            if k == n - 1:
                early = early or bool(final)
            ds[k].unpause()
            if k < n - 1:
                parked(k)
    else:
        raise ValueError(shape)
    if early:
        return dict(final=final, expect=None, depths=depths, leftovers=0, called=True, early=True)
    expect = ("f", "TagError", ("end", n)) if fail else ("v", ("end", n))
    # every Deferred of the chain has handed its result on
    leftovers = 0
    for d in ds:
        if getattr(d, "result", "unset") is not None or d.callbacks or d.paused:
            leftovers += 1
    return dict(final=final, expect=expect, depths=depths, leftovers=leftovers, called=True,
                late=(counts["late"], expected_late), trail=(counts["trail"], (n - 1) if trail else 0))


def _family(shape):
    return "chain" if shape not in ("inline", "coroutine") else shape


def run_case(ctx, case):
    shape, result, n = case["shape"], case["result"], int(case["n"])
    if shape not in SHAPES or result not in ("success", "failure") or n < 1:
        return
    chain = shape not in ("inline", "coroutine")
    late = int(case.get("late", 0)) if chain else 0
    every = max(1, int(case.get("every", 1)))
    trail = int(bool(case.get("trail", 0))) if chain else 0
    cls = case.get("cls", "Deferred")
    if cls not in ("Deferred", "subclass", "mixed"):
        return
    park = 0 if chain else min(2, max(0, int(case.get("park", 0))))
    old = sys.getrecursionlimit()
    sys.setrecursionlimit(DEFAULT_LIMIT)
    try:
        try:
            ref = _drive(shape, result, min(n, 10), late, every, trail, cls, park)
            out = _drive(shape, result, n, late, every, trail, cls, park)
        except RecursionError as e:
            out = None
            msg = repr(e)
    finally:
        sys.setrecursionlimit(old)
    layout = ("late" if late else "") + ("+" if late and trail else "") + ("trail" if trail else "") or "plain"
    tag = "%s:%s" % (_family(shape), result) + ("" if layout == "plain" else ":" + layout) \
        + ("" if cls == "Deferred" else ":" + cls) + (":after-parking" if park else "")
    if out is None:
        ctx.violation("recursion-error:" + tag, case,
                      "shape=%s result=%s n=%d late=%d every=%d trail=%d cls=%s park=%d: RecursionError escaped (%s)"
                      % (shape, result, n, late, every, trail, cls, park, msg))
    for which, o, nn in (("n=10 reference run", ref, min(n, 10)), ("run", out, n)):
        if o.get("early"):
            ctx.violation("finished-early:" + tag, case,
                          "shape=%s n=%d: final callback ran while the innermost Deferred was paused / while the "
                          "generator was still parked on an unfired Deferred" % (shape, nn))
        if len(o["final"]) != 1:
            ctx.violation("not-completed:" + tag, case,
                          "shape=%s result=%s n=%d (%s): final callback ran %d times"
                          % (shape, result, nn, which, len(o["final"])))
        got = o["final"][0]
        if got != o["expect"]:
            sig = "recursion-error:" if got[0] == "f" and got[1] == "RecursionError" else "wrong-final-result:"
            ctx.violation(sig + tag, case, "shape=%s result=%s n=%d (%s): final result %r, expected %r"
                          % (shape, result, nn, which, got, o["expect"]))
        if o["leftovers"]:
            ctx.violation("chain-links-not-drained:" + tag, case,
                          "shape=%s result=%s n=%d (%s): %d Deferreds of the chain still hold a result, "
                          "callbacks or a pause" % (shape, result, nn, which, o["leftovers"]))
        for kind in ("late", "trail", "parks"):
            ran, want = o.get(kind, (0, 0))
            if ran != want:
                ctx.violation("chain-callbacks-not-run-once:" + tag, case,
                              "shape=%s result=%s n=%d (%s): %d of the %s callbacks ran, expected %d"
                              % (shape, result, nn, which, ran, kind, want))
        if not o["depths"]:
            ctx.violation("probe-not-run:" + tag, case, "shape=%s n=%d (%s): no depth probe ran" % (shape, nn, which))
    d_ref, d_n = max(ref["depths"]), max(out["depths"])
    if d_n - d_ref > SLACK:
        ctx.violation("stack-depth-grows:" + tag, case,
                      "shape=%s result=%s late=%d every=%d trail=%d cls=%s park=%d: stack depth inside callbacks "
                      "is %d frames at n=%d but %d at n=%d (allowed growth %d)"
                      % (shape, result, late, every, trail, cls, park, d_n, n, d_ref, min(n, 10), SLACK))
    ctx.count("shape=" + shape)
    ctx.count("result=" + result)
    ctx.count("n<=10" if n <= 10 else "10<n<=1000" if n <= DEFAULT_LIMIT else "1000<n<=10000" if n <= 10000 else "n>10000")
    if chain:
        ctx.count("links: " + {"plain": "all callbacks attached before chaining",
                               "late": "callbacks queued behind the continuation (added after the waiter parked)",
                               "trail": "waiter has a trailing callback",
                               "late+trail": "late observers and trailing callbacks"}[layout])
    ctx.count("class of the Deferreds: " + cls)
    if not chain:
        ctx.count("generator: " + ("every awaited Deferred already fired" if not park else
                                   "really waited on an unfired Deferred before the run of fired ones"))
    md = ctx.extra.setdefault("max_depth_inside_callbacks", {})
    md[shape] = max(md.get(shape, 0), d_n)
    if n > DEFAULT_LIMIT:
        ctx.count("nontrivial")
        ctx.nontrivial((shape, result, n, late, every if late else 1, trail, cls, park))
        if park:
            ctx.count("nontrivial after parking on an unfired Deferred")
        if cls != "Deferred" and chain:
            ctx.count("nontrivial chain of subclass / mixed links")
        if late:
            ctx.count("nontrivial with callbacks behind the continuation")
        if n >= 10000 and result == "failure":
            ctx.sample(case)


CHAIN_SHAPES = [s_ for s_ in SHAPES if s_ not in ("inline", "coroutine")]


def _fixed(ctx, lengths):
    def cases():
        for n in lengths:
            for shape in SHAPES:
                for result in ("success", "failure"):
                    yield dict(shape=shape, result=result, n=n)
                    if shape in CHAIN_SHAPES:
                        yield dict(shape=shape, result=result, n=n, late=1, every=1, trail=0)
                        yield dict(shape=shape, result=result, n=n, late=0, every=1, trail=1)
                        yield dict(shape=shape, result=result, n=n, cls="subclass")
                        yield dict(shape=shape, result=result, n=n, late=1, every=1, trail=0, cls="mixed")
                        if n in (1001, 5000):
                            yield dict(shape=shape, result=result, n=n, late=2, every=2, trail=1)
                            yield dict(shape=shape, result=result, n=n, late=0, trail=1, cls="mixed")
                    else:
                        yield dict(shape=shape, result=result, n=n, park=1)
                        yield dict(shape=shape, result=result, n=n, park=2, cls="subclass")
                        if n in (1001, 5000):
                            yield dict(shape=shape, result=result, n=n, park=1, cls="mixed")
                            yield dict(shape=shape, result=result, n=n, cls="subclass")
    enumerate_run(ctx, cases(), run_case)


def run(ctx):
    lengths = [1, 2, 10, 999, 1001, 5000, 10000, 20000]
    if ctx.thorough:
        lengths += [50000, 100000]
    _fixed(ctx, lengths)
    ctx.extra["fixed_lengths"] = lengths
    if ctx.has_violation():
        return
    top = ctx.pick(4000, 30000)
    strat = st.builds(
        dict,
        shape=st.sampled_from(SHAPES),
        result=st.sampled_from(["success", "failure"]),
        n=st.one_of(st.integers(1, top), st.integers(900, 1100), st.integers(1, 40),
                    st.sampled_from([3, 100, 300, 333, 500, 998, 1000, 1002, 2000, 3000])),
        late=st.sampled_from([0, 1, 1, 2]),
        every=st.sampled_from([1, 1, 2, 3]),
        trail=st.sampled_from([0, 1]),
        cls=st.sampled_from(["Deferred", "Deferred", "subclass", "mixed"]),
        park=st.sampled_from([0, 1, 1, 2]),
    )
    hyp_run(ctx, strat, run_case, ctx.pick(200, 1500), label="lengths")
