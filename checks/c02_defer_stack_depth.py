"""C02 — firing long Deferred chains / await loops uses constant stack.

case = {"shape": ..., "result": "success"|"failure", "n": length}

Shapes (n Deferreds ds[0..n-1]; the callback of ds[k] returns ds[k+1]):
  outer-first          fire ds[0], ds[1], ... (each parks on the next one), the innermost last:
                       one firing hands the result up through all n-1 waiters
  inner-first          fire the innermost first, then outwards (every callback finds a fired Deferred)
  outer-first-paused   as outer-first, but the innermost is paused, fired, then unpaused
  inner-first-paused   all paused, fired inner-first, then unpaused from the outside in: the last
                       unpause hands the result up through all waiters
  inline               an @inlineCallbacks generator that yields n already-fired Deferreds
  coroutine            an `async def` that awaits n already-fired Deferreds, via ensureDeferred

Oracle: no RecursionError (recursion limit forced to the CPython default, 1000),
the expected final result, every intermediate Deferred left with result None,
and the Python stack depth seen inside callbacks / the generator body at the
first, middle and last link is within 8 frames of the depth seen for the same
shape with n = 10.
"""
import sys

from hypothesis import strategies as st

from lib.core import hyp_run, enumerate_run

META = dict(
    property="C02",
    level="exploration",
    technique="generated (shape, result kind, length) triples up to 2*10^4 (thorough 10^5) links; completion + final-result check and a stack-depth probe inside callbacks compared with the n=10 run of the same shape",
    level_text="Six chain/await shapes x {success, failure} x lengths {1, 2, 10, 999, 1001, 5000, 10^4, 2*10^4} (thorough: up to 10^5) are all run, plus Hypothesis-drawn lengths (dense around the recursion limit); each run must finish without RecursionError under the default recursion limit, deliver the expected result, and show a stack depth inside callbacks at the first/middle/last link that exceeds the n=10 depth of the same shape by at most 8 frames. Sampled lengths, not all lengths.",
    level_note="The depth probe counts Python frames (sys._getframe); C-level recursion is not measured. chainDeferred chains are outside the statement (documented to recurse) and not generated. The recursion limit is set to 1000 for the duration of a case because Hypothesis raises it while it runs a test.",
    design_ref="§5 C02",
    rule="case = (shape, result, n). Non-trivial = n is larger than the recursion limit (1000), so a recursive implementation of that shape could not finish; distinct by (shape, result, n). Classes: per shape and per result kind, and length buckets.",
)

DEFAULT_LIMIT = 1000
SLACK = 8
SHAPES = ["outer-first", "inner-first", "outer-first-paused", "inner-first-paused", "inline", "coroutine"]


class TagError(Exception):
    pass


def _depth():
    f = sys._getframe(1)
    n = 0
    while f is not None:
        n += 1
        f = f.f_back
    return n


def _drive(shape, result, n):
    """Build and fire one shape.  Returns dict(final=..., depths=[...], leftovers=int)."""
    from twisted.internet import defer
    from twisted.python.failure import Failure
    Deferred = defer.Deferred
    depths = []
    base = _depth()
    final = []
    fail = result == "failure"

    def capture(r):
        if isinstance(r, Failure):
            final.append(("f", type(r.value).__name__, r.value.args))
        else:
            final.append(("v", r))
        return None

    if shape in ("inline", "coroutine"):
        marks = {0, n // 2, n - 1}
        if shape == "inline":
            @defer.inlineCallbacks
            def loop():
                got = 0
                for k in range(n):
                    d = defer.fail(TagError(k)) if fail else defer.succeed(k)
                    try:
                        v = yield d
                        if v == k:
                            got += 1
                    except TagError as e:
                        if e.args == (k,):
                            got += 1
                    if k in marks:
                        depths.append(_depth() - base)
                if fail:
                    raise TagError("end", got)
                return ("end", got)
            out = loop()
        else:
            async def loop():
                got = 0
                for k in range(n):
                    d = defer.fail(TagError(k)) if fail else defer.succeed(k)
                    try:
                        v = await d
                        if v == k:
                            got += 1
                    except TagError as e:
                        if e.args == (k,):
                            got += 1
                    if k in marks:
                        depths.append(_depth() - base)
                if fail:
                    raise TagError("end", got)
                return ("end", got)
            out = defer.ensureDeferred(loop())
        out.addBoth(capture)
        expect = ("f", "TagError", ("end", n)) if fail else ("v", ("end", n))
        return dict(final=final, expect=expect, depths=depths, leftovers=0, called=out.called)

    ds = [Deferred() for _ in range(n)]
    marks = {0, (n - 1) // 2, max(0, n - 2)}

    def link(nxt):
        def cb(_):
            return nxt
        return cb

    def probe(r):
        depths.append(_depth() - base)
        return r

    for k in range(n - 1):
        ds[k].addCallback(link(ds[k + 1]))
        if k in marks:
            ds[k].addBoth(probe)
    if n == 1:
        ds[0].addBoth(probe)
    ds[0].addBoth(capture)

    def fire_last():
        if fail:
            ds[n - 1].errback(Failure(TagError("end", n)))
        else:
            ds[n - 1].callback(("end", n))

    if shape == "outer-first":
        for k in range(n - 1):
            ds[k].callback(k)
        fire_last()
    elif shape == "inner-first":
        fire_last()
        for k in range(n - 2, -1, -1):
            ds[k].callback(k)
    elif shape == "outer-first-paused":
        for k in range(n - 1):
            ds[k].callback(k)
        ds[n - 1].pause()
        fire_last()
        if final:
            return dict(final=final, expect=None, depths=depths, leftovers=0, called=True, early=True)
        ds[n - 1].unpause()
    elif shape == "inner-first-paused":
        for d in ds:
            d.pause()
        fire_last()
        for k in range(n - 2, -1, -1):
            ds[k].callback(k)
        if final:
            return dict(final=final, expect=None, depths=depths, leftovers=0, called=True, early=True)
        for d in ds:
            d.unpause()
    else:
        raise ValueError(shape)
    expect = ("f", "TagError", ("end", n)) if fail else ("v", ("end", n))
    # every Deferred of the chain has handed its result on
    leftovers = 0
    for d in ds:
        if getattr(d, "result", "unset") is not None or d.callbacks or d.paused:
            leftovers += 1
    return dict(final=final, expect=expect, depths=depths, leftovers=leftovers, called=True)


def _family(shape):
    return "chain" if shape not in ("inline", "coroutine") else shape


def run_case(ctx, case):
    shape, result, n = case["shape"], case["result"], int(case["n"])
    if shape not in SHAPES or result not in ("success", "failure") or n < 1:
        return
    old = sys.getrecursionlimit()
    sys.setrecursionlimit(DEFAULT_LIMIT)
    try:
        try:
            ref = _drive(shape, result, min(n, 10))
            out = _drive(shape, result, n)
        except RecursionError as e:
            out = None
            msg = repr(e)
    finally:
        sys.setrecursionlimit(old)
    tag = "%s:%s" % (_family(shape), result)
    if out is None:
        ctx.violation("recursion-error:" + tag, case,
                      "shape=%s result=%s n=%d: RecursionError escaped (%s)" % (shape, result, n, msg))
    for which, o, nn in (("n=10 reference run", ref, min(n, 10)), ("run", out, n)):
        if o.get("early"):
            ctx.violation("paused-chain-ran-early:" + tag, case,
                          "shape=%s n=%d: final callback ran while the innermost Deferred was paused" % (shape, nn))
        if len(o["final"]) != 1:
            ctx.violation("not-completed:" + tag, case,
                          "shape=%s result=%s n=%d (%s): final callback ran %d times"
                          % (shape, result, nn, which, len(o["final"])))
        got = o["final"][0]
        if got != o["expect"]:
            sig = "recursion-error:" if got[0] == "f" and got[1] == "RecursionError" else "wrong-final-result:"
            ctx.violation(sig + tag, case, "shape=%s result=%s n=%d (%s): final result %r, expected %r"
                          % (shape, result, nn, which, got, o["expect"]))
        if o["leftovers"]:
            ctx.violation("chain-links-not-drained:" + tag, case,
                          "shape=%s result=%s n=%d (%s): %d Deferreds of the chain still hold a result, "
                          "callbacks or a pause" % (shape, result, nn, which, o["leftovers"]))
        if not o["depths"]:
            ctx.violation("probe-not-run:" + tag, case, "shape=%s n=%d (%s): no depth probe ran" % (shape, nn, which))
    d_ref, d_n = max(ref["depths"]), max(out["depths"])
    if d_n - d_ref > SLACK:
        ctx.violation("stack-depth-grows:" + tag, case,
                      "shape=%s result=%s: stack depth inside callbacks is %d frames at n=%d but %d at n=%d "
                      "(allowed growth %d)" % (shape, result, d_n, n, d_ref, min(n, 10), SLACK))
    ctx.count("shape=" + shape)
    ctx.count("result=" + result)
    ctx.count("n<=10" if n <= 10 else "10<n<=1000" if n <= DEFAULT_LIMIT else "1000<n<=10000" if n <= 10000 else "n>10000")
    md = ctx.extra.setdefault("max_depth_inside_callbacks", {})
    md[shape] = max(md.get(shape, 0), d_n)
    if n > DEFAULT_LIMIT:
        ctx.count("nontrivial")
        ctx.nontrivial((shape, result, n))
        if n >= 10000 and result == "failure":
            ctx.sample(case)


def _fixed(ctx, lengths):
    def cases():
        for n in lengths:
            for shape in SHAPES:
                for result in ("success", "failure"):
                    yield dict(shape=shape, result=result, n=n)
    enumerate_run(ctx, cases(), run_case)


def run(ctx):
    lengths = [1, 2, 10, 999, 1001, 5000, 10000, 20000]
    if ctx.thorough:
        lengths += [50000, 100000]
    _fixed(ctx, lengths)
    ctx.extra["fixed_lengths"] = lengths
    if ctx.has_violation():
        return
    top = ctx.pick(4000, 30000)
    strat = st.builds(
        dict,
        shape=st.sampled_from(SHAPES),
        result=st.sampled_from(["success", "failure"]),
        n=st.one_of(st.integers(1, top), st.integers(900, 1100), st.integers(1, 40),
                    st.sampled_from([3, 100, 300, 333, 500, 998, 1000, 1002, 2000, 3000])),
    )
    hyp_run(ctx, strat, run_case, ctx.pick(150, 1500), label="lengths")
