"""C03 — a Deferred delivers one result; cancellation follows its protocol.

case = {"outer": K, "inner": K, "ops": [...]}     K in none | noop | cb | eb | raise
       (canceller of the outer Deferred / default canceller of inner Deferreds:
        none = no canceller, noop = does nothing, cb = calls d.callback, eb = calls
        d.errback, raise = raises CancellerBoom)
ops:   ["cb"] ["eb"]            outer.callback(value) / outer.errback(failure)
       ["cancel"]               outer.cancel()
       ["add"] or ["add", K]    outer.addBoth(f) where f returns a fresh inner Deferred (canceller K)
       ["addto", k] or ["addto", k, K]
                                inner k .addBoth(f) where f returns a fresh Deferred (canceller K): chains
                                three or more deep (outer waits on inner k, inner k waits on the new one)
       ["fi", k, "ok"|"fail"]   fire inner k (k = -1: the most recently created one, -2 the one before)
       ["ci", k]                inner k .cancel()
       ["pause", t] ["unpause", t]   t = "o" (outer) or an inner index; unpause is ignored unless the
                                harness itself has an unmatched pause of that Deferred
An inner operation that names an inner Deferred that does not exist is ignored.
K may also be "succeed" / "fail": the Deferred is made by defer.succeed(value) / defer.fail(failure),
i.e. it "has already had .callback(result) called" (docstring) and every further result must raise.
       ["debug", 0|1]           switch Deferred debugging off / on in the middle of the history
Optional case key "debug": run the history with Deferred debugging on
(defer.setDebugging(True)); it is documented to add tracebacks to AlreadyCalledError
and nothing else, so every statement of the property must hold unchanged.

After every operation the outcome (accepted / AlreadyCalledError / exception of
a raising canceller) and the state of every Deferred are compared with a small
sequential model written from the Deferred / cancel() docstrings.  After the
last operation every Deferred additionally receives two more callback() calls,
which makes the "exactly one late result is swallowed" bookkeeping observable.
"""
from hypothesis import strategies as st

from lib.core import hyp_run, enumerate_run

META = dict(
    property="C03",
    level="exploration",
    technique="complete enumeration of all histories of length <= 6 (thorough <= 7, <= 8 for inner Deferreds without canceller) over 7 operations, and of length <= 5 (thorough <= 6) over 10 operations that also build chains three deep, x canceller kinds (and Deferreds made by succeed()/fail()), an alphabet that switches Deferred debugging on and off mid-history, an 8-operation alphabet with pause/unpause of the outer Deferred, a small scope with Deferred debugging switched on, plus Hypothesis histories to length 20 (pause/unpause of any Deferred, debugging on for a quarter of them), against a sequential model of the fire-once / cancel protocol; compared after every operation, with a two-fire epilogue per Deferred",
    level_text="All histories over {callback, errback, cancel, add callback returning a fresh inner Deferred, fire latest inner ok/fail, cancel latest inner} of the stated length are run for the listed (outer canceller, inner canceller) pairs; a second, 10-operation alphabet adds {add a callback returning a fresh Deferred to the latest inner Deferred, fire / cancel the second-latest Deferred}, so that cancel() has to be forwarded through an intermediate Deferred that has itself fired and is waiting (histories that contain an ignored inner operation are left out: they equal a shorter history; the comparison after every operation covers all prefixes). Hypothesis adds histories up to length 20 that address any inner Deferred and mix canceller kinds per inner Deferred. Exhaustive only inside that scope.",
    level_note="Trusted base: the model in this file (class Model), written from the docstrings of Deferred.__init__ (canceller), callback, errback and cancel. A canceller that raises is expected to propagate out of cancel() and leave the Deferred unfired (documented behaviour). Callbacks do not call back into Deferreds except through cancellers.",
    design_ref="§5 C03",
    rule="case = (outer canceller, inner canceller, ops). Non-trivial = the history contains a cancel() of some Deferred followed later by a callback/errback on that same Deferred; distinct by the whole case. Classes: late result swallowed, AlreadyCalledError, cancel forwarded to the inner Deferred, canceller fired / did nothing / raised, cancel on a fired Deferred that waits on nothing, cancel forwarded through a fired intermediate Deferred (chain three deep), cancel of a fired Deferred that was handed its awaited result while user-paused, histories run with Deferred debugging on or toggled mid-history, Deferreds made by succeed()/fail() that get a further result.",
)

KINDS = ["none", "noop", "cb", "eb", "raise"]
MADE = ["succeed", "fail"]          # pre-fired constructors; no canceller
ALLKINDS = KINDS + MADE
NO = ("no",)
V_NONE = ("v", None)
CANCELLED = ("f", "CancelledError")


class TagError(Exception):
    def __init__(self, tag):
        Exception.__init__(self, tag)
        self.tag = tag


class CancellerBoom(Exception):
    pass


# ---------------------------------------------------------------------------
# model

class _MD:
    __slots__ = ("i", "called", "result", "paused", "cbs", "kind", "cancel_calls", "swallow", "handed_paused")

    def __init__(self, i, kind):
        self.i = i
        self.called = False
        self.result = NO
        self.paused = 0
        self.cbs = []
        self.kind = kind
        self.cancel_calls = 0
        self.swallow = False      # one late result will be ignored
        self.handed_paused = False   # got the result it waited for while still paused by its owner


class Model:
    def __init__(self):
        self.ds = []
        self.log = []
        self.ev = set()

    def new(self, kind):
        d = _MD(len(self.ds), "none" if kind in MADE else kind)
        if kind in MADE:
            d.called = True
            d.result = ("v", "s%d" % d.i) if kind == "succeed" else ("f", "f%d" % d.i)
            self.prefired = getattr(self, "prefired", set()) | {d.i}
        self.ds.append(d)
        return d

    def fire(self, d, res):
        """-> 'ok' | 'ignored' | 'already'"""
        if d.called:
            if d.swallow:
                d.swallow = False
                self.ev.add("late result swallowed")
                return "ignored"
            self.ev.add("AlreadyCalledError")
            if d.i in getattr(self, "prefired", ()):
                self.ev.add("further result on a Deferred made by succeed()/fail()")
            return "already"
        d.called = True
        d.result = res
        self._run(d)
        return "ok"

    def cancel(self, d, hops=0):
        """-> 'ok' | 'raised'"""
        if not d.called:
            self.ev.add("cancel of unfired Deferred")
            if d.kind == "none":
                d.swallow = True
            else:
                d.cancel_calls += 1
                if d.kind == "raise":
                    self.ev.add("canceller raised")
                    return "raised"
                if d.kind == "cb":
                    self.ev.add("canceller fired")
                    self.fire(d, ("v", "c%d" % d.i))
                elif d.kind == "eb":
                    self.ev.add("canceller fired")
                    self.fire(d, ("f", "ce%d" % d.i))
                else:
                    self.ev.add("canceller did nothing")
            if not d.called:
                self.fire(d, CANCELLED)
            return "ok"
        if d.result[0] == "d":
            self.ev.add("cancel forwarded to inner")
            if hops >= 1:
                # "cancel() on a fired Deferred that is waiting on another Deferred cancels that
                # Deferred" applied to the intermediate Deferred, which is in exactly that state
                self.ev.add("cancel forwarded through a fired intermediate (chain >= 3 deep)")
            return self.cancel(self.ds[d.result[1]], hops + 1)
        self.ev.add("cancel of fired Deferred: no effect")
        if d.paused:
            self.ev.add("cancel of a fired, paused Deferred that waits on nothing: no effect")
        if d.handed_paused:
            self.ev.add("cancel of a fired Deferred that was handed its awaited result while user-paused: no effect")
        return "ok"

    def pause(self, d):
        d.paused += 1

    def unpause(self, d):
        d.paused -= 1
        if d.paused == 0 and d.called:
            self._run(d)

    def add(self, d, cid, target):
        d.cbs.append((cid, target))
        if d.called:
            self._run(d)

    def _run(self, d):
        if d.paused:
            return
        while d.cbs:
            e = d.cbs.pop(0)
            if e[0] == "cont":
                w = self.ds[e[1]]
                w.result = d.result
                d.result = V_NONE
                w.paused -= 1
                if w.paused == 0:
                    self._run(w)
                else:
                    w.handed_paused = True
                    self.ev.add("result handed to a waiter that is still paused by its owner")
                continue
            cid, target = e
            self.log.append((cid, d.result))
            r = self.ds[target]
            if r.result is NO or r.result[0] == "d" or r.paused:
                if r.result is not NO and r.result[0] == "d":
                    self.ev.add("waits on a Deferred that is itself waiting (chain >= 3 deep)")
                d.result = ("d", target)
                d.paused += 1
                r.cbs.append(("cont", d.i))
                self.ev.add("outer waits on inner")
                break
            self.ev.add("inner already had a result")
            d.result = r.result
            r.result = V_NONE


# ---------------------------------------------------------------------------

def _execute(case):
    """-> (mismatch or None, stats)"""
    from twisted.internet import defer
    from twisted.python.failure import Failure
    Deferred = defer.Deferred
    CONT = defer._CONTINUE

    model = Model()
    reals = []
    calls = []       # canceller call counts
    index = {}
    rlog = []

    def canon(x):
        if x is NO:
            return NO
        if isinstance(x, Failure):
            v = x.value
            if isinstance(v, TagError):
                return ("f", v.tag)
            return ("f", type(v).__name__)
        if isinstance(x, Deferred):
            return ("d", index.get(id(x), -1))
        return ("v", x)

    def new(kind):
        i = len(reals)
        calls.append(0)
        if kind == "none":
            d = Deferred()
        elif kind == "succeed":
            d = defer.succeed("s%d" % i)
        elif kind == "fail":
            d = defer.fail(TagError("f%d" % i))
        else:
            def canceller(dd):
                calls[i] += 1
                if kind == "cb":
                    dd.callback("c%d" % i)
                elif kind == "eb":
                    dd.errback(TagError("ce%d" % i))
                elif kind == "raise":
                    raise CancellerBoom("boom")
            d = Deferred(canceller)
        reals.append(d)
        index[id(d)] = i
        model.new(kind)
        return d

    def fire(i, how, n):
        """how: ok | fail.  -> (real outcome, model outcome)"""
        d = reals[i]
        try:
            if how == "ok":
                d.callback("v%d" % n)
            else:
                d.errback(TagError("e%d" % n))
            got = "accepted"
        except defer.AlreadyCalledError:
            got = "AlreadyCalledError"
        m = model.fire(model.ds[i], ("v", "v%d" % n) if how == "ok" else ("f", "e%d" % n))
        return got, m

    def cancel(i):
        d = reals[i]
        try:
            d.cancel()
            got = "ok"
        except CancellerBoom:
            got = "raised"
        return got, model.cancel(model.ds[i])

    def compare(n, op):
        if rlog != model.log:
            return ("callback-log", "after op %d %r: callbacks ran as %r, model says %r" % (n, op, rlog, model.log))
        for q, r in enumerate(reals):
            m = model.ds[q]
            if r.called != m.called:
                return ("state:called", "after op %d %r: Deferred %d called=%r, model says %r"
                        % (n, op, q, r.called, m.called))
            got = canon(getattr(r, "result", NO))
            if got != m.result:
                return ("state:result", "after op %d %r: Deferred %d holds %r, model says %r"
                        % (n, op, q, got, m.result))
            if calls[q] != m.cancel_calls:
                return ("state:canceller-calls", "after op %d %r: canceller of Deferred %d was called %d times, "
                        "model says %d" % (n, op, q, calls[q], m.cancel_calls))
            if r.paused != m.paused:
                return ("state:paused", "after op %d %r: Deferred %d pause count %d, model says %d"
                        % (n, op, q, r.paused, m.paused))
            pend = sum(1 for c in r.callbacks if c[0][0] is not CONT)
            mp = sum(1 for e in m.cbs if e[0] != "cont")
            if pend != mp:
                return ("state:pending-callbacks", "after op %d %r: Deferred %d has %d callbacks pending, "
                        "model says %d" % (n, op, q, pend, mp))
        return None

    outer_kind = case["outer"]
    inner_kind = case["inner"]
    ops = case["ops"]
    new(outer_kind)
    inners = []
    cancelled = set()
    nt = False
    own_pause = {}

    def mk_cb(cid, target):
        def f(arg):
            rlog.append((cid, canon(arg)))
            return target
        return f

    for n, op in enumerate(ops):
        k = op[0]
        if k in ("cb", "eb"):
            got, m = fire(0, "ok" if k == "cb" else "fail", n)
            if 0 in cancelled:
                nt = True
            mm = _fire_mismatch(got, m)
            if mm:
                return (mm[0], "op %d %r on outer: %s" % (n, op, mm[1])), None
        elif k == "cancel":
            got, m = cancel(0)
            cancelled.add(0)
            if got != m:
                return ("cancel-outcome:expected-%s-got-%s" % (m, got),
                        "op %d %r: cancel() %s, model says %s" % (n, op, got, m)), None
        elif k == "add":
            kind = op[1] if len(op) > 1 else inner_kind
            d = new(kind)
            i = len(reals) - 1
            inners.append(i)
            reals[0].addBoth(mk_cb(n, d))
            model.add(model.ds[0], n, i)
        elif k == "addto":
            if not inners or not -len(inners) <= op[1] < len(inners):
                continue
            t = inners[op[1]]
            kind = op[2] if len(op) > 2 else inner_kind
            d = new(kind)
            i = len(reals) - 1
            inners.append(i)
            reals[t].addBoth(mk_cb(n, d))
            model.add(model.ds[t], n, i)
        elif k in ("fi", "ci"):
            if not inners or not -len(inners) <= op[1] < len(inners):
                continue
            i = inners[op[1]]
            if k == "fi":
                got, m = fire(i, op[2], n)
                if i in cancelled:
                    nt = True
                mm = _fire_mismatch(got, m)
                if mm:
                    return (mm[0], "op %d %r on inner Deferred %d: %s" % (n, op, i, mm[1])), None
            else:
                got, m = cancel(i)
                cancelled.add(i)
                if got != m:
                    return ("cancel-outcome:expected-%s-got-%s" % (m, got),
                            "op %d %r: inner cancel() %s, model says %s" % (n, op, got, m)), None
        elif k == "debug":
            defer.setDebugging(bool(op[1]))
            model.ev.add("Deferred debugging toggled mid-history")
        elif k in ("pause", "unpause"):
            t = op[1]
            if t == "o":
                i = 0
            elif isinstance(t, int) and inners and -len(inners) <= t < len(inners):
                i = inners[t]
            else:
                continue
            if k == "pause":
                own_pause[i] = own_pause.get(i, 0) + 1
                reals[i].pause()
                model.pause(model.ds[i])
            else:
                if own_pause.get(i, 0) <= 0:
                    continue
                own_pause[i] -= 1
                reals[i].unpause()
                model.unpause(model.ds[i])
        else:
            continue
        mm = compare(n, op)
        if mm:
            return mm, None

    stats = dict(ev=set(model.ev), nt=nt, inners=len(inners))
    # epilogue: two more results for every Deferred
    for i in range(len(reals)):
        for rnd in (0, 1):
            n = 1000 + 2 * i + rnd
            got, m = fire(i, "ok", n)
            mm = _fire_mismatch(got, m)
            if mm:
                return ("epilogue-" + mm[0], "after the history, extra callback() #%d on Deferred %d: %s"
                        % (rnd + 1, i, mm[1])), None
            mm = compare(n, ["epilogue", i, rnd])
            if mm:
                return ("epilogue-" + mm[0], mm[1]), None
    for r in reals:
        if r._debugInfo is not None:
            r._debugInfo.failResult = None
    return None, stats


def _fire_mismatch(got, m):
    want = "AlreadyCalledError" if m == "already" else "accepted"
    if got != want:
        return ("fire-outcome:expected-%s-got-%s" % (m, got),
                "%s, model says %s" % (got, {"ok": "accepted as the result", "ignored": "silently ignored",
                                              "already": "AlreadyCalledError"}[m]))
    return None


def _key(case):
    return "%s|%s|%s|" % (case["outer"], case["inner"], "dbg" if case.get("debug") else "") + ";".join(",".join(str(x) for x in op) for op in case["ops"])


_UNRAISABLE = []


def _quiet_unraisable(u):
    # e.g. DebugInfo.__del__ failing at garbage collection on a broken tree: not what this property
    # is about, and the interpreter's default report on stderr would bury the VIOLATION line
    _UNRAISABLE.append(repr(u.exc_value)[:200])


def run_case(ctx, case):
    import sys
    sys.unraisablehook = _quiet_unraisable
    if _UNRAISABLE:
        ctx.note("exceptions ignored in __del__/GC were silenced, first: " + _UNRAISABLE[0])
    if case["outer"] not in ALLKINDS or case["inner"] not in ALLKINDS:
        return
    from twisted.internet import defer
    debug = bool(case.get("debug"))
    old = defer.getDebugging()
    defer.setDebugging(debug)
    try:
        mm, stats = _execute(case)
    finally:
        defer.setDebugging(old)
    if mm is not None:
        ctx.violation(mm[0] + (":debugging-on" if debug else ""), case,
                      "outer canceller=%s inner canceller=%s%s history=%r: %s"
                      % (case["outer"], case["inner"], " Deferred debugging ON" if debug else "", case["ops"], mm[1]))
    if debug:
        ctx.count("history run with Deferred debugging on")
    for label in stats["ev"]:
        ctx.count(label)
    if stats["nt"]:
        ctx.count("nontrivial")
        ctx.nontrivial(_key(case))
        if len(ctx.samples) < 5 and "cancel forwarded to inner" in stats["ev"] and "late result swallowed" in stats["ev"]:
            ctx.sample(case)


# ---------------------------------------------------------------------------

ALPHABET = [["cb"], ["eb"], ["cancel"], ["add"], ["fi", -1, "ok"], ["fi", -1, "fail"], ["ci", -1]]
ALPHABET10 = ALPHABET + [["addto", -1], ["fi", -2, "ok"], ["ci", -2]]
ALPHABET8P = [["cb"], ["cancel"], ["add"], ["addto", -1], ["fi", -1, "ok"], ["fi", -2, "ok"],
              ["pause", "o"], ["unpause", "o"]]
ALPHABET9D = ALPHABET + [["debug", 1], ["debug", 0]]
ALPHABETS = {"a7": ALPHABET, "a10": ALPHABET10, "a8p": ALPHABET8P, "a9d": ALPHABET9D}


def _enum_shard(ctx, arg):
    name, outer, inner, length, first = arg
    debug = name.endswith("+debug")
    name = name.split("+")[0]
    A = ALPHABETS[name]
    n = len(A)
    # how many inner Deferreds an operation needs / whether it creates one
    need = [(-op[1] if op[0] in ("fi", "ci", "addto") else 0) for op in A]
    makes = [op[0] in ("add", "addto") for op in A]
    pz = [(1 if op[0] == "pause" else -1 if op[0] == "unpause" else 0) for op in A]
    dbg = [(op[1] if op[0] == "debug" else None) for op in A]

    def cases():
        idx = [0] * (length - 1)
        while True:
            seq = [first] + idx
            have = 0
            own = 0
            ok = True
            state = 1 if debug else 0
            for x in seq:
                if dbg[x] is not None:
                    if dbg[x] == state:     # switching to the state it is in: equal to a shorter history
                        ok = False
                        break
                    state = dbg[x]
                if need[x] > have:
                    ok = False
                    break
                if makes[x]:
                    have += 1
                own += pz[x]
                if own < 0:          # an unpause the harness would ignore
                    ok = False
                    break
            if ok:
                c = dict(outer=outer, inner=inner, ops=[A[x] for x in seq])
                if debug:
                    c["debug"] = True
                yield c
            p = length - 2
            while p >= 0:
                idx[p] += 1
                if idx[p] < n:
                    break
                idx[p] = 0
                p -= 1
            if p < 0:
                return
    if need[first] == 0 and pz[first] >= 0 and dbg[first] != (1 if debug else 0):
        enumerate_run(ctx, cases(), run_case)


HYP_OPS = ([["cb"]] * 4 + [["eb"]] * 3 + [["cancel"]] * 6 + [["add"]] * 3
           + [["add", k] for k in KINDS]
           + [["debug", 1]] * 2 + [["debug", 0]] + [["add", k] for k in MADE] + [["addto", -1, k] for k in MADE]
           + [["pause", "o"]] * 2 + [["unpause", "o"]] * 2
           + [[v, t] for v in ("pause", "unpause") for t in (-1, -2, 0)]
           + [["addto", -1]] * 3 + [["addto", k] for k in (-2, 0)] + [["addto", -1, k] for k in KINDS]
           + [["fi", k, h] for k in (-2, -1, -1, 0, 1) for h in ("ok", "fail")]
           + [["ci", k] for k in (-2, -1, -1, 0, 1)])


def histories():
    return st.builds(
        dict,
        outer=st.sampled_from(["none", "none", "noop", "cb", "eb", "raise", "succeed", "fail"]),
        inner=st.sampled_from(KINDS),
        debug=st.sampled_from([False, False, False, True]),
        ops=st.lists(st.sampled_from(HYP_OPS), min_size=1, max_size=20))


def _hyp_shard(ctx, i):
    hyp_run(ctx, histories(), run_case, ctx.pick(2000, 15000), label="hist%d" % i)


QUICK_PAIRS = [("a7", o, "none", 6 if o == "none" else 5) for o in KINDS] + [
    ("a7", "none", "noop", 5), ("a7", "none", "cb", 5), ("a7", "none", "raise", 5), ("a7", "noop", "eb", 5),
    ("a10", "none", "none", 5), ("a10", "cb", "noop", 5), ("a10", "noop", "raise", 5), ("a10", "none", "cb", 5),
    ("a8p", "none", "none", 6), ("a8p", "none", "noop", 5), ("a8p", "cb", "raise", 5),
    ("a7+debug", "none", "none", 5), ("a7+debug", "noop", "cb", 5), ("a10+debug", "none", "noop", 4),
    ("a9d", "none", "none", 5), ("a9d+debug", "noop", "none", 4),
    ("a7+debug", "succeed", "none", 4), ("a7+debug", "none", "succeed", 4), ("a7", "fail", "fail", 4),
    ("a9d", "succeed", "fail", 4)]


def run(ctx):
    if ctx.thorough:
        pairs = [("a7", o, i, 8 if i == "none" else 7) for o in KINDS for i in KINDS] \
            + [("a10", o, i, 6) for o in KINDS for i in KINDS] \
            + [("a8p", o, i, 7) for o in KINDS for i in KINDS] \
            + [("a7+debug", o, i, 6) for o in KINDS for i in KINDS] \
            + [("a10+debug", o, "noop", 5) for o in KINDS] \
            + [("a9d", o, i, 6) for o in ALLKINDS for i in ("none", "cb", "succeed")] \
            + [("a9d+debug", o, i, 6) for o in ALLKINDS for i in ("none", "fail")] \
            + [("a7+debug", o, i, 5) for o in ALLKINDS for i in MADE]
    else:
        pairs = QUICK_PAIRS
    args = [(name, o, i, length, first) for (name, o, i, length) in pairs
            for first in range(len(ALPHABETS[name.split("+")[0]]))]
    ctx.shards(_enum_shard, args, procs=None if ctx.thorough else 1)
    ctx.extra["exhaustive_scope"] = dict(
        alphabets=ALPHABETS,
        pairs=[dict(alphabet=name, outer=o, inner=i, length=n) for name, o, i, n in pairs],
        note="every history of that length without an ignored inner operation; prefixes cover shorter ones")
    ctx.exhaustive = False    # Hypothesis part (length <= 20, any inner index) is sampled
    if ctx.has_violation():
        return
    if ctx.thorough:
        ctx.shards(_hyp_shard, list(range(16)))
    else:
        _hyp_shard(ctx, 0)
