"""C04 — DeferredList / gatherResults / race against a model of the documented results.

A case is plain data:

    {"kind": "dl" | "gather" | "race",
     "foc": bool, "foe": bool, "ce": bool,        # dl flags (gather uses ce only)
     "inputs": [[prefired, ok, canceller], ...],   # canceller in none|noop|ok|fail
     "sched":  [i, ..., -1, ...]}                  # fire input i / -1 = cancel the aggregate

Input i fires with the value ("v", i) or the exception Boom(("x", i)); its
canceller (when it has one) does nothing, fires ("cv", i) or fails with
Boom(("cx", i)).  A schedule entry for an input that has already completed
(because something cancelled it) is skipped.
"""
import itertools

from hypothesis import strategies as st

from lib.core import hyp_run, enumerate_run

META = dict(
    property="C04",
    level="exploration",
    technique="complete small-scope enumeration (kinds x flags x pre-fired subsets x outcomes x cancellers x firing permutations x aggregate-cancel position) + Hypothesis schedules for up to 12 inputs, lock-step against a model of the documented aggregate results",
    level_text="Every case with 1..3 inputs (quick) / 1..4 inputs (thorough); at the largest size of each tier the canceller alphabet is none/fires-success/fires-failure, below it also the do-nothing canceller is executed against the real DeferredList / gatherResults / race and a reference model, comparing after every step: whether the aggregate has fired, its result, what a callback added later to each input sees, how often each input's canceller ran and how often the race winner was cancelled. Lists of up to 12 inputs are sampled. Exhaustive only for the stated sizes.",
    level_note="Reference model written from the docstrings of DeferredList, gatherResults, race and Deferred.cancel; trusted. Inputs are plain Deferreds (a subclass that counts cancel() calls) with no other callbacks; inputs that chain to further Deferreds are outside the scope.",
    design_ref="§5 C04",
    rule="case = (kind, flags, per input [pre-fired, outcome, canceller], schedule of fire/cancel steps). non-trivial = at least 3 inputs, both successes and failures among the planned outcomes, and the inputs do not complete in index order; distinct by the whole case.",
)

CANCELLERS = ("none", "noop", "ok", "fail")
CANCELLED = ("cancelled",)


# --------------------------------------------------------------------------
# Reference model.  Outcomes are tags: ("v",i) ("cv",i) successes; ("x",i)
# ("cx",i) CANCELLED failures.

def _is_ok(tag):
    return tag[0] in ("v", "cv")


class Model:
    def __init__(self, case):
        self.kind = case["kind"]
        self.foc = case["kind"] == "dl" and case["foc"]
        self.foe = (case["kind"] == "dl" and case["foe"]) or case["kind"] == "gather"
        self.ce = case["kind"] in ("dl", "gather") and case["ce"]
        self.inputs = case["inputs"]
        self.n = len(self.inputs)
        self.outcome = [None] * self.n        # tag once input i has completed
        self.order = []                       # indices in order of completion
        self.canc_calls = [0] * self.n        # canceller invocations
        self.by_cancel = [False] * self.n     # completed because it was cancelled
        self.agg = None                       # None or a result description
        self.winner = None
        self.learned = 0                      # completions the aggregate has been told of

    # an input completes with `tag`
    def complete(self, i, tag):
        self.preset(i, tag)
        self.learn(i)

    def preset(self, i, tag):
        assert self.outcome[i] is None
        self.outcome[i] = tag
        self.order.append(i)

    # the aggregate is told about input i's completion
    def learn(self, i):
        tag = self.outcome[i]
        self.learned += 1
        if self.kind == "race":
            self._race_learns(i, tag)
        else:
            self._list_learns(i, tag)

    def _list_learns(self, i, tag):
        if self.agg is not None:
            return
        if _is_ok(tag) and self.foc:
            self.agg = ("one", tag, i)
        elif not _is_ok(tag) and self.foe:
            self.agg = ("first", tag, i)
        elif self.learned == self.n:
            pairs = [(_is_ok(t), t) for t in self.outcome]
            if self.kind == "gather":
                self.agg = ("values", [t for _, t in pairs])
            else:
                self.agg = ("list", pairs)

    def _race_learns(self, i, tag):
        if _is_ok(tag):
            if self.winner is None:
                self.winner = i
                for j in range(self.n):
                    if j != i:
                        self.cancel_input(j)
                self.agg = ("win", i, tag)
        else:
            if self.agg is None and all(
                    t is not None and not _is_ok(t) for t in self.outcome):
                self.agg = ("group", list(self.outcome))

    def cancel_input(self, i):
        if self.outcome[i] is not None:
            return
        c = self.inputs[i][2]
        if c != "none":
            self.canc_calls[i] += 1
        self.by_cancel[i] = True
        if c == "ok":
            self.complete(i, ("cv", i))
        elif c == "fail":
            self.complete(i, ("cx", i))
        else:
            self.complete(i, CANCELLED)

    def cancel_aggregate(self):
        if self.agg is not None:
            return False
        for i in range(self.n):
            self.cancel_input(i)
        if self.agg is None:      # cannot happen for n >= 1; kept for the record
            self.agg = ("cancelled",)
        return True

    def later_sees(self, i):
        """What a callback added to input i after the aggregate was built sees."""
        t = self.outcome[i]
        if t is None:
            return None
        if self.kind == "race":
            return ("race-any", t)
        if _is_ok(t):
            return ("ok", t)
        return ("ok", None) if self.ce else ("fail", t)


# --------------------------------------------------------------------------
# Real side.

_CLS = {}


def _classes():
    if not _CLS:
        from twisted.internet.defer import Deferred

        class CountingDeferred(Deferred):
            ncancel = 0

            def cancel(self):
                self.ncancel += 1
                Deferred.cancel(self)

        class Boom(Exception):
            def __init__(self, tag):
                Exception.__init__(self, tag)
                self.tag = tag

        _CLS["D"] = CountingDeferred
        _CLS["Boom"] = Boom
    return _CLS["D"], _CLS["Boom"]


def _norm_failure(f):
    from twisted.internet.defer import CancelledError
    _, Boom = _classes()
    v = f.value
    if isinstance(v, Boom):
        return v.tag
    if isinstance(v, CancelledError):
        return CANCELLED
    return ("other", type(v).__name__)


def _norm_agg(kind, res):
    """Normalise the aggregate's result into the model's vocabulary."""
    from twisted.python.failure import Failure
    from twisted.internet.defer import FirstError, FailureGroup, CancelledError
    if isinstance(res, Failure):
        v = res.value
        if isinstance(v, FirstError):
            if not isinstance(v.subFailure, Failure):
                return ("bad-firsterror", repr(v.subFailure))
            return ("first", _norm_failure(v.subFailure), v.index)
        if isinstance(v, FailureGroup):
            fs = list(v.failures)
            if not all(isinstance(x, Failure) for x in fs):
                return ("bad-group", repr(fs))
            return ("group", [_norm_failure(x) for x in fs])
        if isinstance(v, CancelledError):
            return ("cancelled",)
        return ("failure", type(v).__name__, str(v)[:200])
    if kind == "race":
        if isinstance(res, tuple) and len(res) == 2:
            return ("win", res[0], res[1])
        return ("bad", repr(res))
    if isinstance(res, tuple) and len(res) == 2:
        return ("one", res[0], res[1])
    if isinstance(res, list):
        if kind == "gather":
            return ("values", list(res))
        out = []
        for item in res:
            if not (isinstance(item, tuple) and len(item) == 2 and isinstance(item[0], bool)):
                return ("bad-item", repr(item))
            ok, x = item
            if isinstance(x, Failure):
                x = _norm_failure(x)
            out.append((ok, x))
        return ("list", out)
    return ("bad", repr(res))


def run_case(ctx, case):
    from twisted.internet import defer
    from twisted.python.failure import Failure
    D, Boom = _classes()

    kind = case["kind"]
    inputs = case["inputs"]
    n = len(inputs)
    m = Model(case)

    canc_real = [0] * n
    seen = [[] for _ in range(n)]         # what the later callback on input i saw
    agg_seen = []

    def make_canceller(i, c):
        if c == "none":
            return None

        def canceller(d):
            canc_real[i] += 1
            if c == "ok":
                d.callback(("cv", i))
            elif c == "fail":
                d.errback(Boom(("cx", i)))
        return canceller

    def fire(i):
        if inputs[i][1]:
            ds[i].callback(("v", i))
        else:
            ds[i].errback(Boom(("x", i)))

    ds = [D(make_canceller(i, inputs[i][2])) for i in range(n)]
    for i in range(n):
        if inputs[i][0]:
            fire(i)
            # model: completion known to the aggregate at construction, below

    # ---- build the aggregate
    if kind == "dl":
        agg = defer.DeferredList(ds, fireOnOneCallback=case["foc"],
                                 fireOnOneErrback=case["foe"], consumeErrors=case["ce"])
    elif kind == "gather":
        agg = defer.gatherResults(ds, consumeErrors=case["ce"])
    else:
        agg = defer.race(ds)
    # model: inputs fired beforehand have their outcome already; the aggregate
    # takes note of them in input order while it is being built
    for i in range(n):
        if inputs[i][0]:
            m.preset(i, ("v", i) if inputs[i][1] else ("x", i))
    for i in range(n):
        if inputs[i][0]:
            m.learn(i)

    def agg_cb(r):
        agg_seen.append(r)
        return None
    agg.addBoth(agg_cb)

    def later(i):
        def cb(r):
            seen[i].append(r)
            return None
        return cb
    for i in range(n):
        ds[i].addBoth(later(i))

    cancel_while_unfired = False
    steps_done = []

    def compare(step):
        # aggregate fired?
        want = m.agg
        if want is None:
            if agg_seen:
                ctx.violation(f"{kind}-fired-early", case,
                              f"after {step}: aggregate fired with {_norm_agg(kind, agg_seen[0])!r}, model says it has not fired yet (completions {m.order})")
        else:
            if not agg_seen:
                ctx.violation(f"{kind}-not-fired", case,
                              f"after {step}: model says aggregate fired with {want!r}; real aggregate has not fired (completions {m.order})")
            if len(agg_seen) != 1:
                ctx.violation(f"{kind}-fired-twice", case, f"after {step}: {len(agg_seen)} results")
            got = _norm_agg(kind, agg_seen[0])
            ok = got == want
            if not ok and kind == "gather" and want[0] == "first":
                # accept the bare first failure as well as FirstError
                res = agg_seen[0]
                ok = isinstance(res, Failure) and _norm_failure(res) == want[1]
            if not ok:
                sig = f"{kind}-result-{want[0]}"
                if want[0] == got[0] == "list" or want[0] == got[0] == "values" or want[0] == got[0] == "group":
                    if sorted(map(repr, want[1])) == sorted(map(repr, got[1])):
                        sig = f"{kind}-result-{want[0]}-order"
                ctx.violation(sig, case, f"after {step}: aggregate result {got!r}, model {want!r}")
        # inputs
        for i in range(n):
            exp = m.later_sees(i)
            if ds[i].called != (m.outcome[i] is not None):
                ctx.violation(f"{kind}-input-completion", case,
                              f"after {step}: input {i} called={ds[i].called}, model outcome {m.outcome[i]!r}")
            if exp is None:
                if seen[i]:
                    ctx.violation(f"{kind}-input-completion", case, f"after {step}: input {i} ran callbacks, model says unfired")
                continue
            if len(seen[i]) != 1:
                ctx.violation(f"{kind}-input-callback-count", case, f"after {step}: input {i} later callback ran {len(seen[i])} times")
            r = seen[i][0]
            if isinstance(r, Failure):
                got = ("fail", _norm_failure(r))
            else:
                got = ("ok", r)
            if exp[0] == "race-any":
                # race: the statement does not say what later callbacks see;
                # only an error that is not the input's own is a defect
                if got not in (("ok", None), ("ok", exp[1]), ("fail", exp[1])):
                    ctx.violation("race-input-result-foreign", case,
                                  f"after {step}: later callback on input {i} saw {got!r}; input outcome {exp[1]!r}")
            elif got != exp:
                if exp == ("ok", None) or got == ("ok", None):
                    sig = f"{kind}-consumeErrors"
                else:
                    sig = f"{kind}-input-result"
                ctx.violation(sig, case,
                              f"after {step}: later callback on input {i} saw {got!r}, model {exp!r} (consumeErrors={m.ce})")
            if canc_real[i] != m.canc_calls[i]:
                ctx.violation(f"{kind}-canceller-count", case,
                              f"after {step}: canceller of input {i} ran {canc_real[i]} times, model {m.canc_calls[i]}")
        for i in range(n):
            if m.outcome[i] is None and canc_real[i] != 0:
                ctx.violation(f"{kind}-canceller-count", case, f"after {step}: canceller of unfinished input {i} ran")
        if kind == "race" and m.winner is not None:
            w = m.winner
            expc = 1 if m.by_cancel[w] else 0
            if ds[w].ncancel != expc:
                ctx.violation("race-winner-cancelled", case,
                              f"after {step}: cancel() called {ds[w].ncancel} times on the winner (input {w}), expected {expc}")
        if not cancel_while_unfired and kind != "race":
            for i in range(n):
                if ds[i].ncancel:
                    if "cancel" in steps_done:
                        ctx.violation(f"{kind}-cancel-forwarded-after-firing", case,
                                      f"after {step}: input {i} was cancelled although the aggregate had already fired when it was cancelled")
                    ctx.violation(f"{kind}-spurious-cancel", case, f"after {step}: input {i} cancelled without an aggregate cancel")

    compare("construction")
    skipped = 0
    for op in case["sched"]:
        if op == -1:
            before = [x is None for x in m.outcome]
            effective = m.cancel_aggregate()
            if effective:
                cancel_while_unfired = True
            agg.cancel()
            step = "cancel"
            if effective:
                # every input unfired at that moment has now been cancelled
                for i in range(n):
                    if before[i] and ds[i].ncancel < 1:
                        ctx.violation(f"{kind}-cancel-not-forwarded", case, f"input {i} was unfired and not cancelled")
        else:
            if m.outcome[op] is not None:
                skipped += 1
                continue
            m.complete(op, ("v", op) if inputs[op][1] else ("x", op))
            fire(op)
            step = f"fire({op})"
        steps_done.append(step)
        compare(step)

    # ---- bookkeeping
    oks = [x[1] for x in inputs]
    mixed = any(oks) and not all(oks)
    in_order = m.order == sorted(m.order)
    ctx.count(f"kind={kind}")
    ctx.count(f"n={n}" if n < 6 else "n>=6")
    if "cancel" in steps_done:
        ctx.count("aggregate cancelled while unfired" if cancel_while_unfired else "aggregate cancelled after firing")
    if any(m.by_cancel):
        ctx.count("some input completed by cancellation")
    if m.agg is not None:
        ctx.count(f"agg={m.agg[0]}")
    else:
        ctx.count("agg=unfired at end")
    if any(x[0] for x in inputs):
        ctx.count("has pre-fired input")
    if n >= 3 and mixed and not in_order:
        ctx.count("nontrivial")
        ctx.nontrivial((kind, case.get("foc"), case.get("foe"), case.get("ce"),
                        [tuple(x) for x in inputs], list(case["sched"])))
        if len(ctx.samples) < 5 and (sum(m.order) * 7 + len(steps_done) + n) % 13 == 4:
            ctx.sample(case)


# --------------------------------------------------------------------------
# Generators

def _kinds():
    out = []
    for foc in (False, True):
        for foe in (False, True):
            for ce in (False, True):
                out.append(dict(kind="dl", foc=foc, foe=foe, ce=ce))
    for ce in (False, True):
        out.append(dict(kind="gather", foc=False, foe=False, ce=ce))
    out.append(dict(kind="race", foc=False, foe=False, ce=False))
    return out


def enum_cases(n, kinds, cancellers=CANCELLERS, part=0, nparts=1):
    """Every case for n inputs (cancellers varied only where one can run).
    part/nparts split the scope by outcome assignment for sharding."""
    for pre in itertools.product((False, True), repeat=n):
        unfired = [i for i in range(n) if not pre[i]]
        for oi, oks in enumerate(itertools.product((True, False), repeat=n)):
            if oi % nparts != part:
                continue
            for perm in itertools.permutations(unfired):
                for cpos in [None] + list(range(len(perm) + 1)):
                    sched = list(perm)
                    if cpos is not None:
                        sched.insert(cpos, -1)
                    for k in kinds:
                        # a canceller can only run if something cancels: the
                        # aggregate's cancel, or race's cancellation of losers
                        can_cancel = cpos is not None or k["kind"] == "race"
                        choices = cancellers if can_cancel else ("none",)
                        for cs in itertools.product(choices, repeat=len(unfired)):
                            cl = ["none"] * n
                            for i, c in zip(unfired, cs):
                                cl[i] = c
                            yield dict(k, inputs=[[pre[i], oks[i], cl[i]] for i in range(n)],
                                       sched=sched)


def _enum_shard(ctx, arg):
    n, kinds, cancellers, part, nparts = arg
    enumerate_run(ctx, enum_cases(n, kinds, cancellers, part, nparts), run_case)


def _random_shard(ctx, i):
    hyp_run(ctx, random_case(), run_case, 12000, label=f"shard{i}")


@st.composite
def random_case(draw):
    k = draw(st.sampled_from(_kinds()))
    n = draw(st.integers(1, 12))
    inputs = [[draw(st.booleans()) and draw(st.booleans()),      # pre-fired 25 %
               draw(st.booleans()),
               draw(st.sampled_from(CANCELLERS))] for _ in range(n)]
    if draw(st.integers(0, 3)) == 0:
        # bias: mostly failures / mostly successes so that all-fail and
        # first-success-late cases occur for long lists too
        b = draw(st.booleans())
        for x in inputs:
            if draw(st.integers(0, 4)) != 0:
                x[1] = b
    unfired = [i for i in range(n) if not inputs[i][0]]
    perm = draw(st.permutations(unfired))
    sched = list(perm)
    ncancel = draw(st.sampled_from([0, 0, 1, 1, 1, 2]))
    for _ in range(ncancel):
        sched.insert(draw(st.integers(0, len(sched))), -1)
    return dict(k, inputs=inputs, sched=sched)


def run(ctx):
    sizes = list(range(1, ctx.pick(4, 5)))
    kinds = _kinds()
    args = []
    scope = {}
    for n in sizes:
        # largest size of the tier: the no-op canceller is left out (it differs
        # from "no canceller" only inside Deferred.cancel; the smaller sizes
        # and the random lists keep it)
        full = n <= ctx.pick(2, 3)
        cancellers = CANCELLERS if full else ("none", "ok", "fail")
        scope[str(n)] = list(cancellers)
        if n >= 3:
            # fine shards keep the 16 workers evenly busy
            nparts = 1 if n == 3 else 8
            args += [(n, [k], cancellers, p, nparts) for k in kinds for p in range(nparts)]
        else:
            args.append((n, kinds, cancellers, 0, 1))
    args.sort(key=lambda a: -a[0])
    if ctx.thorough:
        ctx.shards(_enum_shard, args)
    else:
        # ~85 000 cases, a few seconds on one core: no worker processes
        for a in args:
            _enum_shard(ctx, a)
            if ctx.has_violation():
                break
    ctx.extra["exhaustive_sizes"] = sizes
    ctx.extra["exhaustive_canceller_alphabet_by_size"] = scope
    ctx.exhaustive = False     # the statement also covers longer lists; those are sampled
    if ctx.has_violation():
        return
    if ctx.thorough:
        ctx.shards(_random_shard, list(range(16)))
    else:
        hyp_run(ctx, random_case(), run_case, 2500, label="random")
