"""C04 — DeferredList / gatherResults / race against a model of the documented results.

A case is plain data:

    {"kind": "dl" | "gather" | "race",
     "foc": bool, "foe": bool, "ce": bool,        # dl flags (gather uses ce only)
     "inputs": [[prefired, ok, canceller(, [inner_ok, inner_canceller])], ...],   # canceller in none|noop|ok|fail
     "sched":  [i, ..., -1, ..., 100+i],           # fire input i / -1 = cancel the aggregate / fire input i's inner Deferred
     "reent": bool}                                # the aggregate's own callback adds one more callback to every input

Input i fires with the value ("v", i) or the exception Boom(("x", i)); its
canceller (when it has one) does nothing, fires ("cv", i) or fails with
Boom(("cx", i)).  A schedule entry for an input that has already completed
(because something cancelled it) is skipped.

"Callbacks added later" to an input are observed at three moments: right after
the aggregate was built, re-entrantly from the aggregate's own callback (with
"reent": while the input whose result fired the aggregate is still running its
callback chain), and after the schedule has ended.  All of them pass the
result through, so each must see the same thing.

An input with a fourth element is *chained*: before the aggregate is built it
gets a callback that returns a fresh unfired inner Deferred, so once the input
has fired with a success it "has a result" (.called is true) but its chain --
and with it the aggregate's own callback -- waits for the inner Deferred.
The inner Deferred fires with ("iv", i) / Boom(("ix", i)) and has its own
canceller (("icv", i) / Boom(("icx", i))).  From the aggregate's point of view
such an input has not completed yet; Deferred.cancel() documents that a
cancel of a Deferred waiting on another one is forwarded to that one.
"""
import itertools

from hypothesis import strategies as st

from lib.core import hyp_run, enumerate_run

META = dict(
    property="C04",
    level="exploration",
    technique="complete small-scope enumeration (kinds x flags x pre-fired subsets x outcomes x cancellers x firing permutations x aggregate-cancel position) + Hypothesis schedules for up to 12 inputs, lock-step against a model of the documented aggregate results",
    level_text="Every case with 1..3 inputs (quick) / 1..4 inputs (thorough); at the largest size the canceller alphabet is fires-success/fires-failure (quick, n = 3) or none/fires-success/fires-failure (thorough, n = 4), below it all four -- and every case with 1..2 (quick) / 1..3 (thorough) inputs of which at least one has fired but still waits on an inner Deferred returned by an earlier callback -- is executed against the real DeferredList / gatherResults / race and a reference model, comparing after every step: whether the aggregate has fired, its result, what callbacks added later to each input see (added right after construction, re-entrantly from the aggregate's own callback, and at the end), how often each input's canceller ran and how often the race winner was cancelled. Lists of up to 12 inputs are sampled. Exhaustive only for the stated sizes.",
    level_note="Reference model written from the docstrings of DeferredList, gatherResults, race and Deferred.cancel; trusted. Inputs are Deferreds (a subclass that counts cancel() calls), either bare or with one earlier callback that returns an unfired inner Deferred (fired-but-still-waiting inputs). For race, inputs on which cancel() does not produce a result at once (canceller fires a success whose callback then waits on an inner Deferred) are outside the scope: the statement does not say what race does with a result arriving after its own cancellation.",
    design_ref="§5 C04",
    rule="case = (kind, flags, per input [pre-fired, outcome, canceller, optional inner Deferred plan], schedule of fire / fire-inner / cancel steps). non-trivial = at least 3 inputs, both successes and failures among the planned outcomes, and the inputs do not complete in index order; distinct by the whole case.",
)

CANCELLERS = ("none", "noop", "ok", "fail")
CANCELLED = ("cancelled",)


# --------------------------------------------------------------------------
# Reference model.  Outcomes are tags: ("v",i) ("cv",i) successes; ("x",i)
# ("cx",i) CANCELLED failures.

def _is_ok(tag):
    return tag[0] in ("v", "cv", "iv", "icv")


def _chain(inp):
    return inp[3] if len(inp) > 3 and inp[3] else None


class Model:
    def __init__(self, case):
        self.kind = case["kind"]
        self.foc = case["kind"] == "dl" and case["foc"]
        self.foe = (case["kind"] == "dl" and case["foe"]) or case["kind"] == "gather"
        self.ce = case["kind"] in ("dl", "gather") and case["ce"]
        self.inputs = case["inputs"]
        self.n = len(self.inputs)
        self.outcome = [None] * self.n        # tag once input i has completed
        self.order = []                       # indices in order of completion
        self.canc_calls = [0] * self.n        # canceller invocations
        self.outer_fired = [False] * self.n   # the input Deferred itself has a result
        self.waiting = [False] * self.n       # ... but its chain waits on the inner Deferred
        self.inner_canc_calls = [0] * self.n  # inner canceller invocations
        self.inner_cancels = [0] * self.n     # cancel() calls that must reach the inner Deferred
        self.inner_made = [False] * self.n
        self.cancelled_while_waiting = 0
        self.by_cancel = [False] * self.n     # completed because it was cancelled
        self.agg = None                       # None or a result description
        self.winner = None
        self.learned = 0                      # completions the aggregate has been told of

    # an input completes with `tag`
    def complete(self, i, tag):
        self.preset(i, tag)
        self.learn(i)

    # the input Deferred itself gets the result `tag` (fired or cancelled);
    # returns True if that completes the input, False if it now waits on its
    # inner Deferred
    def outer_result(self, i, tag, learn=True):
        assert not self.outer_fired[i]
        self.outer_fired[i] = True
        if _chain(self.inputs[i]) and _is_ok(tag):
            self.waiting[i] = True
            self.inner_made[i] = True
            return False
        if learn:
            self.complete(i, tag)
        else:
            self.preset(i, tag)
        return True

    def inner_result(self, i, tag):
        assert self.waiting[i]
        self.waiting[i] = False
        self.complete(i, tag)

    def preset(self, i, tag):
        assert self.outcome[i] is None
        self.outcome[i] = tag
        self.order.append(i)

    # the aggregate is told about input i's completion
    def learn(self, i):
        tag = self.outcome[i]
        self.learned += 1
        if self.kind == "race":
            self._race_learns(i, tag)
        else:
            self._list_learns(i, tag)

    def _list_learns(self, i, tag):
        if self.agg is not None:
            return
        if _is_ok(tag) and self.foc:
            self.agg = ("one", tag, i)
        elif not _is_ok(tag) and self.foe:
            self.agg = ("first", tag, i)
        elif self.learned == self.n:
            pairs = [(_is_ok(t), t) for t in self.outcome]
            if self.kind == "gather":
                self.agg = ("values", [t for _, t in pairs])
            else:
                self.agg = ("list", pairs)

    def _race_learns(self, i, tag):
        if _is_ok(tag):
            if self.winner is None:
                self.winner = i
                for j in range(self.n):
                    if j != i:
                        self.cancel_input(j)
                self.agg = ("win", i, tag)
        else:
            if self.agg is None and all(
                    t is not None and not _is_ok(t) for t in self.outcome):
                self.agg = ("group", list(self.outcome))

    def cancel_input(self, i):
        if self.outcome[i] is not None:
            return
        self.by_cancel[i] = True
        if self.waiting[i]:
            # fired, but waiting on its inner Deferred: the cancel goes there
            c = _chain(self.inputs[i])[1]
            self.inner_cancels[i] += 1
            self.cancelled_while_waiting += 1
            if c != "none":
                self.inner_canc_calls[i] += 1
            tag = ("icv", i) if c == "ok" else ("icx", i) if c == "fail" else CANCELLED
            self.inner_result(i, tag)
            return
        c = self.inputs[i][2]
        if c != "none":
            self.canc_calls[i] += 1
        tag = ("cv", i) if c == "ok" else ("cx", i) if c == "fail" else CANCELLED
        self.outer_result(i, tag)

    def cancel_aggregate(self):
        if self.agg is not None:
            return False
        for i in range(self.n):
            self.cancel_input(i)
        if self.agg is None and self.kind == "race":
            # only if some input's cancel() produced no result (outside the
            # generated scope for race); Deferred.cancel then fails the result
            self.agg = ("cancelled",)
        return True

    def later_sees(self, i):
        """What a callback added to input i after the aggregate was built sees."""
        t = self.outcome[i]
        if t is None:
            return None
        if self.kind == "race":
            return ("race-any", t)
        if _is_ok(t):
            return ("ok", t)
        return ("ok", None) if self.ce else ("fail", t)


# --------------------------------------------------------------------------
# Real side.

_CLS = {}


def _classes():
    if not _CLS:
        from twisted.internet.defer import Deferred

        class CountingDeferred(Deferred):
            ncancel = 0

            def cancel(self):
                self.ncancel += 1
                Deferred.cancel(self)

        class Boom(Exception):
            def __init__(self, tag):
                Exception.__init__(self, tag)
                self.tag = tag

        _CLS["D"] = CountingDeferred
        _CLS["Boom"] = Boom
    return _CLS["D"], _CLS["Boom"]


def _norm_failure(f):
    from twisted.internet.defer import CancelledError
    _, Boom = _classes()
    v = f.value
    if isinstance(v, Boom):
        return v.tag
    if isinstance(v, CancelledError):
        return CANCELLED
    return ("other", type(v).__name__)


def _norm_agg(kind, res):
    """Normalise the aggregate's result into the model's vocabulary."""
    from twisted.python.failure import Failure
    from twisted.internet.defer import FirstError, FailureGroup, CancelledError
    if isinstance(res, Failure):
        v = res.value
        if isinstance(v, FirstError):
            if not isinstance(v.subFailure, Failure):
                return ("bad-firsterror", repr(v.subFailure))
            return ("first", _norm_failure(v.subFailure), v.index)
        if isinstance(v, FailureGroup):
            fs = list(v.failures)
            if not all(isinstance(x, Failure) for x in fs):
                return ("bad-group", repr(fs))
            return ("group", [_norm_failure(x) for x in fs])
        if isinstance(v, CancelledError):
            return ("cancelled",)
        return ("failure", type(v).__name__, str(v)[:200])
    if kind == "race":
        if isinstance(res, tuple) and len(res) == 2:
            return ("win", res[0], res[1])
        return ("bad", repr(res))
    if isinstance(res, tuple) and len(res) == 2:
        return ("one", res[0], res[1])
    if isinstance(res, list):
        if kind == "gather":
            return ("values", list(res))
        out = []
        for item in res:
            if not (isinstance(item, tuple) and len(item) == 2 and isinstance(item[0], bool)):
                return ("bad-item", repr(item))
            ok, x = item
            if isinstance(x, Failure):
                x = _norm_failure(x)
            out.append((ok, x))
        return ("list", out)
    return ("bad", repr(res))


def run_case(ctx, case):
    from twisted.internet import defer
    from twisted.python.failure import Failure
    D, Boom = _classes()

    kind = case["kind"]
    inputs = case["inputs"]
    n = len(inputs)
    m = Model(case)
    if kind == "race" and any(_chain(x) and x[2] == "ok" and not x[0] for x in inputs):
        # cancel() on such an input yields no result at once; what race does with
        # a result that arrives after its own cancellation is not in the statement
        ctx.count("outside scope: race input whose cancel() does not complete it")
        return

    canc_real = [0] * n
    icanc_real = [0] * n
    inner = [None] * n
    seen = [[] for _ in range(n)]         # what the later callback on input i saw
    agg_seen = []

    def make_canceller(i, c):
        if c == "none":
            return None

        def canceller(d):
            canc_real[i] += 1
            if c == "ok":
                d.callback(("cv", i))
            elif c == "fail":
                d.errback(Boom(("cx", i)))
        return canceller

    def fire(i):
        if inputs[i][1]:
            ds[i].callback(("v", i))
        else:
            ds[i].errback(Boom(("x", i)))

    def make_inner_canceller(i, c):
        if c == "none":
            return None

        def canceller(d):
            icanc_real[i] += 1
            if c == "ok":
                d.callback(("icv", i))
            elif c == "fail":
                d.errback(Boom(("icx", i)))
        return canceller

    def chain_cb(i):
        def cb(r):
            inner[i] = D(make_inner_canceller(i, _chain(inputs[i])[1]))
            return inner[i]
        return cb

    def fire_inner(i):
        if _chain(inputs[i])[0]:
            inner[i].callback(("iv", i))
        else:
            inner[i].errback(Boom(("ix", i)))

    ds = [D(make_canceller(i, inputs[i][2])) for i in range(n)]
    for i in range(n):
        if _chain(inputs[i]):
            ds[i].addCallback(chain_cb(i))
    for i in range(n):
        if inputs[i][0]:
            fire(i)
            # model: completion known to the aggregate at construction, below

    # ---- build the aggregate
    if kind == "dl":
        agg = defer.DeferredList(ds, fireOnOneCallback=case["foc"],
                                 fireOnOneErrback=case["foe"], consumeErrors=case["ce"])
    elif kind == "gather":
        agg = defer.gatherResults(ds, consumeErrors=case["ce"])
    else:
        agg = defer.race(ds)
    # model: inputs fired beforehand have their outcome already; the aggregate
    # takes note of them in input order while it is being built
    prelearn = []
    for i in range(n):
        if inputs[i][0]:
            if m.outer_result(i, ("v", i) if inputs[i][1] else ("x", i), learn=False):
                prelearn.append(i)
    for i in prelearn:
        m.learn(i)

    reent = bool(case.get("reent"))
    groups = {"after-construction": seen, "re-entrant": [[] for _ in range(n)],
              "at-end": [[] for _ in range(n)]}
    added = {g: False for g in groups}
    now = ["construction"]
    agg_fired_in = []

    def later(g, i):
        def cb(r):
            groups[g][i].append(r)
            return r                      # pass through: every later callback sees the same
        return cb

    def add_group(g):
        added[g] = True
        for i in range(n):
            ds[i].addBoth(later(g, i))

    def agg_cb(r):
        agg_seen.append(r)
        agg_fired_in.append(now[0])
        if reent:
            # callbacks added to the inputs from inside the aggregate's callback:
            # the input that just completed is still running its chain
            add_group("re-entrant")
        return None
    agg.addBoth(agg_cb)
    add_group("after-construction")

    cancel_while_unfired = False
    steps_done = []

    def compare(step):
        # a cancel owed to an input that has fired but still waits on its inner
        # Deferred (checked first: it names the root cause most narrowly)
        for i in range(n):
            if inner[i] is not None and inner[i].ncancel < m.inner_cancels[i]:
                ctx.violation(f"{kind}-cancel-not-forwarded-to-waiting-input", case,
                              f"after {step}: input {i} has fired and waits on an inner Deferred; that one got {inner[i].ncancel} cancel() calls, model {m.inner_cancels[i]}")
        # aggregate fired?
        want = m.agg
        if want is None:
            if agg_seen:
                ctx.violation(f"{kind}-fired-early", case,
                              f"after {step}: aggregate fired with {_norm_agg(kind, agg_seen[0])!r}, model says it has not fired yet (completions {m.order})")
        else:
            if not agg_seen:
                ctx.violation(f"{kind}-not-fired", case,
                              f"after {step}: model says aggregate fired with {want!r}; real aggregate has not fired (completions {m.order})")
            if len(agg_seen) != 1:
                ctx.violation(f"{kind}-fired-twice", case, f"after {step}: {len(agg_seen)} results")
            got = _norm_agg(kind, agg_seen[0])
            ok = got == want
            if not ok and kind == "gather" and want[0] == "first":
                # accept the bare first failure as well as FirstError
                res = agg_seen[0]
                ok = isinstance(res, Failure) and _norm_failure(res) == want[1]
            if not ok:
                sig = f"{kind}-result-{want[0]}"
                if want[0] == got[0] == "list" or want[0] == got[0] == "values" or want[0] == got[0] == "group":
                    if sorted(map(repr, want[1])) == sorted(map(repr, got[1])):
                        sig = f"{kind}-result-{want[0]}-order"
                ctx.violation(sig, case, f"after {step}: aggregate result {got!r}, model {want!r}")
        # inputs
        for i in range(n):
            exp = m.later_sees(i)
            if ds[i].called != m.outer_fired[i]:
                ctx.violation(f"{kind}-input-completion", case,
                              f"after {step}: input {i} called={ds[i].called}, model fired={m.outer_fired[i]} outcome {m.outcome[i]!r}")
            if (inner[i] is not None) != m.inner_made[i]:
                ctx.violation(f"{kind}-input-completion", case,
                              f"after {step}: input {i} inner Deferred exists={inner[i] is not None}, model waiting={m.waiting[i]} outcome {m.outcome[i]!r}")
            if inner[i] is not None:
                if inner[i].ncancel != m.inner_cancels[i]:
                    sig = f"{kind}-cancel-not-forwarded-to-waiting-input" if inner[i].ncancel < m.inner_cancels[i] else f"{kind}-inner-spurious-cancel"
                    ctx.violation(sig, case,
                                  f"after {step}: input {i} has fired and waits on an inner Deferred; that one got {inner[i].ncancel} cancel() calls, model {m.inner_cancels[i]}")
                if icanc_real[i] != m.inner_canc_calls[i]:
                    ctx.violation(f"{kind}-canceller-count", case,
                                  f"after {step}: inner canceller of input {i} ran {icanc_real[i]} times, model {m.inner_canc_calls[i]}")
            if exp is None:
                if any(groups[g][i] for g in groups):
                    ctx.violation(f"{kind}-input-completion", case, f"after {step}: input {i} ran callbacks, model says it has not completed")
                continue
            if not seen[i] and m.by_cancel[i]:
                ctx.violation(f"{kind}-cancel-not-forwarded", case,
                              f"after {step}: input {i} should have been completed by a cancellation (model outcome {m.outcome[i]!r}); it has not completed")
            for g in ("after-construction", "re-entrant", "at-end"):
                if not added[g]:
                    continue
                got_list = groups[g][i]
                if len(got_list) != 1:
                    ctx.violation(f"{kind}-input-callback-count", case,
                                  f"after {step}: the callback added {g} to input {i} ran {len(got_list)} times")
                r = got_list[0]
                if isinstance(r, Failure):
                    got = ("fail", _norm_failure(r))
                else:
                    got = ("ok", r)
                suffix = "" if g == "after-construction" else "-" + g
                if exp[0] == "race-any":
                    # race: the statement does not say what later callbacks see;
                    # only an error that is not the input's own is a defect
                    if got not in (("ok", None), ("ok", exp[1]), ("fail", exp[1])):
                        ctx.violation("race-input-result-foreign", case,
                                      f"after {step}: callback added {g} to input {i} saw {got!r}; input outcome {exp[1]!r}")
                elif got != exp:
                    if exp == ("ok", None) or got == ("ok", None):
                        sig = f"{kind}-consumeErrors{suffix}"
                    else:
                        sig = f"{kind}-input-result{suffix}"
                    ctx.violation(sig, case,
                                  f"after {step}: callback added {g} to input {i} saw {got!r}, model {exp!r} (consumeErrors={m.ce})")
        for i in range(n):
            if canc_real[i] != m.canc_calls[i]:
                ctx.violation(f"{kind}-canceller-count", case,
                              f"after {step}: canceller of input {i} ran {canc_real[i]} times, model {m.canc_calls[i]}")
        if kind == "race" and m.winner is not None:
            w = m.winner
            expc = 1 if m.by_cancel[w] else 0
            if ds[w].ncancel != expc:
                ctx.violation("race-winner-cancelled", case,
                              f"after {step}: cancel() called {ds[w].ncancel} times on the winner (input {w}), expected {expc}")
        if not cancel_while_unfired and kind != "race":
            for i in range(n):
                if ds[i].ncancel:
                    if "cancel" in steps_done:
                        ctx.violation(f"{kind}-cancel-forwarded-after-firing", case,
                                      f"after {step}: input {i} was cancelled although the aggregate had already fired when it was cancelled")
                    ctx.violation(f"{kind}-spurious-cancel", case, f"after {step}: input {i} cancelled without an aggregate cancel")

    compare("construction")
    skipped = 0
    for op in case["sched"]:
        if op == -1:
            effective = m.cancel_aggregate()
            if effective:
                cancel_while_unfired = True
            now[0] = "cancel-waiting" if m.cancelled_while_waiting else "cancel"
            agg.cancel()
            step = "cancel"
        elif op >= 100:
            i = op - 100
            if not (0 <= i < n) or not m.waiting[i]:
                skipped += 1
                continue
            m.inner_result(i, ("iv", i) if _chain(inputs[i])[0] else ("ix", i))
            now[0] = "fire-inner"
            fire_inner(i)
            step = f"fire-inner({i})"
        else:
            if m.outer_fired[op]:
                skipped += 1
                continue
            m.outer_result(op, ("v", op) if inputs[op][1] else ("x", op))
            now[0] = "fire"
            fire(op)
            step = f"fire({op})"
        steps_done.append(step)
        compare(step)

    # callbacks added after everything has happened
    now[0] = "end"
    add_group("at-end")
    compare("end")
    for i in range(n):
        ds[i].addErrback(lambda f: None)
        if inner[i] is not None:
            inner[i].addErrback(lambda f: None)

    # ---- bookkeeping
    if reent:
        ctx.count("re-entrant: aggregate's callback adds callbacks to the inputs")
        if agg_fired_in and agg_fired_in[0] in ("fire-inner", "cancel-waiting"):
            ctx.count("re-entrant add while the completing input was being resumed from its inner Deferred")
            if m.ce and any(t is not None and not _is_ok(t) for t in m.outcome):
                ctx.count("re-entrant add, input resumed from inner Deferred, consumeErrors with a failure")
    oks = [x[1] for x in inputs]
    mixed = any(oks) and not all(oks)
    in_order = m.order == sorted(m.order)
    ctx.count(f"kind={kind}")
    ctx.count(f"n={n}" if n < 6 else "n>=6")
    if "cancel" in steps_done:
        ctx.count("aggregate cancelled while unfired" if cancel_while_unfired else "aggregate cancelled after firing")
    if any(m.by_cancel):
        ctx.count("some input completed by cancellation")
    if m.agg is not None:
        ctx.count(f"agg={m.agg[0]}")
    else:
        ctx.count("agg=unfired at end")
    if any(x[0] for x in inputs):
        ctx.count("has pre-fired input")
    if any(_chain(x) for x in inputs):
        ctx.count("has chained input (callback returns an inner Deferred)")
    if any(i is not None for i in inner):
        ctx.count("some input fired and then waited on its inner Deferred")
    if m.cancelled_while_waiting:
        ctx.count("cancel reached an input that had fired but was still waiting on its inner Deferred")
    if any(m.waiting):
        ctx.count("some input still waiting at end")
    if n >= 3 and mixed and not in_order:
        ctx.count("nontrivial")
        ctx.nontrivial((kind, case.get("foc"), case.get("foe"), case.get("ce"), bool(case.get("reent")),
                        [tuple(x) for x in inputs], list(case["sched"])))
        if len(ctx.samples) < 5 and (sum(m.order) * 7 + len(steps_done) + n) % 13 == 4:
            ctx.sample(case)


# --------------------------------------------------------------------------
# Generators

def _kinds():
    out = []
    for foc in (False, True):
        for foe in (False, True):
            for ce in (False, True):
                out.append(dict(kind="dl", foc=foc, foe=foe, ce=ce))
    for ce in (False, True):
        out.append(dict(kind="gather", foc=False, foe=False, ce=ce))
    out.append(dict(kind="race", foc=False, foe=False, ce=False))
    return out


def enum_cases(n, kinds, cancellers=CANCELLERS, part=0, nparts=1):
    """Every case for n inputs (cancellers varied only where one can run).
    part/nparts split the scope by outcome assignment for sharding."""
    for pre in itertools.product((False, True), repeat=n):
        unfired = [i for i in range(n) if not pre[i]]
        for oi, oks in enumerate(itertools.product((True, False), repeat=n)):
            if oi % nparts != part:
                continue
            for perm in itertools.permutations(unfired):
                for cpos in [None] + list(range(len(perm) + 1)):
                    sched = list(perm)
                    if cpos is not None:
                        sched.insert(cpos, -1)
                    for k in kinds:
                        # a canceller can only run if something cancels: the
                        # aggregate's cancel, or race's cancellation of losers
                        can_cancel = cpos is not None or k["kind"] == "race"
                        choices = cancellers if can_cancel else ("none",)
                        for cs in itertools.product(choices, repeat=len(unfired)):
                            cl = ["none"] * n
                            for i, c in zip(unfired, cs):
                                cl[i] = c
                            for reent in ((False, True) if n == 1 else (True,)):
                                yield dict(k, inputs=[[pre[i], oks[i], cl[i]] for i in range(n)],
                                           sched=sched, reent=reent)


def _input_alphabet(kind, with_cancel, outer_cancellers, inner_cancellers):
    """All single-input descriptions for the chained family."""
    out = []
    oc = outer_cancellers if with_cancel else ("none",)
    ic = inner_cancellers if with_cancel else ("none",)
    for ok in (True, False):
        out.append([True, ok, "none"])                       # bare, pre-fired
        for c in oc:
            out.append([False, ok, c])                       # bare, fired later
    for iok in (True, False):
        for c2 in ic:
            out.append([True, True, "none", [iok, c2]])      # chained, pre-fired: waits from the start
            for c in oc:
                if c == "ok" and kind == "race":
                    continue                                 # see run_case: outside the scope
                out.append([False, True, c, [iok, c2]])      # chained, fired later
    return out


def enum_chained(n, kinds, outer_cancellers=("none", "fail"), inner_cancellers=("none", "ok", "fail"),
                 part=0, nparts=1):
    """Every case for n inputs of which at least one is chained: all orders of
    the firings (an inner Deferred after its input) x a cancel of the
    aggregate at every position or nowhere."""
    for k in kinds:
        for with_cancel in (False, True):
            alpha = _input_alphabet(k["kind"], with_cancel or k["kind"] == "race",
                                    outer_cancellers, inner_cancellers)
            for ci, combo in enumerate(itertools.product(alpha, repeat=n)):
                if ci % nparts != part:
                    continue
                if not any(_chain(x) for x in combo):
                    continue
                events = [i for i in range(n) if not combo[i][0]]
                events += [100 + i for i in range(n) if _chain(combo[i])]
                for perm in itertools.permutations(events):
                    if any(100 + e in perm[:pos] for pos, e in enumerate(perm) if e < 100):
                        continue        # inner before its input
                    positions = range(len(perm) + 1) if with_cancel else [None]
                    for cpos in positions:
                        sched = list(perm)
                        if cpos is not None:
                            sched.insert(cpos, -1)
                        for reent in ((False, True) if n == 1 else (True,)):
                            yield dict(k, inputs=[list(x) for x in combo], sched=sched, reent=reent)


def _enum_shard(ctx, arg):
    if arg[0] == "chained":
        _, n, kinds, oc, ic, part, nparts = arg
        enumerate_run(ctx, enum_chained(n, kinds, oc, ic, part, nparts), run_case)
        return
    n, kinds, cancellers, part, nparts = arg
    enumerate_run(ctx, enum_cases(n, kinds, cancellers, part, nparts), run_case)


def _random_shard(ctx, i):
    hyp_run(ctx, random_case(), run_case, 12000, label=f"shard{i}")


@st.composite
def random_case(draw):
    k = draw(st.sampled_from(_kinds()))
    n = draw(st.integers(1, 12))
    inputs = [[draw(st.booleans()) and draw(st.booleans()),      # pre-fired 25 %
               draw(st.booleans()),
               draw(st.sampled_from(CANCELLERS))] for _ in range(n)]
    if draw(st.integers(0, 3)) == 0:
        # bias: mostly failures / mostly successes so that all-fail and
        # first-success-late cases occur for long lists too
        b = draw(st.booleans())
        for x in inputs:
            if draw(st.integers(0, 4)) != 0:
                x[1] = b
    if draw(st.integers(0, 2)) == 0:
        # some inputs get a callback that returns an inner Deferred
        for x in inputs:
            if draw(st.integers(0, 2)) == 0:
                x.append([draw(st.booleans()), draw(st.sampled_from(CANCELLERS))])
                if draw(st.integers(0, 3)) != 0:
                    x[1] = True          # a failing input never reaches its inner Deferred
                if k["kind"] == "race" and x[2] == "ok" and not x[0]:
                    x[2] = "fail"        # outside the scope, see run_case
    events = [i for i in range(n) if not inputs[i][0]]
    events += [100 + i for i in range(n) if _chain(inputs[i])]
    perm = draw(st.permutations(events))
    sched = list(perm)
    ncancel = draw(st.sampled_from([0, 0, 1, 1, 1, 2]))
    for _ in range(ncancel):
        sched.insert(draw(st.integers(0, len(sched))), -1)
    return dict(k, inputs=inputs, sched=sched, reent=draw(st.booleans()))


def run(ctx):
    sizes = list(range(1, ctx.pick(4, 5)))
    kinds = _kinds()
    args = []
    scope = {}
    for n in sizes:
        # largest size of the tier: the no-op canceller is left out (it differs
        # from "no canceller" only inside Deferred.cancel; the smaller sizes
        # and the random lists keep it)
        full = n <= ctx.pick(2, 3)
        # (quick, n = 3: only the two cancellers that produce an indexed
        # result -- the ones that tell inputs apart in order checks)
        cancellers = CANCELLERS if full else (("none", "ok", "fail") if ctx.thorough else ("ok", "fail"))
        scope[str(n)] = list(cancellers)
        if n >= 3:
            # fine shards keep the 16 workers evenly busy
            nparts = 1 if n == 3 else 8
            args += [(n, [k], cancellers, p, nparts) for k in kinds for p in range(nparts)]
        else:
            args.append((n, kinds, cancellers, 0, 1))
    args.sort(key=lambda a: -a[0])
    # second family: lists with at least one chained input (fired, but waiting
    # on an inner Deferred returned by an earlier callback)
    trimmed = (("none", "fail"), ("none", "ok", "fail"))
    if ctx.thorough:
        args.append(("chained", 1, kinds, CANCELLERS, CANCELLERS, 0, 1))
        args += [("chained", 2, [k], CANCELLERS, CANCELLERS, 0, 1) for k in kinds]
        args += [("chained", 3, [k], ("none",), ("none", "ok"), p, 4) for k in kinds for p in range(4)]
        scope["chained"] = {"1": "all four cancellers (input and inner)", "2": "all four cancellers (input and inner)",
                            "3": "input: none; inner: none/ok"}
    else:
        args.append(("chained", 1, kinds, CANCELLERS, CANCELLERS, 0, 1))
        args.append(("chained", 2, kinds) + trimmed + (0, 1))
        scope["chained"] = {"1": "all four cancellers (input and inner)", "2": "input: none/fail; inner: none/ok/fail"}
    if ctx.thorough:
        ctx.shards(_enum_shard, args)
    else:
        # ~175 000 cases, well under 20 s on one core: no worker processes
        for a in args:
            _enum_shard(ctx, a)
            if ctx.has_violation():
                break
    ctx.extra["exhaustive_sizes"] = sizes
    ctx.extra["exhaustive_reentrant_callbacks"] = "n = 1: with and without; n >= 2: always with (the callbacks added after construction and at the end are always there as well)"
    ctx.extra["exhaustive_canceller_alphabet_by_size"] = scope
    ctx.exhaustive = False     # the statement also covers longer lists; those are sampled
    if ctx.has_violation():
        return
    if ctx.thorough:
        ctx.shards(_random_shard, list(range(16)))
    else:
        hyp_run(ctx, random_case(), run_case, 2500, label="random")
