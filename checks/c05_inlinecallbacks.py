"""C05 — inlineCallbacks / coroutines compared, in lock step, with the same program run synchronously.

A case is plain data:

    {"prog":  {"funcs": [{"style": "gen"|"coro", "body": [stmt, ...]}, ...]},   # funcs[0] is the entry point
     "plans": [[prefired, ok, exc_kind, canceller], ...],   # plan of the j-th await *executed* (dynamic index)
     "sched": [["next"] | ["fire", j] | ["cancel"] | ["late"], ...],   # or "sweep": true (cancel at every suspension point)
     "debug": bool}                                         # run with defer.setDebugging(True)

    ["late"] / ["fire", j] on a Deferred that was cancelled and has no canceller: its producer fires it anyway,
    later.  Deferred documents that exactly one such late result is accepted and discarded; the call must
    not raise and nothing the function or the returned Deferred shows may change.

    stmt := ["aw"]                      x = await/yield a Deferred      -> trace ("got", site, x)
          | ["pv"]                      x = yield <plain value>         -> trace ("plain", site, x)   (generators; a plain assignment elsewhere)
          | ["raise", "A"|"B"]          raise BoomA/BoomB(("r", site))
          | ["ret"]                     return ("ret", site)
          | ["try", body, [catch...], handler]        catch in A, B, C(ancelledError), E(xception)
          | ["fin", body, fbody, return_in_finally]
          | ["loop", count, body] | ["brk"] | ["cont"]
          | ["call", callee_index, via_ensureDeferred]     callee_index > index of the calling function

The program is emitted as Python source twice from one template: the real
flavour (each function an @inlineCallbacks generator or an `async def`,
nested calls awaited directly or through ensureDeferred) and a synchronous
flavour in which an await is the call SYNC(site).  The j-th await executed
owns Deferred j; plans[j] says whether it is already fired when first awaited,
how it fires, and what its canceller does.  Await number j beyond the plans
fires later with a value and has no canceller.

After the call and after every schedule step the synchronous flavour is re-run
from scratch with the outcomes decided so far; it raises Blocked at the first
undecided await and *freezes its trace there* (Blocked unwinds through the
program's own finally blocks; a return in finally may swallow it; everything
after the first block point is discarded).  Then: real trace == model trace;
returned Deferred fired <=> model finished, with the same value / exception
type+tag; cancel() calls and canceller runs per Deferred == model.
"""
from hypothesis import strategies as st

from lib.core import hyp_run, HarnessError

META = dict(
    property="C05",
    level="exploration",
    technique="random structured programs emitted as real generator/coroutine source and as a synchronous twin; model-based lock-step comparison of traces after every fire/cancel step, cancellation swept over every suspension point",
    level_text="Hypothesis generates programs (sequence, await, plain yield, try/except with generated catch sets, try/finally, return in finally, bounded loops with break/continue, raise, nested inlineCallbacks / async def / ensureDeferred calls) and schedules (fire the awaited Deferred, fire any other Deferred early, cancel the returned Deferred, fire a cancelled canceller-less Deferred late); a quarter to a third of the cases run with Deferred debugging switched on. After every step the trace seen inside the real function, the state and result of the returned Deferred, and the cancel()/canceller counts of every awaited Deferred are compared with a synchronous run of the same program. A second pass cancels at each suspension point in turn. Sampled, not exhaustive.",
    level_note="Trusted: the synchronous twin emitted from the same template (Python's own sequential semantics are the oracle), CPython's generator/coroutine machinery. Nested functions are always awaited at once (no concurrently running children); returnValue(), bare except / except BaseException, and Deferreds awaited twice are outside the generated language.",
    design_ref="§5 C05",
    rule="case = (program, per-await plans, schedule). non-trivial = the run suspended at >= 2 distinct awaits and (a cancel arrived while the function was suspended, or an exception crossed a nested call boundary); distinct by the whole case.",
)

MAX_DRAIN = 4000


# --------------------------------------------------------------------------
# Source emission

def _emit_program(prog, flavour):
    """flavour: 'sync' or 'real'.  Returns python source.  Site numbers are
    assigned by traversal order, identically for both flavours."""
    funcs = prog["funcs"]
    out = []
    site = [0]

    def new_site():
        site[0] += 1
        return site[0]

    def block(stmts, ind, fidx, style, in_loop):
        pad = "    " * ind
        if not stmts:
            out.append(pad + "pass")
            return
        for s in stmts:
            k = s[0]
            n = new_site()
            if k == "aw":
                if flavour == "sync":
                    out.append(f"{pad}x = SYNC({n})")
                elif style == "gen":
                    out.append(f"{pad}x = yield AW({n})")
                else:
                    out.append(f"{pad}x = await AW({n})")
                out.append(f"{pad}T('got', {n}, x)")
            elif k == "pv":
                if flavour == "real" and style == "gen":
                    out.append(f"{pad}x = yield ('p', {n})")
                else:
                    out.append(f"{pad}x = ('p', {n})")
                out.append(f"{pad}T('plain', {n}, x)")
            elif k == "raise":
                out.append(f"{pad}T('raise', {n})")
                out.append(f"{pad}raise Boom{s[1]}(('r', {n}))")
            elif k == "ret":
                out.append(f"{pad}T('return', {n})")
                out.append(f"{pad}return ('ret', {n})")
            elif k == "try":
                names = {"A": "BoomA", "B": "BoomB", "C": "CancelledError", "E": "Exception"}
                cs = ", ".join(names[c] for c in s[2])
                out.append(f"{pad}try:")
                block(s[1], ind + 1, fidx, style, in_loop)
                out.append(f"{pad}except ({cs},) as e:")
                out.append(f"{pad}    T('caught', {n}, type(e).__name__, getattr(e, 'tag', None))")
                block(s[3], ind + 1, fidx, style, in_loop)
            elif k == "fin":
                out.append(f"{pad}try:")
                block(s[1], ind + 1, fidx, style, in_loop)
                out.append(f"{pad}finally:")
                out.append(f"{pad}    T('fin', {n})")
                if s[2]:
                    block(s[2], ind + 1, fidx, style, in_loop)
                if s[3]:
                    out.append(f"{pad}    T('finret', {n})")
                    out.append(f"{pad}    return ('finret', {n})")
            elif k == "loop":
                out.append(f"{pad}for i{n} in range({int(s[1])}):")
                out.append(f"{pad}    T('iter', {n}, i{n})")
                block(s[2], ind + 1, fidx, style, True)
            elif k in ("brk", "cont"):
                if in_loop:
                    out.append(f"{pad}T('{k}', {n})")
                    out.append(f"{pad}{'break' if k == 'brk' else 'continue'}")
                else:
                    out.append(f"{pad}T('no{k}', {n})")
            elif k == "call":
                callee = s[1]
                if not (fidx < callee < len(funcs)):
                    out.append(f"{pad}T('nocall', {n})")
                    continue
                if flavour == "sync":
                    out.append(f"{pad}try:")
                    out.append(f"{pad}    r = s{callee}()")
                    out.append(f"{pad}except Exception:")
                    out.append(f"{pad}    CROSS()")
                    out.append(f"{pad}    raise")
                else:
                    expr = f"f{callee}()"
                    if s[2]:
                        expr = f"ensureDeferred({expr})"
                    kw = "yield" if style == "gen" else "await"
                    out.append(f"{pad}r = {kw} {expr}")
                out.append(f"{pad}T('ret', {n}, r)")
            else:
                raise HarnessError(f"unknown statement {s!r}")

    for fidx, f in enumerate(funcs):
        style = f["style"]
        if flavour == "sync":
            out.append(f"def s{fidx}():")
        elif style == "gen":
            out.append("@inlineCallbacks")
            out.append(f"def f{fidx}():")
        else:
            out.append(f"async def f{fidx}():")
        out.append(f"    T('enter', {fidx})")
        block(f["body"], 1, fidx, style, False)
        if flavour == "real" and style == "gen":
            out.append("    if 0:")
            out.append("        yield None")
        out.append("")
    return "\n".join(out) + "\n"


_CODE = {}


def _compiled(src, name):
    c = _CODE.get(src)
    if c is None:
        if len(_CODE) > 256:
            _CODE.clear()
        c = _CODE[src] = compile(src, name, "exec")
    return c


# --------------------------------------------------------------------------
# shared vocabulary

_CLS = {}


def _classes():
    if not _CLS:
        from twisted.internet.defer import Deferred

        class CountingDeferred(Deferred):
            ncancel = 0

            def cancel(self):
                self.ncancel += 1
                Deferred.cancel(self)

        class BoomA(Exception):
            def __init__(self, tag):
                Exception.__init__(self, tag)
                self.tag = tag

        class BoomB(Exception):
            def __init__(self, tag):
                Exception.__init__(self, tag)
                self.tag = tag

        class Blocked(BaseException):
            pass

        _CLS.update(D=CountingDeferred, BoomA=BoomA, BoomB=BoomB, Blocked=Blocked)
    return _CLS


def _plan(plans, j):
    if j < len(plans):
        p = plans[j]
        return dict(pre=bool(p[0]), ok=bool(p[1]), exc=p[2], canc=p[3])
    return dict(pre=False, ok=True, exc="A", canc="none")


def _planned_outcome(plans, j):
    p = _plan(plans, j)
    return ("ok", ("v", j)) if p["ok"] else ("exc", "Boom" + p["exc"], ("x", j))


def _cancel_outcome(plans, j):
    c = _plan(plans, j)["canc"]
    if c == "ok":
        return ("ok", ("cv", j))
    if c == "fail":
        return ("exc", "BoomB", ("cx", j))
    return ("exc", "CancelledError", None)


def _make_exc(o):
    from twisted.internet.defer import CancelledError
    cls = _classes()
    if o[1] == "CancelledError":
        return CancelledError()
    return cls[o[1]](o[2])


def _norm_exc(e):
    return ("exc", type(e).__name__, getattr(e, "tag", None))


# --------------------------------------------------------------------------
# the synchronous model

def model_run(prog, plans, decided):
    """Run the sync flavour. -> (trace, status, crossed) with status
    ('blocked', j) | ('ok', value) | ('exc', typename, tag)."""
    from twisted.internet.defer import CancelledError
    cls = _classes()
    Blocked = cls["Blocked"]
    st_ = dict(counter=0, frozen=False, blocked=None, crossed=0)
    trace = []

    def T(*a):
        if not st_["frozen"]:
            trace.append(a)

    def CROSS():
        if not st_["frozen"]:
            st_["crossed"] += 1

    def SYNC(site):
        j = st_["counter"]
        st_["counter"] += 1
        if st_["frozen"]:
            raise Blocked()
        o = decided.get(j)
        if o is None and _plan(plans, j)["pre"]:
            o = _planned_outcome(plans, j)
        if o is None:
            st_["frozen"] = True
            st_["blocked"] = j
            raise Blocked()
        if o[0] == "ok":
            return o[1]
        raise _make_exc(o)

    ns = dict(T=T, SYNC=SYNC, CROSS=CROSS, BoomA=cls["BoomA"], BoomB=cls["BoomB"],
              CancelledError=CancelledError)
    exec(_compiled(_emit_program(prog, "sync"), "<c05-sync>"), ns)
    try:
        v = ns["s0"]()
        status = ("ok", v)
    except Blocked:
        status = None
    except Exception as e:   # the program's own uncaught exception: part of the model
        status = _norm_exc(e)
    if st_["frozen"]:
        status = ("blocked", st_["blocked"])
    if status is None:
        raise HarnessError("Blocked escaped without a block point")
    return trace, status, st_["crossed"]


# --------------------------------------------------------------------------
# one lock-step execution

def _execute(ctx, case, prog, plans, sched, drain=True):
    from twisted.internet import defer as _defer
    if case.get("debug"):
        # Deferred debugging: a rarely used configuration that must not change behaviour
        _defer.setDebugging(True)
        try:
            return _execute_inner(ctx, case, prog, plans, sched, drain)
        finally:
            _defer.setDebugging(False)
    return _execute_inner(ctx, case, prog, plans, sched, drain)


_HOOKED = []


def _quiet_abandoned_generators():
    """When a case ends in a violation the program's generators / coroutines stay
    suspended; at collection time Python throws GeneratorExit into them and a
    generated `return` in `finally` answers with "ignored GeneratorExit" on
    stderr.  That is noise from the abandoned test program, not a finding."""
    import sys
    if _HOOKED:
        return
    prev = sys.unraisablehook

    def hook(u):
        if isinstance(u.exc_value, RuntimeError) and "ignored GeneratorExit" in str(u.exc_value):
            return
        prev(u)
    sys.unraisablehook = hook
    _HOOKED.append(prev)


def _execute_inner(ctx, case, prog, plans, sched, drain=True):
    _quiet_abandoned_generators()
    from twisted.internet.defer import (inlineCallbacks, ensureDeferred, CancelledError,
                                        Deferred)
    from twisted.python.failure import Failure
    cls = _classes()
    D = cls["D"]

    # ---- real side state
    ds = {}
    canc_real = {}
    rstate = dict(counter=0)
    rtrace = []
    final = []

    def make_canceller(j, c):
        if c == "none":
            return None

        def canceller(d):
            canc_real[j] = canc_real.get(j, 0) + 1
            if c == "ok":
                d.callback(("cv", j))
            elif c == "fail":
                d.errback(cls["BoomB"](("cx", j)))
        return canceller

    def fire_real(j):
        o = _planned_outcome(plans, j)
        if o[0] == "ok":
            ds[j].callback(o[1])
        else:
            ds[j].errback(_make_exc(o))

    def get_d(j):
        d = ds.get(j)
        if d is None:
            p = _plan(plans, j)
            d = ds[j] = D(make_canceller(j, p["canc"]))
            if p["pre"]:
                fire_real(j)
        return d

    def AW(site):
        j = rstate["counter"]
        rstate["counter"] += 1
        return get_d(j)

    def T(*a):
        rtrace.append(a)

    ns = dict(T=T, AW=AW, BoomA=cls["BoomA"], BoomB=cls["BoomB"], CancelledError=CancelledError,
              inlineCallbacks=inlineCallbacks, ensureDeferred=ensureDeferred)
    exec(_compiled(_emit_program(prog, "real"), "<c05-real>"), ns)

    # ---- model side state
    decided = {}
    ncancel_model = {}
    canc_model = {}
    blocked_at = set()
    info = dict(cancel_blocked=0, crossed=0, steps=0, early_fires=0, late_fires=0)
    late_ok = []      # awaits cancelled while having no canceller: one late result each is still owed

    def compare(step):
        mtrace, status, crossed = model_run(prog, plans, decided)
        info["crossed"] = crossed
        if status[0] == "blocked":
            blocked_at.add(status[1])
        if rtrace != mtrace:
            k = 0
            while k < len(rtrace) and k < len(mtrace) and rtrace[k] == mtrace[k]:
                k += 1
            r = rtrace[k] if k < len(rtrace) else None
            w = mtrace[k] if k < len(mtrace) else None
            if r is None:
                sig = "trace-real-stopped-early"
            elif w is None:
                sig = "trace-real-ran-past-block"
            elif r[0] == w[0] == "got":
                sig = "trace-await-value"
            elif r[0] == w[0] == "ret":
                sig = "trace-nested-return-value"
            elif r[0] == w[0] == "plain":
                sig = "trace-plain-yield-value"
            elif r[0] == w[0] == "caught":
                sig = "trace-caught-exception"
            else:
                sig = "trace-control-flow"
            ctx.violation(sig, case, f"after {step}: traces differ at entry {k}: real {r!r}, sync model {w!r}; model status {status!r}\nreal  {rtrace[-6:]!r}\nmodel {mtrace[-6:]!r}")
        if status[0] == "blocked":
            if final:
                ctx.violation("result-fired-while-blocked", case,
                              f"after {step}: returned Deferred fired with {_norm_final(final[0])!r} but the model is blocked at await #{status[1]}")
            j = status[1]
            if j not in ds or ds[j].called:
                ctx.violation("blocked-on-wrong-deferred", case, f"after {step}: model blocked at await #{j}, real Deferred {'missing' if j not in ds else 'already fired'}")
        else:
            if not final:
                ctx.violation("result-not-fired", case, f"after {step}: model finished with {status!r}; returned Deferred has not fired")
            if len(final) != 1:
                ctx.violation("result-fired-twice", case, f"after {step}: {len(final)} results")
            got = _norm_final(final[0])
            if got != status:
                sig = "result-value" if got[0] == status[0] == "ok" else (
                    "result-exception" if got[0] == status[0] == "exc" else "result-kind")
                ctx.violation(sig, case, f"after {step}: returned Deferred fired with {got!r}, sync model {status!r}")
        # cancellation bookkeeping on every Deferred the harness made
        for j, d in ds.items():
            if d.ncancel != ncancel_model.get(j, 0):
                ctx.violation("cancel-wrong-deferred" if ncancel_model.get(j, 0) == 0 else "cancel-count", case,
                              f"after {step}: Deferred of await #{j} got {d.ncancel} cancel() calls, model {ncancel_model.get(j, 0)}")
            if canc_real.get(j, 0) != canc_model.get(j, 0):
                ctx.violation("canceller-count", case,
                              f"after {step}: canceller of await #{j} ran {canc_real.get(j, 0)} times, model {canc_model.get(j, 0)}")
        for j in ncancel_model:
            if j not in ds:
                ctx.violation("cancel-not-delivered", case, f"after {step}: await #{j} should have been cancelled; no such Deferred")
        return status

    def _norm_final(r):
        if isinstance(r, Failure):
            return _norm_exc(r.value)
        return ("ok", r)

    # ---- start
    if prog["funcs"][0]["style"] == "gen":
        top = ns["f0"]()
    else:
        top = ensureDeferred(ns["f0"]())
    if not isinstance(top, Deferred):
        ctx.violation("not-a-deferred", case, repr(top))

    def rec(r):
        final.append(r)
        return None
    top.addBoth(rec)
    status = compare("call")

    def do(op):
        nonlocal status
        info["steps"] += 1
        if op[0] == "cancel":
            if status[0] == "blocked":
                j = status[1]
                ncancel_model[j] = ncancel_model.get(j, 0) + 1
                if _plan(plans, j)["canc"] != "none":
                    canc_model[j] = canc_model.get(j, 0) + 1
                decided[j] = _cancel_outcome(plans, j)
                info["cancel_blocked"] += 1
                if _plan(plans, j)["canc"] == "none":
                    late_ok.append(j)
            top.cancel()
            status = compare("cancel")
            return
        if op[0] == "late" or (op[0] == "fire" and int(op[1]) in late_ok):
            if not late_ok:
                return
            j = late_ok[0] if op[0] == "late" else int(op[1])
            late_ok.remove(j)
            info["late_fires"] += 1
            from twisted.internet.defer import AlreadyCalledError
            try:
                fire_real(j)
            except AlreadyCalledError as e:
                ctx.violation("late-result-after-cancel-rejected", case,
                              f"await #{j} has no canceller and was cancelled; firing it later (once) must be accepted silently, but raised AlreadyCalledError {str(e)[:80]!r} (debug={bool(case.get('debug'))})")
            status = compare(f"late-fire({j})")
            return
        if op[0] == "next":
            if status[0] != "blocked":
                return
            j = status[1]
        else:
            j = int(op[1])
            if status[0] == "blocked" and j != status[1]:
                info["early_fires"] += 1
        if j in decided or _plan(plans, j)["pre"]:
            # already has its outcome (pre-fired Deferreds fire when first made)
            return
        decided[j] = _planned_outcome(plans, j)
        get_d(j)
        fire_real(j)
        status = compare(f"fire({j})")

    for op in sched:
        do(op)
    if drain:
        n = 0
        while status[0] == "blocked":
            do(["next"])
            n += 1
            if n > MAX_DRAIN:
                raise HarnessError("drain did not terminate")
    info["blocked_at"] = len(blocked_at)
    info["awaits"] = rstate["counter"]
    info["final"] = status
    return info


def run_case(ctx, case):
    prog, plans = case["prog"], case["plans"]
    if case.get("sweep"):
        # pass 0: no cancel, to learn the number of suspension points
        info = _execute(ctx, case, prog, plans, [])
        points = min(info["steps"], 16)
        total = dict(info)
        for i in range(points):
            inf = _execute(ctx, case, prog, plans, [["next"]] * i + [["cancel"], ["late"]])
            total["cancel_blocked"] += inf["cancel_blocked"]
            total["late_fires"] += inf["late_fires"]
            total["blocked_at"] = max(total["blocked_at"], inf["blocked_at"])
            total["crossed"] = max(total["crossed"], inf["crossed"])
        info = total
        ctx.count("sweep cases")
        ctx.count("sweep executions", points + 1)
    else:
        info = _execute(ctx, case, prog, plans, case["sched"])
    # ---- bookkeeping
    styles = {f["style"] for f in prog["funcs"]}
    ctx.count("entry=" + prog["funcs"][0]["style"])
    if len(styles) == 2:
        ctx.count("mixed generator/coroutine program")
    ctx.count("suspensions=" + (str(info["blocked_at"]) if info["blocked_at"] < 4 else "4+"))
    if info["cancel_blocked"]:
        ctx.count("cancel while suspended")
        ctx.count("cancels while suspended (total)", info["cancel_blocked"])
    if info["crossed"]:
        ctx.count("exception crossed a nested call")
    if case.get("debug"):
        ctx.count("Deferred debugging on")
    if info["late_fires"]:
        ctx.count("late result fired into a cancelled canceller-less Deferred")
        if case.get("debug"):
            ctx.count("late result after cancel, with Deferred debugging on")
    if info["early_fires"]:
        ctx.count("a Deferred fired before it was awaited")
    ctx.count("final=" + info["final"][0] + ("" if info["final"][0] != "exc" else ":" + info["final"][1]))
    flat = repr(prog)
    for key, label in (("'fin'", "has try/finally"), ("'try'", "has try/except"), ("'loop'", "has loop"),
                       ("'call'", "has nested call")):
        if key in flat:
            ctx.count(label)
    if info["blocked_at"] >= 2 and (info["cancel_blocked"] or info["crossed"]):
        ctx.count("nontrivial")
        ctx.nontrivial(case)
        if len(ctx.samples) < 5 and (info["awaits"] + info["steps"]) % 7 == 3:
            ctx.sample(case)


# --------------------------------------------------------------------------
# Generators

CATCH_SETS = [["A"], ["B"], ["C"], ["E"], ["A", "B"], ["A", "C"], ["B", "C"], ["C", "E"]]

# Programs are drawn imperatively from cached integer strategies (building
# nested strategy objects per draw made generation 10x slower than execution).
_INTS = {}


def _int(draw, lo, hi):
    s = _INTS.get((lo, hi))
    if s is None:
        s = _INTS[(lo, hi)] = st.integers(lo, hi)
    return draw(s)


def _gen_block(draw, depth, fidx, nf, loops, budget):
    lo = 1 if depth == 0 else 0
    hi = 5 if depth == 0 else 3
    n = _int(draw, lo, hi)
    return [_gen_stmt(draw, depth, fidx, nf, loops, budget) for _ in range(n)]


def _gen_stmt(draw, depth, fidx, nf, loops, budget):
    r = _int(draw, 0, 99)
    budget[0] -= 1
    deep = depth >= 3 or budget[0] <= 0
    if r < 38:
        return ["aw"]
    if r < 50:
        if fidx < nf - 1:
            return ["call", _int(draw, fidx + 1, nf - 1), bool(_int(draw, 0, 1))]
        return ["aw"]
    if r < 55:
        return ["pv"]
    if r < 61:
        return ["raise", "AB"[_int(draw, 0, 1)]]
    if r < 64:
        return ["ret"]
    if r < 69:
        return [("brk", "cont")[_int(draw, 0, 1)]]
    if deep:
        return ["aw"]
    if r < 81:
        return ["try", _gen_block(draw, depth + 1, fidx, nf, loops, budget),
                list(CATCH_SETS[_int(draw, 0, len(CATCH_SETS) - 1)]),
                _gen_block(draw, depth + 1, fidx, nf, loops, budget)]
    if r < 92:
        return ["fin", _gen_block(draw, depth + 1, fidx, nf, loops, budget),
                _gen_block(draw, depth + 1, fidx, nf, loops, budget),
                _int(draw, 0, 2) == 2]
    if loops < 2:
        return ["loop", _int(draw, 1, 3), _gen_block(draw, depth + 1, fidx, nf, loops + 1, budget)]
    return ["aw"]


@st.composite
def programs(draw):
    nf = (1, 2, 2, 3)[_int(draw, 0, 3)]
    funcs = []
    for f in range(nf):
        style = ("gen", "coro")[_int(draw, 0, 1)]
        funcs.append(dict(style=style, body=_gen_block(draw, 0, f, nf, 0, [24])))
    return dict(funcs=funcs)


PLAN = st.tuples(
    st.sampled_from([False, False, False, True]),           # pre-fired
    st.sampled_from([True, True, False]),                   # fires with a value
    st.sampled_from(["A", "B"]),
    st.sampled_from(["none", "noop", "ok", "fail"]),
).map(list)

OP = st.one_of(
    st.just(["next"]), st.just(["next"]), st.just(["next"]),
    st.just(["cancel"]), st.just(["cancel"]), st.just(["late"]),
    st.tuples(st.just("fire"), st.integers(0, 11)).map(list),
)


@st.composite
def cases(draw):
    return dict(prog=draw(programs()),
                plans=draw(st.lists(PLAN, min_size=0, max_size=10)),
                sched=draw(st.lists(OP, min_size=0, max_size=12)),
                debug=draw(st.sampled_from([False, False, False, True])))


@st.composite
def sweep_cases(draw):
    return dict(prog=draw(programs()),
                plans=draw(st.lists(PLAN, min_size=2, max_size=10)),
                sweep=True,
                debug=draw(st.sampled_from([False, False, True])))


def _shard(ctx, i):
    hyp_run(ctx, cases(), run_case, 5000, label=f"sched{i}")
    if ctx.has_violation():
        return
    hyp_run(ctx, sweep_cases(), run_case, 1500, label=f"sweep{i}")


def run(ctx):
    if ctx.thorough:
        ctx.shards(_shard, list(range(16)))
        return
    hyp_run(ctx, cases(), run_case, 1500, label="sched")
    if ctx.has_violation():
        return
    hyp_run(ctx, sweep_cases(), run_case, 400, label="sweep")
