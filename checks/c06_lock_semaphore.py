"""C06 — DeferredLock / DeferredSemaphore: safety, FIFO fairness, capacity accounting.

A history is a list of operations interpreted against the real primitive and,
in lockstep, against a tiny reference model (FIFO of pending ids + free-token
count).  After every operation everything observable is compared.

Operations (plain lists):
  ["acq", mode]          mode "plain" | "rr" (the grant callback releases re-entrantly)
  ["run", beh]           beh "ret" | "raise" | "dfr" (returns a Deferred fired later)
                              | "raise:exit" | "raise:kbi" | "raise:genexit" | "raise:acancel" |
                                "raise:base": the function fails with an exception that is NOT an
                                Exception subclass (SystemExit, KeyboardInterrupt, GeneratorExit,
                                asyncio.CancelledError, a direct BaseException subclass)
                              | "dok" / "dbad" (returns an already fired Deferred)
                         shapes whose result is NOT available when the function returns
                         although the returned object may look finished:
                              | "chain"    succeed(x).addCallback(lambda _: inner): .called is
                                           true, the chain is paused on the unfired `inner`
                              | "chainbad" fail(e).addErrback(lambda _: inner): same, via errback
                              | "paused"   a Deferred that was pause()d and then fired: .called,
                                           result held back until unpause() (= its "fire")
                              | "dfr2"     unfired Deferred whose callback returns another unfired
                                           Deferred: needs two fires (a failing first fire ends it)
                              | "coro"     an `async def` function awaiting an unfired Deferred
  ["rel", j]             holder j (a granted, unreleased "plain" acquisition) releases
  ["cancel", j]          cancel the Deferred of item j (pending, granted, running or finished)
  ["fire", j, ok]        fire the Deferred returned by run j's function; ok is true, false
                         (fails with an Exception) or a family name "exit"|"kbi"|... (fails
                         with that non-Exception BaseException)
  ["rel*", k] ["cancel*", cls, k] ["fire*", k, ok]
                         selector forms used by the random generator: the k-th
                         (mod n) *eligible* item; cls in pending|held|running|any
Items are numbered by creation order.  An operation that is not enabled in the
model (e.g. release by a non-holder: misuse, outside the statement) is skipped.
"""
import asyncio

from hypothesis import strategies as st

from lib.core import hyp_run, guarded, KnownFindingSkip, PropertyViolation

META = dict(
    property="C06",
    level="exploration",
    technique="lockstep reference model (FIFO + token count) over op-list histories: breadth-first exploration of all enabled-op histories with hashing of the observed real state, plus Hypothesis random long histories",
    level_text="Every transition out of every distinct reachable state (state = waiting list by item kind, tokens/locked, multiset of current holders, read from the real object) is executed for DeferredLock and DeferredSemaphore(1..3) up to the stated depth (quick: lock/sem1 6, sem2/sem3 7; thorough: 8, sem3 9; the depths actually run are in coverage.exhaustive_scopes) and compared step by step with the model; a second, shallower scope (quick depth 4, sem3 5; thorough 5, sem3 6) runs the same exploration over every function-result shape for run(): value, raise, unfired / already fired / already failed Deferred, fired-but-chained-on-a-pending-Deferred (via callback and via errback), paused-and-fired, two-stage, coroutine; random histories of up to 60 operations cover deeper queues. Histories that reach an already visited state are not extended (their futures are those of the representative). Not a proof; exhaustive only up to the depth and under the state abstraction.",
    level_note="Reference model written from the docstrings, trusted. The state abstraction assumes a primitive's future behaviour depends only on waiting/tokens/locked and the kinds of the live items. release() is observed through an instance-level wrapper. Cancelling a run() whose function Deferred is outstanding uses a canceller-less function Deferred. Misuse (release by a non-holder) is not generated.",
    design_ref="§5 C06",
    rule="case = (primitive, limit, op list). non-trivial = the history cancels a pending acquisition while another acquisition is pending; distinct by (primitive, limit, resolved op list).",
)

ACQ_MODES = ("plain", "rr")
RUN_BEHS = ("ret", "raise", "dfr")
RUN_LATER = ("dfr", "chain", "chainbad", "paused", "dfr2", "coro")    # result available only after fire(s)
RUN_CALLED_UNAVAILABLE = ("chain", "chainbad", "paused")               # returned Deferred has .called set
RUN_BEHS_ALL = ("ret", "raise", "dok", "dbad") + RUN_LATER
FAMILIES = ("exit", "kbi", "genexit", "acancel", "base")
RUN_RAISE_BASE = tuple("raise:" + f for f in FAMILIES)
RUN_BEHS_FAIL = ("ret", "dfr", "raise") + RUN_RAISE_BASE      # scope C: how a function fails synchronously
KIND_CODE = {"plain": "P", "rr": "R", "ret": "r", "raise": "x", "dfr": "d", "dok": "o", "dbad": "b",
             "raise:exit": "X1", "raise:kbi": "X2", "raise:genexit": "X3", "raise:acancel": "X4", "raise:base": "X5",
             "chain": "c", "chainbad": "e", "paused": "p", "dfr2": "2", "coro": "a"}


class HarnessFault(Exception):
    """Raised / delivered by generated run() functions."""


# "functions that succeed, fail or return Deferreds": failing includes raising an
# exception outside the Exception hierarchy; run() must still release exactly once.
class HarnessExit(SystemExit):
    pass


class HarnessInterrupt(KeyboardInterrupt):
    pass


class HarnessGeneratorExit(GeneratorExit):
    pass


class HarnessAsyncCancelled(asyncio.CancelledError):
    pass


class HarnessBase(BaseException):
    pass


FAMILY_CLASS = {"exit": HarnessExit, "kbi": HarnessInterrupt, "genexit": HarnessGeneratorExit,
                "acancel": HarnessAsyncCancelled, "base": HarnessBase}
HARNESS_BASE_EXCEPTIONS = tuple(FAMILY_CLASS.values())


def _fail_class(ok):
    """ok: False -> HarnessFault, family name -> that class."""
    return HarnessFault if ok is False else FAMILY_CLASS[ok]


# ---------------------------------------------------------------------------
# reference model

class Model:
    def __init__(self, limit):
        self.limit = limit
        self.free = limit
        self.queue = []          # pending item ids, request order
        self.items = []          # dict(kind="acq"|"run", sub=mode|beh, state=...)
        self.grant_log = []      # ids in the order their grant callback / function ran
        self.releases = 0
        self.results = {}        # id -> ("ok", tag) | ("fail", excname)

    # item states: acq: pending, holding, released, cancelled
    #              run: pending, running, done, cancelled
    def holders(self):
        return self.limit - self.free

    def new(self, kind, sub):
        self.items.append(dict(kind=kind, sub=sub, state="pending"))
        i = len(self.items) - 1
        if self.free > 0:
            self.free -= 1
            self._grant(i)
        else:
            self.queue.append(i)
        return i

    def _grant(self, i):
        it = self.items[i]
        self.grant_log.append(i)
        if it["kind"] == "acq":
            it["state"] = "holding"
            self.results[i] = ("ok", "primitive")
            if it["sub"] == "rr":
                it["state"] = "released"
                self._release()
        else:
            sub = it["sub"]
            if sub in RUN_LATER:
                it["state"] = "running"
                it["stage"] = 2 if sub == "dfr2" else 1
            else:
                it["state"] = "done"
                # the function's result is available: release, then the run() Deferred fires
                self._release()
                if sub in ("ret", "dok"):
                    self.results[i] = ("ok", ("v", i))
                elif sub in RUN_RAISE_BASE:
                    self.results[i] = ("fail", FAMILY_CLASS[sub[6:]].__name__)
                else:
                    self.results[i] = ("fail", "HarnessFault")

    def _release(self):
        self.releases += 1
        if self.queue:
            self._grant(self.queue.pop(0))
        else:
            self.free += 1

    def release(self, i):
        self.items[i]["state"] = "released"
        self._release()

    def cancel(self, i):
        it = self.items[i]
        if it["state"] == "pending":
            self.queue.remove(i)
            it["state"] = "cancelled"
            self.results[i] = ("fail", "CancelledError")
            return "pending"
        if it["state"] == "running":
            if it["sub"] == "paused":
                # Deferred.cancel() on a fired Deferred that waits on nothing does nothing
                return "paused"
            it["state"] = "done"
            self._release()
            self.results[i] = ("fail", "CancelledError")
            return "running"
        return "noop"

    def fire(self, i, ok):
        it = self.items[i]
        if it["stage"] == 2 and ok is True:
            it["stage"] = 1          # outer fired; its callback now waits on the inner Deferred
            return
        it["state"] = "done"
        self._release()
        self.results[i] = ("ok", ("fv", i)) if ok is True else ("fail", _fail_class(ok).__name__)

    # enabled operations (absolute form) for the exhaustive exploration
    def enabled(self, run_behs=RUN_BEHS):
        ops = [["acq", m] for m in ACQ_MODES] + [["run", b] for b in run_behs]
        for i, it in enumerate(self.items):
            s = it["state"]
            if it["kind"] == "acq" and s == "holding":
                ops.append(["rel", i])
                ops.append(["cancel", i])
            elif s == "pending":
                ops.append(["cancel", i])
            elif s == "running":
                ops.append(["cancel", i])
                ops.append(["fire", i, True])
                ops.append(["fire", i, False])
        return ops

    def eligible(self, cls):
        out = []
        for i, it in enumerate(self.items):
            s = it["state"]
            if cls == "rel" and it["kind"] == "acq" and s == "holding":
                out.append(i)
            elif cls == "pending" and s == "pending":
                out.append(i)
            elif cls == "held" and s in ("holding",):
                out.append(i)
            elif cls == "running" and s == "running":
                out.append(i)
            elif cls == "any":
                out.append(i)
        return out


# ---------------------------------------------------------------------------
# the real thing, instrumented from outside

class World:
    def __init__(self, kind, limit):
        from twisted.internet import defer
        self.defer = defer
        self.kind = kind
        self.limit = limit
        self.p = defer.DeferredLock() if kind == "lock" else defer.DeferredSemaphore(limit)
        self.holders = 0
        self.max_holders = 0
        self.releases = 0
        self.grant_log = []
        self.results = {}
        self.items = []          # dict(d=Deferred, fd=function Deferred or None, kind, sub)
        self.problems = []       # (signature, detail) noticed inside callbacks
        orig = self.p.release

        def release():
            self.holders -= 1
            self.releases += 1
            orig()
        self.p.release = release

    def _granted(self, i):
        self.holders += 1
        self.max_holders = max(self.max_holders, self.holders)
        self.grant_log.append(i)
        if self.holders > self.limit:
            self.problems.append(("holders-exceed-limit",
                                  f"{self.holders} holders at grant of item {i}, limit {self.limit}"))

    def _record(self, result, i):
        from twisted.python.failure import Failure
        if i in self.results:
            self.problems.append(("result-fired-twice", f"item {i}"))
        if isinstance(result, Failure):
            self.results[i] = ("fail", result.type.__name__)
        elif result is self.p:
            self.results[i] = ("ok", "primitive")
        else:
            self.results[i] = ("ok", result)
        return None

    def acq(self, mode):
        i = len(self.items)
        d = self.p.acquire()
        self.items.append(dict(d=d, fd=None, kind="acq", sub=mode))

        def on_grant(res):
            self._granted(i)
            if res is not self.p:
                self.problems.append(("grant-value-not-primitive", repr(res)))
            if mode == "rr":
                self.p.release()
            return res
        d.addCallback(on_grant)
        d.addBoth(self._record, i)
        return i

    def run(self, beh):
        i = len(self.items)
        item = dict(d=None, fire=[], fail=True, kind="run", sub=beh, calls=0)
        self.items.append(item)
        defer = self.defer

        def started():
            item["calls"] += 1
            if item["calls"] > 1:
                self.problems.append(("run-function-called-twice", f"item {i}"))
            self._granted(i)

        def f():
            started()
            if beh == "ret":
                return ("v", i)
            if beh == "raise":
                raise HarnessFault(i)
            if beh in RUN_RAISE_BASE:
                raise FAMILY_CLASS[beh[6:]](i)
            if beh == "dok":
                return defer.succeed(("v", i))
            if beh == "dbad":
                return defer.fail(HarnessFault(i))
            inner = defer.Deferred()
            if beh == "dfr":
                item["fire"] = [inner]
                return inner
            if beh == "chain":
                item["fire"] = [inner]
                return defer.succeed(("start", i)).addCallback(lambda _: inner)
            if beh == "chainbad":
                item["fire"] = [inner]
                return defer.fail(HarnessFault(("start", i))).addErrback(lambda _: inner)
            if beh == "dfr2":
                outer = defer.Deferred()
                outer.addCallback(lambda _: inner)
                item["fire"] = [outer, inner]
                return outer
            if beh == "paused":
                def outcome(v):
                    if item["fail"] is not True:
                        raise _fail_class(item["fail"])(i)
                    return v
                held = defer.Deferred()
                held.addCallback(outcome)
                held.pause()
                held.callback(("fv", i))
                item["fire"] = [("unpause", held)]
                return held
            raise AssertionError(beh)

        async def coro():
            started()
            inner = defer.Deferred()
            item["fire"] = [inner]
            return await inner

        d = self.p.run(coro if beh == "coro" else f)
        item["d"] = d
        d.addBoth(self._record, i)
        return i

    def fire(self, i, ok):
        item = self.items[i]
        target = item["fire"].pop(0)
        if isinstance(target, tuple):
            item["fail"] = ok          # True = succeed, False / family = how it fails
            target[1].unpause()
        elif ok is True:
            target.callback(("fv", i))
        else:
            del item["fire"][:]
            target.errback(_fail_class(ok)(i))

    def index_of(self, d):
        for i, it in enumerate(self.items):
            if it["d"] is d:
                return i
        return None

    def state_key(self):
        """Abstract state read from the real object (+ which grants the harness has seen)."""
        by_id = {id(it["d"]): it for it in self.items}
        waiting = []
        for d in self.p.waiting:
            it = by_id.get(id(d))
            waiting.append(KIND_CODE[it["sub"]] if it else "?")
        cap = bool(self.p.locked) if self.kind == "lock" else self.p.tokens
        return (tuple(waiting), cap)


def _resolve(model, op):
    """Turn a selector op into an absolute op, or None if nothing is eligible."""
    name = op[0]
    if name == "rel*":
        el = model.eligible("rel")
        return ["rel", el[op[1] % len(el)]] if el else None
    if name == "cancel*":
        el = model.eligible(op[1])
        return ["cancel", el[op[2] % len(el)]] if el else None
    if name == "fire*":
        el = model.eligible("running")
        return ["fire", el[op[1] % len(el)], op[2] if op[2] in FAMILY_CLASS else bool(op[2])] if el else None
    return list(op)


def _enabled(model, op):
    name = op[0]
    n = len(model.items)
    if name in ("acq", "run"):
        return True
    j = op[1]
    if not (isinstance(j, int) and 0 <= j < n):
        return False
    it = model.items[j]
    if name == "rel":
        return it["kind"] == "acq" and it["state"] == "holding"
    if name == "cancel":
        return True
    if name == "fire":
        return it["state"] == "running"
    return False


def _compare(ctx, case, w, m, step, op):
    def bad(sig, detail):
        ctx.violation(sig, case, f"after step {step} {op}: {detail}")
    if w.problems:
        sig, detail = w.problems[0]
        bad(sig, detail)
    if w.grant_log != m.grant_log:
        # classify: same set but different order = fairness; otherwise liveness/safety
        if sorted(w.grant_log) == sorted(m.grant_log):
            bad("grant-order-not-fifo", f"granted {w.grant_log}, request order says {m.grant_log}")
        extra = [i for i in w.grant_log if i not in m.grant_log]
        missing = [i for i in m.grant_log if i not in w.grant_log]
        if extra:
            states = {i: m.items[i]["state"] for i in extra}
            if missing and all(s == "pending" for s in states.values()) and min(missing) < min(extra):
                bad("grant-order-not-fifo", f"items {extra} granted ahead of earlier requests {missing}; real {w.grant_log} model {m.grant_log}")
            if any(s == "cancelled" for s in states.values()):
                bad("cancelled-acquisition-granted", f"items {extra} were cancelled while pending but got the primitive")
            bad("granted-without-capacity", f"items {extra} granted, model says {states}; real {w.grant_log} model {m.grant_log}")
        bad("pending-not-granted-when-free", f"items {missing} should hold by now; real {w.grant_log} model {m.grant_log}")
    if w.releases > m.releases and any(it["state"] == "running" for it in m.items) and (
            op[0] == "run" and op[1] in RUN_LATER or op[0] == "fire" and m.items[op[1]]["state"] == "running"):
        who = [i for i, it in enumerate(m.items) if it["state"] == "running"]
        bad("run-released-before-function-result-available",
            f"release() called {w.releases} times, model {m.releases}; run items {who} still wait for their function's result")
    if w.releases < m.releases and op[0] == "run" and (op[1] == "raise" or op[1] in RUN_RAISE_BASE):
        bad("run-function-raised-without-release",
            f"function of {op} raised; release() called {w.releases} times, model {m.releases}")
    if w.holders != m.holders():
        bad("holder-count", f"{w.holders} holders (grants minus release() calls), model {m.holders()}")
    if w.releases != m.releases:
        bad("release-count", f"release() called {w.releases} times, model {m.releases}")
    if w.results != m.results:
        diff = {i: (w.results.get(i), m.results.get(i))
                for i in set(w.results) | set(m.results) if w.results.get(i) != m.results.get(i)}
        runs = [i for i in diff if m.items[i]["kind"] == "run"]
        bad("run-result" if runs else "acquire-result", f"(real, model) per item: {diff}")
    p = w.p
    if w.kind == "lock":
        if bool(p.locked) != (m.holders() == 1):
            bad("locked-flag", f"locked={p.locked}, model holders={m.holders()}")
    else:
        if p.tokens != m.free:
            bad("tokens", f"tokens={p.tokens}, model free={m.free}")
    real_wait = [w.index_of(d) for d in p.waiting] if p.waiting or m.queue else []
    if real_wait != m.queue:
        bad("waiting-list", f"waiting={real_wait}, model queue={m.queue}")


def execute(ctx, case):
    """Interpret one history. Returns (world, model, resolved ops)."""
    kind, limit = case["kind"], case["limit"]
    w = World(kind, limit)
    m = Model(limit)
    resolved = []
    flags = set()

    def real(fn, *a):
        # a function's BaseException must end up in run()'s Deferred, not in the caller
        try:
            fn(*a)
        except HARNESS_BASE_EXCEPTIONS as e:
            ctx.violation("run-function-exception-propagated", case,
                          f"{type(e).__name__}{e.args} came out of {getattr(fn, '__name__', fn)}")

    for step, op0 in enumerate(case["ops"]):
        op = _resolve(m, op0)
        if op is None or not _enabled(m, op):
            ctx.count("op skipped (not enabled)")
            continue
        resolved.append(op)
        name = op[0]
        if name in ("acq", "run") and any(
                it["state"] == "running" and it["sub"] in RUN_CALLED_UNAVAILABLE for it in m.items):
            flags.add("request arrives while a holder's function returned a .called Deferred whose result is pending")
        if name == "acq":
            if m.free == 0:
                flags.add("acquire while full")
            m.new("acq", op[1])
            real(w.acq, op[1])
        elif name == "run":
            if m.free == 0:
                flags.add("run while full")
            flags.add("run shape " + op[1])
            if op[1] in RUN_RAISE_BASE:
                flags.add("run function raises a non-Exception BaseException"
                          + (" while queued behind holders" if m.free == 0 else " on a free primitive"))
            m.new("run", op[1])
            real(w.run, op[1])
        elif name == "rel":
            if m.queue:
                flags.add("release hands over to a waiter")
                k = 0
                for q in m.queue:
                    if m.items[q]["kind"] == "acq" and m.items[q]["sub"] == "rr" or \
                            m.items[q]["kind"] == "run" and m.items[q]["sub"] != "dfr":
                        k += 1
                    else:
                        break
                if k >= 2:
                    flags.add("re-entrant release chain >= 2")
            m.release(op[1])
            real(w.p.release)
        elif name == "cancel":
            npend = len(m.queue)
            st_before = m.items[op[1]]["state"]
            what = m.cancel(op[1])
            if what == "pending":
                flags.add("cancel pending")
                if npend >= 2:
                    flags.add("NT")
                    if m.queue and m.queue[-1] > op[1]:
                        flags.add("cancel pending not last in queue")
            elif what == "running":
                flags.add("cancel run with function Deferred outstanding")
            elif what == "paused":
                flags.add("cancel run whose function Deferred is paused (no-op)")
            elif st_before == "holding":
                flags.add("cancel granted acquisition")
            else:
                flags.add("cancel finished item")
            real(w.items[op[1]]["d"].cancel)
        elif name == "fire":
            flags.add("fire ok" if op[2] is True else "fire fail")
            if op[2] in FAMILY_CLASS:
                flags.add("function Deferred fails with a non-Exception BaseException")
            if m.items[op[1]]["stage"] == 2 and op[2] is True:
                flags.add("fire first stage of a two-stage function Deferred")
            elif m.queue:
                flags.add("run completion hands over to a waiter")
            m.fire(op[1], op[2])
            real(w.fire, op[1], op[2])
        _compare(ctx, case, w, m, step, op)
        if len(m.queue) >= 3:
            flags.add("queue >= 3")
    return w, m, resolved, flags


def run_case(ctx, case):
    w, m, resolved, flags = execute(ctx, case)
    for f in flags:
        if f != "NT":
            ctx.count(f)
    if "NT" in flags:
        ctx.count("nontrivial (cancel pending while another pending)")
        ctx.nontrivial((case["kind"], case["limit"], resolved))
        if len(resolved) <= 12:
            ctx.sample(dict(kind=case["kind"], limit=case["limit"], ops=resolved))
    return w, m


# ---------------------------------------------------------------------------
# exhaustive exploration with state hashing

def _full_key(w, m):
    """State key: real waiting/tokens/locked + kinds of the live holders."""
    live = []
    for i, it in enumerate(m.items):
        if it["state"] in ("holding", "running"):
            live.append(KIND_CODE[it["sub"]] + ("'" if it.get("stage") == 2 else ""))
    return w.state_key() + (tuple(sorted(live)),)


def _bfs(ctx, kind, limit, prefix, depth, run_behs=RUN_BEHS):
    """Breadth-first over enabled-op histories extending `prefix` by up to `depth`
    operations; a history reaching an already seen state is not extended.
    Returns the last frontier (list of (ops, enabled))."""
    out = {}

    def body(c, case):
        w, m = run_case(c, case)
        out["key"] = _full_key(w, m)
        out["enabled"] = m.enabled(run_behs)

    def step(case):
        ctx.case()
        out.clear()
        try:
            guarded(ctx, body, case)
        except KnownFindingSkip:
            return False
        return True

    seen = set()
    if not step(dict(kind=kind, limit=limit, ops=list(prefix))):
        return []
    seen.add(out["key"])
    frontier = [(list(prefix), out["enabled"])]
    transitions = 0
    for d in range(depth):
        nxt = []
        for ops, enabled in frontier:
            for op in enabled:
                case = dict(kind=kind, limit=limit, ops=ops + [op])
                transitions += 1
                if not step(case):
                    continue
                k = out["key"]
                if k not in seen:
                    seen.add(k)
                    nxt.append((case["ops"], out["enabled"]))
        frontier = nxt
    ctx.count("exhaustive: transitions executed", transitions)
    ctx.count("exhaustive: states expanded or reached (per shard)", len(seen))
    tag = {RUN_BEHS: "", RUN_BEHS_ALL: " (all function-result shapes)",
           RUN_BEHS_FAIL: " (exception families)"}[tuple(run_behs)]
    ctx.extra[f"exhaustive transitions {kind}{limit}{tag}"] = ctx.extra.get(f"exhaustive transitions {kind}{limit}{tag}", 0) + transitions
    return frontier


def _explore_shard(ctx, arg):
    kind, limit, prefix, depth, behs = arg
    _bfs(ctx, kind, limit, prefix, depth, behs)


SPLIT = 2   # the parent explores this many levels itself and shards on the frontier


def _explore_all(ctx, configs, parallel):
    shard_args = []
    for kind, limit, depth, behs in configs:
        if not parallel:
            _bfs(ctx, kind, limit, [], depth, behs)
            continue
        frontier = _bfs(ctx, kind, limit, [], SPLIT, behs)
        shard_args += [(kind, limit, ops, depth - SPLIT, behs) for ops, _ in frontier]
    if shard_args:
        # biggest sub-trees first (those that start with a full primitive)
        ctx.shards(_explore_shard, shard_args)
    ctx.extra["exhaustive_scopes"] = [dict(primitive=k, limit=l, depth=d, run_functions=list(b))
                                      for k, l, d, b in configs]


# ---------------------------------------------------------------------------
# random long histories

def _history_strategy(max_ops):
    idx = st.integers(0, 7)
    op = st.one_of(
        st.tuples(st.just("acq"), st.sampled_from(ACQ_MODES)).map(list),
        st.tuples(st.just("acq"), st.just("plain")).map(list),
        st.tuples(st.just("run"), st.sampled_from(RUN_BEHS_ALL)).map(list),
        st.tuples(st.just("run"), st.sampled_from(RUN_LATER)).map(list),
        st.tuples(st.just("run"), st.sampled_from(RUN_RAISE_BASE)).map(list),
        st.tuples(st.just("rel*"), idx).map(list),
        st.tuples(st.just("cancel*"), st.sampled_from(["pending", "pending", "held", "running", "any"]), idx).map(list),
        st.tuples(st.just("fire*"), idx, st.booleans()).map(list),
        st.tuples(st.just("fire*"), idx, st.sampled_from(FAMILIES)).map(list),
    )
    return st.builds(
        dict,
        kind=st.sampled_from(["lock", "sem"]),
        limit=st.integers(1, 3),
        ops=st.lists(op, min_size=1, max_size=max_ops),
    ).map(lambda c: dict(c, limit=1) if c["kind"] == "lock" else c)


def _random_shard(sub, i):
    hyp_run(sub, _history_strategy(60), run_case, 6000, label=f"shard{i}")


def run(ctx):
    # scope A: deep, three run() function behaviours
    configs = [("lock", 1, ctx.pick(6, 8), RUN_BEHS), ("sem", 1, ctx.pick(6, 8), RUN_BEHS),
               ("sem", 2, ctx.pick(7, 8), RUN_BEHS), ("sem", 3, ctx.pick(7, 9), RUN_BEHS)]
    # scope B: shallower, every function-result shape (what "the function's result
    # is available" means for fired-but-chained, paused, two-stage and coroutine results)
    dB = ctx.pick(4, 5)
    configs += [("lock", 1, dB, RUN_BEHS_ALL), ("sem", 1, dB, RUN_BEHS_ALL),
                ("sem", 2, dB, RUN_BEHS_ALL), ("sem", 3, dB + 1, RUN_BEHS_ALL)]
    # scope C: how the function fails synchronously, every exception family
    dC = ctx.pick(4, 5)
    configs += [("lock", 1, dC, RUN_BEHS_FAIL), ("sem", 1, dC, RUN_BEHS_FAIL),
                ("sem", 2, dC, RUN_BEHS_FAIL), ("sem", 3, dC + 1, RUN_BEHS_FAIL)]
    try:
        _explore_all(ctx, configs, parallel=ctx.thorough)
    except PropertyViolation:
        pass
    ctx.exhaustive = False   # the random part is sampled; the statement has no depth bound
    if ctx.has_violation():
        return
    if ctx.thorough:
        ctx.shards(_random_shard, list(range(16)))
    else:
        hyp_run(ctx, _history_strategy(40), run_case, 2500, label="random")
