"""C07 — DeferredQueue: each object delivered once, in put order, within size/backlog bounds.

A history is a list of operations interpreted against the real DeferredQueue
and, in lockstep, against a reference FIFO (list of queued values + list of
pending get ids).  Values are consecutive integers in put order.

Operations (plain lists):
  ["put"] / ["put", kind]  put the next object (numbered in put order).  kind (default: the
                         case's "vk", default "int") says what sort of object carries the number:
                         "int" | "deferred" (an unfired Deferred object, e.g. a job handle)
                         | "fired" (an already fired Deferred) | "failure" (a Failure instance)
                         | "exc" (an exception instance).  Objects are recognised by identity;
                         "delivered" = the get's Deferred fires with that very object as its
                         result (for a Failure object that is necessarily the errback side).
  ["get", mode]          mode "plain" | "rget" (its callback issues one more plain get,
                         re-entrantly: the consumer-loop idiom) | "rput" (its callback
                         puts the next integer re-entrantly)
  ["cancel", j]          cancel the Deferred of get j (pending, or already fired = no-op)
  ["pcancel", j]         the same while the owner has paused that Deferred: pause(); cancel(); unpause()
  ["cancel*", cls, k]    selector form for the random generator: k-th (mod n) get of
                         class cls in pending|any
Gets are numbered in creation order (a get refused with QueueUnderflow creates none).
After the history the queue is drained with plain gets so that every accepted
value's fate is observed from outside.
"""
from hypothesis import strategies as st

from lib.core import hyp_run, enumerate_run, guarded, KnownFindingSkip, PropertyViolation

META = dict(
    property="C07",
    level="exploration",
    technique="lockstep reference FIFO over op-list histories: breadth-first exploration of all enabled-op histories with hashing of the observed queue state for all size/backlog in {None,0,1,2}, plus Hypothesis random long histories",
    level_text="For each of the 16 (size, backlog) combinations every transition out of every distinct reachable state (number of queued objects, kinds of the waiting gets, read from the real object) is executed up to the depth in coverage.exhaustive_scopes and compared event by event with the model (accepted/overflow, created/underflow, which get received which value, in which order); each history ends with a drain so that 'exactly once' is decided on observed deliveries. Random histories of up to 60 operations with limits up to 5 go deeper. Not a proof; exhaustive only up to the depth and under the state abstraction.",
    level_note="Reference model written from the class docstring and the statement, trusted. State abstraction: future behaviour depends only on len(pending), the kinds of the waiting gets and the two limits. Re-entrant operations are limited to one get or one put from inside a get callback.",
    design_ref="§5 C07",
    rule="case = (size, backlog, op list). non-trivial = a pending get is cancelled and a later put happens in the same history; distinct by (size, backlog, resolved op list).",
)

GET_MODES = ("plain", "rget", "rput")
VALUE_KINDS = ("int", "deferred", "fired", "failure", "exc")


class QueuedFault(Exception):
    """Payload of the "failure" / "exc" object kinds (never raised)."""
MODE_CODE = {"plain": "p", "rget": "g", "rput": "u"}


# ---------------------------------------------------------------------------
# reference model

class Model:
    def __init__(self, size, backlog):
        self.size, self.backlog = size, backlog
        self.pending = []        # queued values
        self.waiting = []        # pending get ids, oldest first
        self.gets = []           # dict(mode, state=pending|fired|cancelled)
        self.nextv = 0
        self.events = []
        self.results = {}

    def put(self):
        v = self.nextv
        self.nextv += 1
        # acceptance is logged when put() returns, i.e. after whatever the
        # delivery triggered re-entrantly
        if self.waiting:
            self._deliver(self.waiting.pop(0), v)
            self.events.append(("put", v, "ok"))
        elif self.size is None or len(self.pending) < self.size:
            self.pending.append(v)
            self.events.append(("put", v, "ok"))
        else:
            self.events.append(("put", v, "overflow"))

    def get(self, mode):
        if self.pending:
            g = self._new(mode)
            self._deliver(g, self.pending.pop(0))
        elif self.backlog is None or len(self.waiting) < self.backlog:
            g = self._new(mode)
            self.waiting.append(g)
        else:
            self.events.append(("get", None, "underflow"))

    def _new(self, mode):
        self.gets.append(dict(mode=mode, state="pending"))
        g = len(self.gets) - 1
        self.events.append(("get", g, "created"))
        return g

    def _deliver(self, g, v):
        it = self.gets[g]
        it["state"] = "fired"
        self.results[g] = ("ok", v)
        self.events.append(("deliver", g, v))
        if it["mode"] == "rget":
            self.get("plain")
        elif it["mode"] == "rput":
            self.put()

    def cancel(self, g):
        if g in self.waiting:
            self.waiting.remove(g)
            self.gets[g]["state"] = "cancelled"
            self.results[g] = ("fail", "CancelledError")
            self.events.append(("cancelled", g))
            return True
        return False

    def enabled(self):
        ops = [["put"]] + [["get", m] for m in GET_MODES]
        ops += [["cancel", g] for g in self.waiting]
        return ops


# ---------------------------------------------------------------------------
# the real queue, observed from outside

class World:
    def __init__(self, size, backlog, vk="int"):
        from twisted.internet import defer
        from twisted.python.failure import Failure
        self.defer = defer
        self.Failure = Failure
        self.vk = vk
        self.objs = []
        self.q = defer.DeferredQueue(size, backlog)
        self.gets = []
        self.nextv = 0
        self.events = []
        self.results = {}
        self.problems = []

    def _make(self, kind, v):
        if kind == "int":
            return v
        if kind == "deferred":
            return self.defer.Deferred()
        if kind == "fired":
            return self.defer.succeed(("payload", v))
        if kind == "failure":
            return self.Failure(QueuedFault(v))
        if kind == "exc":
            return QueuedFault(v)
        raise AssertionError(kind)

    def _ident(self, obj):
        for v, o in enumerate(self.objs):
            if o is obj:
                return v
        return None

    def put(self, kind=None):
        v = self.nextv
        self.nextv += 1
        obj = self._make(kind or self.vk, v)
        self.objs.append(obj)
        try:
            self.q.put(obj)
        except self.defer.QueueOverflow:
            self.events.append(("put", v, "overflow"))
            return
        self.events.append(("put", v, "ok"))

    def get(self, mode):
        try:
            d = self.q.get()
        except self.defer.QueueUnderflow:
            self.events.append(("get", None, "underflow"))
            return
        g = len(self.gets)
        self.gets.append(dict(d=d, mode=mode))
        self.events.append(("get", g, "created"))
        d.addCallbacks(self._value, self._failed, callbackArgs=(g, mode), errbackArgs=(g,))

    def _value(self, obj, g, mode):
        if g in self.results:
            self.problems.append(("get-fired-twice", f"get {g}"))
        v = self._ident(obj)
        if v is None:
            self.problems.append(("get-received-something-that-was-not-put",
                                  f"get {g} fired with {obj!r}, which is none of the objects put"))
            v = ("unknown", repr(obj)[:60])
        self.results[g] = ("ok", v)
        self.events.append(("deliver", g, v))
        if mode == "rget":
            self.get("plain")
        elif mode == "rput":
            self.put()
        return None

    def _failed(self, f, g):
        if self._ident(f) is not None:
            # a Failure instance that was put: the get fired with that very object
            return self._value(f, g, self.gets[g]["mode"])
        if g in self.results:
            self.problems.append(("get-fired-twice", f"get {g}"))
        self.results[g] = ("fail", f.type.__name__)
        if f.type is self.defer.CancelledError:
            self.events.append(("cancelled", g))
        else:
            self.events.append(("failed", g, f.type.__name__))
            self.problems.append((f"get-failed:{f.type.__name__}", f.getTraceback()[-1500:]))
        return None

    def state_key(self):
        by_id = {id(it["d"]): it for it in self.gets}
        waiting = tuple(MODE_CODE[by_id[id(d)]["mode"]] if id(d) in by_id else "?" for d in self.q.waiting)
        return (len(self.q.pending), waiting)


def _classify(we, me):
    """Signature for the first differing event (real, model)."""
    if me is None:
        if we[0] == "deliver":
            return "spurious-delivery"
        return "extra-event-" + we[0]
    if we is None:
        if me[0] == "deliver":
            return "value-not-delivered-to-pending-get"
        return "missing-event-" + me[0]
    if me[0] == "put" and we[0] == "put" and me[1] == we[1]:
        return "put-overflow-missing" if me[2] == "overflow" else "put-overflow-spurious"
    if me[0] == "get" and we[0] == "get":
        if me[2] == "underflow":
            return "get-underflow-missing"
        if we[2] == "underflow":
            return "get-underflow-spurious"
    if me[0] == "deliver" and we[0] == "deliver":
        if me[2] == we[2]:
            return "delivered-to-wrong-get"
        if me[1] == we[1]:
            return "delivered-out-of-put-order"
        return "delivery-mismatch"
    if me[0] == "deliver":
        return "value-not-delivered-to-pending-get"
    if we[0] == "deliver":
        return "spurious-delivery"
    return f"event-mismatch-{we[0]}-vs-{me[0]}"


def _compare(ctx, case, w, m, where):
    if w.problems:
        sig, detail = w.problems[0]
        ctx.violation(sig, case, f"{where}: {detail}")
    if w.events != m.events:
        n = min(len(w.events), len(m.events))
        k = next((i for i in range(n) if w.events[i] != m.events[i]), n)
        we = w.events[k] if k < len(w.events) else None
        me = m.events[k] if k < len(m.events) else None
        cancelled = {e[1] for e in m.events if e[0] == "cancelled"}
        if we is not None and we[0] == "deliver" and we[1] in cancelled:
            sig = "cancelled-get-received-value"
        else:
            sig = _classify(we, me)
        ctx.violation(sig, case, f"{where}: event #{k}: real {we}, model {me}; real tail {w.events[max(0, k - 2):k + 3]} model tail {m.events[max(0, k - 2):k + 3]}")
    if w.results != m.results:
        ctx.violation("get-result-mismatch", case, f"{where}: real {w.results} model {m.results}")


def _resolve(m, op):
    if op[0] == "pcancel*":
        r = _resolve(m, ["cancel*"] + list(op[1:]))
        return ["pcancel", r[1]] if r else None
    if op[0] == "cancel*":
        el = list(m.waiting) if op[1] == "pending" else list(range(len(m.gets)))
        return ["cancel", el[op[2] % len(el)]] if el else None
    return list(op)


def execute(ctx, case):
    size, backlog = case["size"], case["backlog"]
    vk = case.get("vk", "int")
    w = World(size, backlog, vk)
    m = Model(size, backlog)
    resolved = []
    flags = set()
    cancelled_pending = False
    for step, op0 in enumerate(case["ops"]):
        op = _resolve(m, op0)
        if op is None or (op[0] in ("cancel", "pcancel") and not (isinstance(op[1], int) and 0 <= op[1] < len(m.gets))):
            ctx.count("op skipped (no such get)")
            continue
        resolved.append(op)
        name = op[0]
        if name == "put":
            if m.waiting:
                flags.add("put delivered to a pending get")
                if len(m.waiting) >= 2:
                    flags.add("put with >= 2 pending gets")
                if cancelled_pending:
                    flags.add("NT")
            elif m.size is not None and len(m.pending) >= m.size:
                flags.add("put overflow")
                if cancelled_pending:
                    flags.add("NT")
            else:
                flags.add("put queued")
                if m.size is not None and len(m.pending) == m.size - 1:
                    flags.add("put fills the queue exactly")
                if cancelled_pending:
                    flags.add("NT")
            kind = op[1] if len(op) > 1 else vk
            if kind != "int":
                flags.add(f"object kind {kind}: " + ("handed to a pending get" if m.waiting else
                                                     "refused (overflow)" if m.size is not None and len(m.pending) >= m.size
                                                     else "queued"))
            m.put()
            w.put(kind)
        elif name == "get":
            if m.pending:
                flags.add("get served from queue")
                k0 = w.objs[m.pending[0]]
                if not isinstance(k0, int):
                    flags.add("get dequeues a non-int object (" + ("Deferred" if isinstance(k0, w.defer.Deferred) else type(k0).__name__) + ")")
            elif m.backlog is not None and len(m.waiting) >= m.backlog:
                flags.add("get underflow")
            else:
                flags.add("get pends")
                if m.backlog is not None and len(m.waiting) == m.backlog - 1:
                    flags.add("get fills the backlog exactly")
            if op[1] != "plain":
                flags.add("re-entrant " + op[1])
            m.get(op[1])
            w.get(op[1])
        elif name in ("cancel", "pcancel"):
            g = op[1]
            if name == "pcancel":
                # round 4 (C07-7): the get's Deferred is paused by its owner while it is cancelled
                flags.add("cancel of a paused get Deferred (pause, cancel, unpause)")
            if m.cancel(g):
                cancelled_pending = True
                flags.add("cancel pending get")
                if m.waiting:
                    flags.add("cancel pending get while others pend")
            else:
                flags.add("cancel finished get (no-op)")
            if g < len(w.gets):
                d = w.gets[g]["d"]
                if name == "pcancel":
                    d.pause()
                    d.cancel()
                    d.unpause()
                else:
                    d.cancel()
        _compare(ctx, case, w, m, f"after step {step} {op}")
    return w, m, resolved, flags


def _drain(ctx, case, w, m):
    """Closure: pull everything still queued; then every accepted value must
    have been delivered exactly once."""
    n = 0
    while m.pending and n < 1000:
        n += 1
        m.get("plain")
        w.get("plain")
        _compare(ctx, case, w, m, f"drain get #{n}")
    accepted = [e[1] for e in w.events if e[0] == "put" and e[2] == "ok"]
    delivered = [e[2] for e in w.events if e[0] == "deliver"]
    if len(set(delivered)) != len(delivered):
        ctx.violation("value-delivered-twice", case, f"deliveries {delivered}")
    if sorted(delivered) != sorted(accepted):
        ctx.violation("value-lost", case, f"accepted {accepted}, delivered {delivered}")
    if delivered != sorted(delivered):
        ctx.violation("delivered-out-of-put-order", case, f"deliveries {delivered}")


def run_case(ctx, case):
    w, m, resolved, flags = execute(ctx, case)
    # "a pending get was cancelled earlier" is part of the state so that the
    # exploration continues behind cancellations (they lead back to states
    # that look the same from outside)
    key = w.state_key() + (any(g["state"] == "cancelled" for g in m.gets),)
    enabled = m.enabled()
    _drain(ctx, case, w, m)
    for f in flags:
        if f != "NT":
            ctx.count(f)
    if "NT" in flags:
        ctx.count("nontrivial (cancel of a pending get, then a put)")
        ctx.nontrivial((case["size"], case["backlog"], case.get("vk", "int"), resolved))
        if len(resolved) <= 10:
            ctx.sample(dict(size=case["size"], backlog=case["backlog"], vk=case.get("vk", "int"), ops=resolved))
    return key, enabled


# ---------------------------------------------------------------------------
# exhaustive exploration with state hashing

def _bfs(ctx, arg):
    size, backlog, depth = arg
    out = {}

    def body(c, case):
        out["key"], out["enabled"] = run_case(c, case)

    def step(case):
        ctx.case()
        out.clear()
        try:
            guarded(ctx, body, case)
        except KnownFindingSkip:
            return False
        return True

    seen = set()
    if not step(dict(size=size, backlog=backlog, ops=[])):
        return
    seen.add(out["key"])
    frontier = [([], out["enabled"])]
    transitions = 0
    for d in range(depth):
        nxt = []
        for ops, enabled in frontier:
            for op in enabled:
                case = dict(size=size, backlog=backlog, ops=ops + [op])
                transitions += 1
                if not step(case):
                    continue
                k = out["key"]
                if k not in seen:
                    seen.add(k)
                    nxt.append((case["ops"], out["enabled"]))
        frontier = nxt
    ctx.count("exhaustive: transitions executed", transitions)
    ctx.count("exhaustive: distinct states", len(seen))
    ctx.extra[f"transitions size={size} backlog={backlog} depth={depth}"] = transitions


def _leaves(size, backlog, depth, vk="int"):
    """Every history of exactly `depth` enabled operations (no state merging);
    enabled operations come from the model alone."""
    def rec(ops):
        if len(ops) == depth:
            yield dict(size=size, backlog=backlog, vk=vk, ops=[list(o) for o in ops])
            return
        m = Model(size, backlog)
        for o in ops:
            if o[0] == "put":
                m.put()
            elif o[0] == "get":
                m.get(o[1])
            else:
                m.cancel(o[1])
        for o in m.enabled():
            yield from rec(ops + [o])
    return rec([])


def _full(ctx, arg):
    size, backlog, depth, vk = arg
    n0 = ctx.evaluations
    enumerate_run(ctx, _leaves(size, backlog, depth, vk), run_case)
    ctx.count("complete enumeration: histories", ctx.evaluations - n0)


def _job(ctx, job):
    (_bfs if job[0] == "bfs" else _full)(ctx, job[1])


# ---------------------------------------------------------------------------
# random long histories

def _history_strategy(max_ops):
    idx = st.integers(0, 7)
    op = st.one_of(
        st.just(["put"]),
        st.just(["put"]),
        st.tuples(st.just("put"), st.sampled_from(VALUE_KINDS)).map(list),
        st.tuples(st.just("get"), st.sampled_from(GET_MODES)).map(list),
        st.just(["get", "plain"]),
        st.tuples(st.just("cancel*"), st.sampled_from(["pending", "pending", "any"]), idx).map(list),
        st.tuples(st.just("pcancel*"), st.sampled_from(["pending", "pending", "any"]), idx).map(list),
    )
    lim = st.sampled_from([None, 0, 1, 2, 3, 5])
    return st.builds(dict, size=lim, backlog=lim, vk=st.sampled_from(VALUE_KINDS + ("int", "int")),
                     ops=st.lists(op, min_size=1, max_size=max_ops))


def _random_shard(sub, i):
    hyp_run(sub, _history_strategy(60), run_case, 4000, label=f"shard{i}")


def run(ctx):
    lims = [None, 0, 1, 2]
    # (1) complete enumeration, no state merging: every history of exactly D enabled ops
    full_depth = ctx.pick(5, 6)
    full = [(s, b, full_depth, "int") for s in lims for b in lims]
    # the same, one operation shorter, for every other kind of queued object
    full += [(s, b, full_depth - 1, vk) for vk in VALUE_KINDS[1:] for s in lims for b in lims]
    # (2) breadth-first with state hashing, deeper
    depth_unbounded = ctx.pick(6, 9)    # backlog None: waiting list grows, 3^k kinds
    depth_bounded = ctx.pick(10, 14)     # bounded backlog: small state space
    configs = [(s, b, depth_unbounded if b is None else depth_bounded) for s in lims for b in lims]
    ctx.extra["exhaustive_scopes"] = dict(
        complete_histories=dict(limits="size, backlog in {None,0,1,2}", length=full_depth,
                                other_object_kinds=dict(kinds=list(VALUE_KINDS[1:]), length=full_depth - 1)),
        hashed_bfs=[dict(size=s, backlog=b, depth=d) for s, b, d in configs])
    if ctx.thorough:
        jobs = [("bfs", c) for c in configs] + [("full", c) for c in full]
        jobs.sort(key=lambda j: j[1][1] is not None)     # the big (backlog=None) ones first
        ctx.shards(_job, jobs)
    else:
        try:
            for c in full:
                _full(ctx, c)
                if ctx.has_violation():
                    break
            for c in configs:
                if ctx.has_violation():
                    break
                _bfs(ctx, c)
        except PropertyViolation:
            pass
    ctx.exhaustive = False   # random part is sampled; the statement has no depth bound
    if ctx.has_violation():
        return
    if ctx.thorough:
        ctx.shards(_random_shard, list(range(16)))
    else:
        hyp_run(ctx, _history_strategy(40), run_case, 2500, label="random")
