"""C08 — ReactorBase timed calls: once, on time, in time order; getDelayedCalls; timeout.

A ReactorBase subclass whose clock is a harness variable executes a generated
history (callLater / cancel / reset / delay / advance / iterate / timeout,
with actions nested inside running calls, and "burst" fragments that cancel
>50 queued calls to force queue compaction).  A reference model keeps, for
every call, its exact scheduled time (integer ticks of 1/16 s, so the floats
of the real code are exact), its state and the iteration that created it.
"""
import signal

from hypothesis import strategies as st

from lib.core import hyp_run, enumerate_run

META = dict(
    property="C08",
    level="exploration",
    technique="model-based history testing (Hypothesis op lists + complete short histories) of ReactorBase's timer heap on a harness-owned clock, against an exact reference timer model",
    level_text="Random histories of up to 200 operations (plus bursts of 52-90 calls, most of them cancelled, to trigger compaction) and every history of length <= 4 (quick) / <= 5 (thorough) over a 33-letter alphabet with at most 3 top-level calls are executed on a real ReactorBase with stub I/O; every run of a call, every getDelayedCalls()/getTime()/timeout() observation is compared with the model. Exploration, not proof: long histories are sampled.",
    level_note="Times are multiples of 1/16 s (dyadic, exact in floats). The reactor is ReactorBase with installWaker/doIteration stubbed and seconds() overridden; the clock moves only where the history says (between iterations, and occasionally inside a running call). Equal-time ordering is not asserted. Calls may raise an Exception or a non-Exception BaseException, with DelayedCall.debug off or on (the two failure-handler paths of runUntilCurrent); an exception that escapes iterate() is not itself a violation, a due call left behind by it is. timeout() is only bounded from above (cancelled, not yet compacted entries may shorten it). A CPU-time watchdog (5 s of user time for one case, which normally needs milliseconds) turns a livelock into a violation.",
    design_ref="§5 C08",
    rule="case = list of operations; ops inside calls are part of the call's description. Non-trivial = the history contains a reset-to-sooner or a negative delay applied to a call that already sits in the heap, and at least one iteration that runs >= 2 calls; distinct by the full operation list.",
)

TICK = 0.0625  # 1/16 s


class _Planned(Exception):
    """Raised on purpose by a generated call ('raises' flag)."""


class _PlannedBase(BaseException):
    """Raised on purpose by a generated call: a BaseException that is not an
    Exception (the class of KeyboardInterrupt / SystemExit / GeneratorExit)."""


class _Hang(BaseException):
    pass


class _Stop(BaseException):
    """Unwinds out of a running call after a divergence was stashed."""


_RCLS = []


def _make_reactor():
    if _RCLS:
        return _RCLS[0]()
    from twisted.internet.base import ReactorBase

    class OwnedReactor(ReactorBase):
        def __init__(self):
            self.now_ticks = 0
            ReactorBase.__init__(self)

        def installWaker(self):
            pass

        def doIteration(self, delay):
            pass

        def removeAll(self):
            return []

        def seconds(self):
            return self.now_ticks * TICK

    _RCLS.append(OwnedReactor)
    return OwnedReactor()


class _MC:
    __slots__ = ("cid", "T", "state", "created_iter", "nested", "raises", "inserted", "runs", "dc")


_HANG = [False]


def _on_vtalrm(signum, frame):
    _HANG[0] = True
    raise _Hang()


class _Run:
    def __init__(self, ctx, case):
        self.ctx = ctx
        self.case = case
        self.R = _make_reactor()
        self.calls = []
        self.by_id = {}
        self.iter_no = 0
        self.in_iter = False
        self.iter_start = 0
        self.ran_in_iter = 0
        self.last = None
        self.stash = None          # (sig, detail) or exception raised in harness code inside a call
        # counters
        self.f_sooner_in_heap = False
        self.f_multi = False
        self.f_nested = False
        self.f_compaction = False
        self.f_incall_adv = False
        self.f_dead_op = False
        self.f_requeue = False
        self.f_escaped = False
        self.f_raise = False
        self.f_raise_base = False
        self.escaped = None

    # ---- divergence plumbing -------------------------------------------
    def bad(self, sig, detail):
        """Report a divergence; inside a running call the exception would be
        swallowed by the reactor's failure handler, so stash and unwind."""
        if self.in_iter:
            if self.stash is None:
                self.stash = (sig, detail)
            raise _Stop()
        self.ctx.violation(sig, self.case, detail)

    def flush_stash(self):
        s = self.stash
        if s is not None:
            self.stash = None
            if isinstance(s, BaseException):
                raise s
            self.ctx.violation(s[0], self.case, s[1])

    # ---- reference resolution -------------------------------------------
    def resolve(self, ref):
        kind, i = ref
        if kind == "l":
            # the call most recently created or targeted (clusters operations on one call)
            return self.last
        if kind == "p":
            pend = [c for c in self.calls if c.state == "pending"]
            if not pend:
                return None
            return pend[i % len(pend)]
        if not self.calls:
            return None
        return self.calls[i % len(self.calls)]

    @property
    def now(self):
        return self.R.now_ticks

    # ---- operations (real + model in lock step) -------------------------
    def do_call(self, d, raises, nested):
        c = _MC()
        c.cid = len(self.calls)
        c.T = self.now + d
        c.state = "pending"
        c.created_iter = self.iter_no if self.in_iter else None
        c.nested = nested
        c.raises = raises
        c.inserted = False
        c.runs = 0
        self.calls.append(c)
        self.last = c
        c.dc = self.R.callLater(d * TICK, self.fire, c.cid)
        self.by_id[id(c.dc)] = c
        if c.dc.getTime() != c.T * TICK:
            self.bad("calllater-gettime", f"call {c.cid}: getTime {c.dc.getTime()} want {c.T * TICK}")

    def _dead(self, c, what, fn, *a):
        from twisted.internet import error
        self.f_dead_op = True
        try:
            fn(*a)
        except error.AlreadyCalled:
            got = "called"
        except error.AlreadyCancelled:
            got = "cancelled"
        else:
            got = "accepted"
        if got != c.state:
            self.bad(f"{what}-on-{c.state}-call-{got}",
                     f"{what} on call {c.cid} which is {c.state}: {got}")

    def do_cancel(self, ref):
        c = self.resolve(ref)
        if c is None:
            return
        self.last = c
        if c.state != "pending":
            return self._dead(c, "cancel", c.dc.cancel)
        c.dc.cancel()
        c.state = "cancelled"
        if c.dc.active():
            self.bad("active-after-cancel", f"call {c.cid}")

    def do_reset(self, ref, d):
        c = self.resolve(ref)
        if c is None:
            return
        self.last = c
        if c.state != "pending":
            return self._dead(c, "reset", c.dc.reset, d * TICK)
        newT = self.now + d
        if newT < c.T and c.inserted:
            self.f_sooner_in_heap = True
            self.ctx.count("reset-sooner on heap member")
        c.dc.reset(d * TICK)
        c.T = newT
        self.after_move(c, "reset")

    def do_delay(self, ref, d):
        c = self.resolve(ref)
        if c is None:
            return
        self.last = c
        if c.state != "pending":
            return self._dead(c, "delay", c.dc.delay, d * TICK)
        if d < 0 and c.inserted:
            self.f_sooner_in_heap = True
            self.ctx.count("negative delay on heap member")
        c.dc.delay(d * TICK)
        c.T += d
        self.after_move(c, "delay")

    def after_move(self, c, what):
        if c.dc.getTime() != c.T * TICK:
            self.bad(f"{what}-gettime", f"call {c.cid}: getTime {c.dc.getTime()} want {c.T * TICK}")

    def do_adv(self, d):
        if self.in_iter:
            self.f_incall_adv = True
        self.R.now_ticks += d

    def mark_inserted(self):
        for c in self.calls:
            if c.state == "pending":
                c.inserted = True

    def do_timeout(self):
        t = self.R.timeout()
        self.mark_inserted()
        pend = [c.T for c in self.calls if c.state == "pending"]
        if pend:
            bound = max(0, min(pend) - self.now) * TICK
            if t is None:
                self.bad("timeout-none-with-pending", f"earliest pending at {min(pend) * TICK}, now {self.now * TICK}")
            if t > bound:
                self.bad("timeout-too-long", f"timeout {t} > {bound} (earliest pending {min(pend) * TICK}, now {self.now * TICK})")
            if t < 0:
                self.bad("timeout-negative", f"{t}")
        else:
            if t is not None and t < 0:
                self.bad("timeout-negative", f"{t}")

    def check_gdc(self, where):
        got = self.R.getDelayedCalls()
        ids = []
        for dc in got:
            c = self.by_id.get(id(dc))
            if c is None:
                self.bad("gdc-foreign-object", f"{where}: {dc!r}")
            ids.append(c.cid)
        want = [c.cid for c in self.calls if c.state == "pending"]
        if len(set(ids)) != len(ids):
            self.bad("gdc-duplicate", f"{where}: {sorted(ids)}")
        if set(ids) != set(want):
            extra = sorted(set(ids) - set(want))
            missing = sorted(set(want) - set(ids))
            if missing:
                self.bad("gdc-missing-pending", f"{where}: missing {missing} extra {extra}")
            states = sorted({self.calls[i].state for i in extra})
            self.bad("gdc-lists-" + "+".join(states), f"{where}: extra {extra}")
        for c in self.calls:
            if c.state == "pending":
                if c.dc.getTime() != c.T * TICK:
                    self.bad("pending-gettime", f"{where}: call {c.cid} getTime {c.dc.getTime()} want {c.T * TICK}")
                if not c.dc.active():
                    self.bad("pending-not-active", f"{where}: call {c.cid}")

    def do_iter(self, adv, tq):
        self.R.now_ticks += adv
        self.iter_no += 1
        self.iter_start = self.now
        self.ran_in_iter = 0
        self.mark_inserted()
        R = self.R
        cbefore = R._cancellations          # counters only
        self.in_iter = True
        try:
            R.iterate()
        except (_Hang, _Stop):
            pass
        except (_Planned, _PlannedBase) as e:
            # what a call raises must not end the iteration for the other
            # calls; the checks below say whether a due call was left behind
            self.f_escaped = True
            self.ctx.count("iteration aborted by an exception from a call")
            self.escaped = repr(e)
        finally:
            self.in_iter = False
        self.flush_stash()
        if _HANG[0]:
            self.ctx.violation("iteration-livelock", self.case,
                               f"iterate() at t={self.now * TICK}: the case used >5 s CPU without finishing")
        if cbefore > 50 and R._cancellations == 0:
            self.f_compaction = True
        if self.ran_in_iter >= 2:
            self.f_multi = True
        for c in self.calls:
            if c.state == "pending" and c.created_iter != self.iter_no and c.T <= self.iter_start:
                self.bad("due-call-not-run" if self.escaped is None else "due-call-not-run-after-call-raised",
                         f"call {c.cid} scheduled for {c.T * TICK} still pending after the iteration that started at {self.iter_start * TICK}"
                         + (f"; the iteration was aborted by {self.escaped} raised from a call" if self.escaped else ""))
        self.escaped = None
        self.check_gdc("after iteration")
        if tq:
            self.do_timeout()

    def do_burst(self, n, d0, step, keep_mod, insert):
        first = len(self.calls)
        for i in range(n):
            self.do_call(d0 + (i * step) % 64, 0, [])
        if insert:
            self.do_timeout()
        for i in range(n):
            if i % keep_mod != 0:
                self.do_cancel(["a", first + i])

    # ---- a call runs -----------------------------------------------------
    def fire(self, cid):
        if self.stash is not None:
            return
        try:
            self._fire(cid)
        except (_Planned, _PlannedBase):
            raise
        except _Stop:
            return
        except _Hang:
            raise
        except BaseException as e:  # harness error or violation raised inside a call: carry it out
            if self.stash is None:
                self.stash = e
            return

    def _fire(self, cid):
        c = self.calls[cid]
        c.runs += 1
        if not self.in_iter:
            self.stash = ("ran-outside-iteration", f"call {cid}")
            raise _Stop()
        if c.state == "called":
            self.bad("ran-twice", f"call {cid} ran again in iteration {self.iter_no}")
        if c.state == "cancelled":
            self.bad("ran-after-cancel", f"call {cid}")
        if c.created_iter == self.iter_no:
            self.bad("ran-in-creating-iteration", f"call {cid} created and run in iteration {self.iter_no}")
        if c.T > self.iter_start:
            self.bad("ran-early", f"call {cid} scheduled for {c.T * TICK} ran in the iteration that started at {self.iter_start * TICK}")
        for o in self.calls:
            if o.state == "pending" and o is not c and o.created_iter != self.iter_no and o.T < c.T:
                self.bad("ran-out-of-order",
                         f"call {cid} (t={c.T * TICK}) started while call {o.cid} (t={o.T * TICK}) was pending")
        c.state = "called"
        self.ran_in_iter += 1
        if c.dc.active():
            self.bad("active-while-running", f"call {cid}")
        for a in c.nested:
            self.f_nested = True
            self.step(a)
        if c.raises == 1:
            self.f_raise = True
            raise _Planned()
        if c.raises == 2:
            self.f_raise_base = True
            raise _PlannedBase()

    # ---- interpreter -----------------------------------------------------
    def step(self, op):
        k = op[0]
        if k == "call":
            self.do_call(op[1], op[2], op[3])
        elif k == "cancel":
            self.do_cancel(op[1])
        elif k == "reset":
            self.do_reset(op[1], op[2])
        elif k == "delay":
            self.do_delay(op[1], op[2])
        elif k == "adv":
            self.do_adv(op[1])
        elif k == "gdc":
            self.check_gdc("inside call")
        elif k == "iter":
            if self.in_iter:
                raise AssertionError("nested iter")
            self.do_iter(op[1], op[2])
        elif k == "timeout":
            if self.in_iter:
                raise AssertionError("nested timeout")
            self.do_timeout()
        elif k == "burst":
            self.do_burst(op[1], op[2], op[3], op[4], op[5])
        else:
            raise AssertionError(f"unknown op {op!r}")

    def close(self):
        """Run everything that is still pending; then exactly-once accounting."""
        rounds = 0
        while True:
            pend = [c.T for c in self.calls if c.state == "pending"]
            if not pend:
                break
            rounds += 1
            if rounds > 12:
                raise AssertionError("closing did not converge (generator depth bound broken)")
            self.do_iter(max(0, max(pend) - self.now), rounds % 2)
        for c in self.calls:
            want = 1 if c.state == "called" else 0
            if c.runs != want:
                self.bad("run-count", f"call {c.cid} state {c.state} ran {c.runs} times")
        if self.R.getDelayedCalls():
            self.bad("gdc-lists-called", "after closing")
        self.do_timeout()


def run_case(ctx, case):
    # CPU-time watchdog: a case needs milliseconds; 5 s of user time means the
    # timer queue is spinning (the handler re-fires every second because the
    # reactor's failure handler may swallow the first exception).
    if signal.getsignal(signal.SIGVTALRM) is not _on_vtalrm:
        signal.signal(signal.SIGVTALRM, _on_vtalrm)
    _HANG[0] = False
    signal.setitimer(signal.ITIMER_VIRTUAL, 5.0, 1.0)
    from twisted.internet.base import DelayedCall
    old_debug = DelayedCall.debug
    # DelayedCall.debug (documented class attribute) records the creator's
    # stack and makes runUntilCurrent use a different failure handler
    DelayedCall.debug = bool(case.get("debug", 0))
    try:
        r = _Run(ctx, case)
        for op in case["ops"]:
            r.step(op)
            r.flush_stash()
            if op[0] not in ("iter",):
                r.check_gdc("after " + op[0])
        r.close()
    finally:
        DelayedCall.debug = old_debug
        signal.setitimer(signal.ITIMER_VIRTUAL, 0)
    # bookkeeping
    ctx.count("calls created", len(r.calls))
    ctx.count("calls cancelled", sum(1 for c in r.calls if c.state == "cancelled"))
    ctx.count("iterations", r.iter_no)
    for flag, label in ((r.f_multi, "history: iteration running >=2 calls"),
                        (r.f_sooner_in_heap, "history: sooner-move of heap member"),
                        (r.f_nested, "history: nested action executed"),
                        (r.f_compaction, "history: queue compaction happened"),
                        (r.f_incall_adv, "history: clock moved inside a call"),
                        (r.f_dead_op, "history: op on finished call"),
                        (r.f_raise, "history: a call raised an Exception"),
                        (r.f_raise_base, "history: a call raised a non-Exception BaseException"),
                        (r.f_raise_base and case.get("debug", 0), "history: BaseException raised with DelayedCall.debug on"),
                        (bool(case.get("debug", 0)), "history: DelayedCall.debug on")):
        if flag:
            ctx.count(label)
    if r.f_multi and r.f_sooner_in_heap:
        ctx.nontrivial((case["ops"], case.get("debug", 0)))
        ctx.count("nontrivial")
        if len(ctx.samples) < 5 and len(case["ops"]) <= 12:
            ctx.sample(case)


# --------------------------------------------------------------------------
# generators

# Random histories are decoded from fixed-width byte strings (one 16-byte
# word per operation, mixed-radix digits).  Structured Hypothesis strategies
# for these nested operations cost ~40 ms of generation per history, thirty
# times the cost of executing it; a word is one draw, shrinks towards the
# all-zero word (= the plainest callLater) and list shrinking still deletes
# whole operations.  The decoded case is the plain op list.

_DT = (0, 0, 1, 8, 16, 16, 32, 48, 2, 4, 24, 40, 64, 80, 96, 3)          # delays >= 0 (ticks)
_DA = (-16, 16, -1, 1, -8, 8, -32, 32, -64, -48, -4, 4, 0, 48, 64, -24)  # delay() arguments
_IA = (0, 16, 1, 8, 16, 32, 2, 4, 0, 16, 24, 48, 64, 3, 80, 1)           # advance before an iteration
_REFK = "ppplllaa"
_RAISE = (0, 0, 0, 0, 0, 0, 2, 1)     # 1: raises an Exception, 2: raises a non-Exception BaseException
_KINDS = ("call", "call", "call", "call", "call", "cancel", "reset", "reset",
          "delay", "delay", "adv", "iter", "iter", "iter", "timeout", "call")


class _Digits:
    __slots__ = ("x",)

    def __init__(self, x):
        self.x = x

    def take(self, n):
        v = self.x % n
        self.x //= n
        return v


def _dec_ref(D):
    k = _REFK[D.take(8)]
    i = D.take(64)
    return [k, 0 if k == "l" else i]


def _dec_nested(D, depth):
    n = (0, 1, 2, 0, 1, 2, 0, 1)[D.take(8)]
    out = []
    for _ in range(n):
        k = D.take(8)
        if k == 0:
            out.append(["cancel", _dec_ref(D)])
        elif k in (1, 2):
            out.append(["reset", _dec_ref(D), _DT[D.take(16)]])
        elif k in (3, 4):
            out.append(["delay", _dec_ref(D), _DA[D.take(16)]])
        elif k == 5:
            out.append(["gdc"])
        elif k == 6:
            out.append(["adv", (1, 8, 16, 1)[D.take(4)]])
        else:
            d = _DT[D.take(16)]
            if depth > 0:
                out.append(["call", d, _RAISE[D.take(8)], _dec_nested(D, depth - 1)])
            else:
                out.append(["call", d, 0, []])
    return out


def _dec_op(word):
    D = _Digits(int.from_bytes(word, "little"))
    k = _KINDS[D.take(16)]
    if k == "call":
        return ["call", _DT[D.take(16)], _RAISE[D.take(8)], _dec_nested(D, 1)]
    if k == "cancel":
        return ["cancel", _dec_ref(D)]
    if k == "reset":
        return ["reset", _dec_ref(D), _DT[D.take(16)]]
    if k == "delay":
        return ["delay", _dec_ref(D), _DA[D.take(16)]]
    if k == "adv":
        return ["adv", _DT[D.take(16)]]
    if k == "iter":
        return ["iter", _IA[D.take(16)], D.take(2)]
    return ["timeout"]


def _strategies():
    word = st.binary(min_size=16, max_size=16)

    # Hypothesis lists average ~6 elements unless min_size pushes them up:
    # mix short, medium and long histories
    def hist(maxn):
        return st.one_of(st.lists(word, min_size=1, max_size=maxn),
                         st.lists(word, min_size=15, max_size=maxn),
                         st.lists(word, min_size=50, max_size=maxn))

    dbg = st.sampled_from([0, 0, 0, 1])
    plain = st.builds(lambda ws, g: dict(ops=[_dec_op(w) for w in ws], debug=g), hist(200), dbg)

    burst = st.tuples(st.just("burst"), st.integers(52, 90), st.integers(0, 64),
                      st.sampled_from([0, 1, 3, 7, 16]), st.sampled_from([2, 3, 5, 97]),
                      st.sampled_from([0, 1, 1])).map(list)

    # at most 3 bursts per history keeps a case at <= ~600 calls (the oracle
    # is quadratic in the number of calls)
    def merge(ws, bursts):
        ops = [_dec_op(w) for w in ws]
        for pos, b in sorted(bursts, key=lambda pb: -pb[0]):
            ops.insert(pos % (len(ops) + 1), b)
        return dict(ops=ops, debug=0)

    bursty = st.builds(merge, hist(120),
                       st.lists(st.tuples(st.integers(0, 120), burst), min_size=1, max_size=3))
    return plain, bursty


# complete short histories -------------------------------------------------

U = 16  # one second in ticks

_NESTS = [
    [],
    [["call", 0, 0, []]],
    [["cancel", ["a", 0]]],
    [["reset", ["a", 0], 0]],
    [["delay", ["a", 1], -2 * U]],
    [["reset", ["a", 1], U]],
]


def _alphabet():
    """(op, needs) — needs = number of top-level calls that must exist; 'new' = creates one."""
    A = []
    for d in (0, U):
        for n in _NESTS:
            A.append((["call", d, 0, n], "new"))
    A.append((["call", 2 * U, 0, []], "new"))
    for i in range(3):
        A.append((["cancel", ["a", i]], i + 1))
        for d in (0, 2 * U):
            A.append((["reset", ["a", i], d], i + 1))
        for d in (-U, U):
            A.append((["delay", ["a", i], d], i + 1))
    A.append((["iter", 0, 0], 0))
    A.append((["iter", U, 0], 0))
    A.append((["iter", U, 1], 0))
    A.append((["iter", 2 * U, 0], 0))
    A.append((["timeout"], 1))
    return A


def _short_histories(first_index, length):
    """All valid histories of exactly `length` ops that start with alphabet
    letter `first_index` (must be a call)."""
    A = _alphabet()

    def rec(prefix, ncalls, left):
        if left == 0:
            yield dict(ops=list(prefix))
            return
        for op, need in A:
            if need == "new":
                if ncalls >= 3:
                    continue
                prefix.append(op)
                yield from rec(prefix, ncalls + 1, left - 1)
                prefix.pop()
            else:
                if ncalls < need:
                    continue
                prefix.append(op)
                yield from rec(prefix, ncalls, left - 1)
                prefix.pop()

    op, need = A[first_index]
    if need != "new":
        return
    yield from rec([op], 1, length - 1)


def _enum_shard(ctx, arg):
    first, length = arg
    enumerate_run(ctx, _short_histories(first, length), run_case)


def _raising_histories(maxlen, debug, first=None):
    """Second small scope: the alphabet plus calls that raise (an Exception /
    a non-Exception BaseException), with DelayedCall.debug off or on.  With
    debug off only the histories that contain a raising call are new."""
    import itertools
    A = _alphabet()
    extra = [(["call", 0, 1, []], "new"), (["call", 0, 2, []], "new"), (["call", U, 2, []], "new"),
             (["call", 0, 2, [["call", 0, 0, []]]], "new")]
    A2 = A + extra
    firsts = [x for x in A2 if x[1] == "new"]
    if first is not None:
        firsts = firsts[first:first + 1]
    for n in range(1, maxlen + 1):
        for seq in itertools.product(firsts, *([A2] * (n - 1))):
            ncalls = 0
            ok = True
            raising = False
            for op, need in seq:
                if need == "new":
                    ncalls += 1
                    raising = raising or op[2] != 0
                    if ncalls > 3:
                        ok = False
                        break
                elif ncalls < need:
                    ok = False
                    break
            if ok and (raising or debug):
                yield dict(ops=[op for op, _ in seq], debug=debug)


def _raise_shard(ctx, arg):
    maxlen, debug, first = arg
    enumerate_run(ctx, _raising_histories(maxlen, debug, first), run_case)


def _hyp_shard(ctx, i):
    plain, bursty = _strategies()
    hyp_run(ctx, plain, run_case, 8000, label=f"plain-shard{i}")
    if ctx.has_violation():
        return
    hyp_run(ctx, bursty, run_case, 2500, label=f"bursty-shard{i}")


def run(ctx):
    A = _alphabet()
    firsts = [i for i, (op, need) in enumerate(A) if need == "new"]
    maxlen = ctx.pick(4, 5)
    args = [(f, L) for L in range(1, maxlen + 1) for f in firsts]
    args.sort(key=lambda a: -a[1])
    if ctx.thorough:
        ctx.shards(_enum_shard, args)
    else:
        # quick: single core (about 0.2 M cases of ~50-100 us each)
        for a in args:
            _enum_shard(ctx, a)
            if ctx.has_violation():
                break
    if not ctx.has_violation():
        rl = ctx.pick(3, 4)
        if ctx.thorough:
            ctx.shards(_raise_shard, [(rl, g, f) for g in (0, 1) for f in range(17)])
        else:
            for a in ((rl, 1, None), (rl, 0, None)):
                _raise_shard(ctx, a)
                if ctx.has_violation():
                    break
    ctx.extra["exhaustive_scope"] = (f"every history of length 1..{maxlen} over {len(A)} letters "
                                     f"(at most 3 top-level calls, first op a call); plus every history of length "
                                     f"1..{ctx.pick(3, 4)} over those letters and 4 raising-call letters with "
                                     f"DelayedCall.debug on, and those containing a raising call with debug off")
    ctx.exhaustive = False  # the property quantifies over longer histories too
    if ctx.has_violation():
        return
    plain, bursty = _strategies()
    if ctx.thorough:
        ctx.shards(_hyp_shard, list(range(16)))
        return
    hyp_run(ctx, plain, run_case, 2000, label="plain")
    if ctx.has_violation():
        return
    hyp_run(ctx, bursty, run_case, 600, label="bursty")
