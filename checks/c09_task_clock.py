"""C09 — task.Clock: scheduled calls run exactly once, in time order, inside the right advance.

A generated history (callLater / cancel / reset / delay / advance, with actions
nested inside running calls) is executed on a real task.Clock and on a
reference model that keeps, for every call, its exact scheduled time (integer
ticks of 1/16 s), its state and whether it was ever rescheduled.
"""
from hypothesis import strategies as st

from lib.core import hyp_run, enumerate_run

META = dict(
    property="C09",
    level="exploration",
    technique="model-based history testing (Hypothesis op lists + complete short histories) of task.Clock against an exact reference timer model with run-within-advance semantics",
    level_text="Random histories of up to 200 operations and every history of length <= 4 (quick) / <= 5 (thorough) over a 34-letter alphabet with at most 3 top-level calls are executed on a real task.Clock; every run of a call and every getDelayedCalls()/getTime()/seconds() observation is compared with the model. Exploration, not proof: long histories are sampled.",
    level_note="Times are multiples of 1/16 s (dyadic, exact in floats). callLater/reset arguments and advances are >= 0, delay() may be negative. Calls do not raise (outside the statement). A running call may itself call advance() (re-entrancy): whenever any advance() returns, nothing due may be left pending. The plain 'nondecreasing sequence of scheduled times' is asserted only on histories without a negative delay(); with one, 'no strictly earlier pending call when a call starts' is asserted instead (a negative delay legitimately schedules into the past). The order of getDelayedCalls() is not asserted.",
    design_ref="§5 C09",
    rule="case = list of operations; ops inside calls are part of the call's description. Non-trivial = the history reschedules (reset/delay) at least one pending call and contains an advance that runs >= 2 calls; distinct by the full operation list.",
)

TICK = 0.0625  # 1/16 s


class _MC:
    __slots__ = ("cid", "T", "state", "nested", "moved", "runs", "dc", "born_in", "after_nadv")


class _Run:
    def __init__(self, ctx, case):
        from twisted.internet.task import Clock
        self.ctx = ctx
        self.case = case
        self.K = Clock()
        self.now = 0
        self.calls = []
        self.by_id = {}
        self.adv_no = 0
        self.last = None
        self.in_adv = 0              # depth of advance() calls in progress
        self.ran_in_adv = 0
        self.cb_advanced = False     # the running callback has already moved the clock itself
        self.f_nested_adv = False
        self.f_nadv_due = False
        self.last_run_T = None
        self.neg_delay = False
        self.f_multi = False
        self.f_moved = False
        self.f_nested = False
        self.f_same_adv = False
        self.f_tie = False
        self.f_dead_op = False
        self.f_past = False

    def bad(self, sig, detail):
        self.ctx.violation(sig, self.case, detail)

    def resolve(self, ref):
        kind, i = ref
        if kind == "l":
            # the call most recently created or targeted (clusters operations on one call)
            return self.last
        if kind == "p":
            pend = [c for c in self.calls if c.state == "pending"]
            if not pend:
                return None
            return pend[i % len(pend)]
        if not self.calls:
            return None
        return self.calls[i % len(self.calls)]

    # ---- operations ------------------------------------------------------
    def do_call(self, d, nested):
        c = _MC()
        c.cid = len(self.calls)
        c.T = self.now + d
        c.state = "pending"
        c.nested = nested
        c.moved = False
        c.runs = 0
        c.born_in = self.adv_no if self.in_adv else None
        c.after_nadv = self.cb_advanced and c.T <= self.now
        self.calls.append(c)
        self.last = c
        c.dc = self.K.callLater(d * TICK, self.fire, c.cid)
        self.by_id[id(c.dc)] = c
        if c.dc.getTime() != c.T * TICK:
            self.bad("calllater-gettime", f"call {c.cid}: getTime {c.dc.getTime()} want {c.T * TICK}")

    def _dead(self, c, what, fn, *a):
        from twisted.internet import error
        self.f_dead_op = True
        try:
            fn(*a)
        except error.AlreadyCalled:
            got = "called"
        except error.AlreadyCancelled:
            got = "cancelled"
        else:
            got = "accepted"
        if got != c.state:
            self.bad(f"{what}-on-{c.state}-call-{got}", f"{what} on call {c.cid} which is {c.state}: {got}")

    def do_cancel(self, ref):
        c = self.resolve(ref)
        if c is None:
            return
        self.last = c
        if c.state != "pending":
            return self._dead(c, "cancel", c.dc.cancel)
        c.dc.cancel()
        c.state = "cancelled"
        if c.dc.active():
            self.bad("active-after-cancel", f"call {c.cid}")

    def do_reset(self, ref, d):
        c = self.resolve(ref)
        if c is None:
            return
        self.last = c
        if c.state != "pending":
            return self._dead(c, "reset", c.dc.reset, d * TICK)
        c.dc.reset(d * TICK)
        c.T = self.now + d
        c.moved = True
        self.f_moved = True
        if self.cb_advanced and c.T <= self.now:
            c.after_nadv = True
        self.after_move(c, "reset")

    def do_delay(self, ref, d):
        c = self.resolve(ref)
        if c is None:
            return
        self.last = c
        if c.state != "pending":
            return self._dead(c, "delay", c.dc.delay, d * TICK)
        c.dc.delay(d * TICK)
        c.T += d
        c.moved = True
        self.f_moved = True
        if d < 0:
            self.neg_delay = True
            if c.T < self.now:
                self.f_past = True
        self.after_move(c, "delay")

    def after_move(self, c, what):
        if c.dc.getTime() != c.T * TICK:
            self.bad(f"{what}-gettime", f"call {c.cid}: getTime {c.dc.getTime()} want {c.T * TICK}")

    def check_gdc(self, where):
        got = self.K.getDelayedCalls()
        ids = []
        for dc in got:
            c = self.by_id.get(id(dc))
            if c is None:
                self.bad("gdc-foreign-object", f"{where}: {dc!r}")
            ids.append(c.cid)
        want = [c.cid for c in self.calls if c.state == "pending"]
        if len(set(ids)) != len(ids):
            self.bad("gdc-duplicate", f"{where}: {sorted(ids)}")
        if set(ids) != set(want):
            extra = sorted(set(ids) - set(want))
            missing = sorted(set(want) - set(ids))
            if missing:
                self.bad("gdc-missing-pending", f"{where}: missing {missing} extra {extra}")
            states = sorted({self.calls[i].state for i in extra})
            self.bad("gdc-lists-" + "+".join(states), f"{where}: extra {extra}")
        for c in self.calls:
            if c.state == "pending":
                if c.dc.getTime() != c.T * TICK:
                    self.bad("pending-gettime", f"{where}: call {c.cid} getTime {c.dc.getTime()} want {c.T * TICK}")
                if not c.dc.active():
                    self.bad("pending-not-active", f"{where}: call {c.cid}")
        if self.K.seconds() != self.now * TICK:
            self.bad("clock-seconds", f"{where}: seconds() {self.K.seconds()} want {self.now * TICK}")

    def do_adv(self, d):
        # may be re-entrant: a running call may itself advance the clock
        if self.in_adv:
            self.f_nested_adv = True
            self.cb_advanced = True
        self.adv_no += 1
        self.now += d
        outer_ran = self.ran_in_adv
        self.ran_in_adv = 0
        self.in_adv += 1
        try:
            self.K.advance(d * TICK)
        finally:
            self.in_adv -= 1
        if self.ran_in_adv >= 2:
            self.f_multi = True
        self.ran_in_adv += outer_ran
        # when any advance() returns nothing that is due may be left pending
        for c in self.calls:
            if c.state == "pending" and c.T <= self.now:
                self.bad("due-call-not-run",
                         f"call {c.cid} scheduled for {c.T * TICK} still pending after advance to {self.now * TICK}")
        self.check_gdc("after advance")

    def fire(self, cid):
        c = self.calls[cid]
        c.runs += 1
        if not self.in_adv:
            self.bad("ran-outside-advance", f"call {cid}")
        if c.state == "called":
            self.bad("ran-twice", f"call {cid} ran again in advance {self.adv_no}")
        if c.state == "cancelled":
            self.bad("ran-after-cancel", f"call {cid}")
        if c.T > self.now:
            self.bad("ran-early", f"call {cid} scheduled for {c.T * TICK} ran at {self.now * TICK}")
        for o in self.calls:
            if o.state == "pending" and o is not c:
                if o.T < c.T:
                    self.bad("ran-out-of-order",
                             f"call {cid} (t={c.T * TICK}) started while call {o.cid} (t={o.T * TICK}) was pending")
                if o.T == c.T and not o.moved and not c.moved:
                    self.f_tie = True
                    if o.cid < c.cid:
                        self.bad("same-time-creation-order",
                                 f"call {cid} ran before call {o.cid}; both scheduled once for t={c.T * TICK}")
        if not self.neg_delay and self.last_run_T is not None and c.T < self.last_run_T:
            self.bad("run-times-decreasing",
                     f"call {cid} (t={c.T * TICK}) ran after a call scheduled for {self.last_run_T * TICK}; no negative delay in the history")
        self.last_run_T = c.T
        c.state = "called"
        self.ran_in_adv += 1
        if c.born_in == self.adv_no:
            self.f_same_adv = True
        if c.after_nadv:
            self.f_nadv_due = True
        if c.dc.active():
            self.bad("active-while-running", f"call {cid}")
        outer_flag = self.cb_advanced
        self.cb_advanced = False
        try:
            for a in c.nested:
                self.f_nested = True
                self.step(a)
        finally:
            self.cb_advanced = outer_flag

    def step(self, op):
        k = op[0]
        if k == "call":
            self.do_call(op[1], op[2])
        elif k == "cancel":
            self.do_cancel(op[1])
        elif k == "reset":
            self.do_reset(op[1], op[2])
        elif k == "delay":
            self.do_delay(op[1], op[2])
        elif k == "gdc":
            self.check_gdc("inside call")
        elif k == "adv":
            self.do_adv(op[1])
        else:
            raise AssertionError(f"unknown op {op!r}")

    def close(self):
        rounds = 0
        while True:
            pend = [c.T for c in self.calls if c.state == "pending"]
            if not pend:
                break
            rounds += 1
            if rounds > 12:
                raise AssertionError("closing did not converge (generator depth bound broken)")
            self.do_adv(max(0, max(pend) - self.now))
        for c in self.calls:
            want = 1 if c.state == "called" else 0
            if c.runs != want:
                self.bad("run-count", f"call {c.cid} state {c.state} ran {c.runs} times")
        if list(self.K.getDelayedCalls()):
            self.bad("gdc-lists-called", "after closing")


def run_case(ctx, case):
    r = _Run(ctx, case)
    for op in case["ops"]:
        r.step(op)
        if op[0] != "adv":
            r.check_gdc("after " + op[0])
    r.close()
    ctx.count("calls created", len(r.calls))
    ctx.count("calls cancelled", sum(1 for c in r.calls if c.state == "cancelled"))
    ctx.count("advances", r.adv_no)
    for flag, label in ((r.f_multi, "history: advance running >=2 calls"),
                        (r.f_moved, "history: pending call rescheduled"),
                        (r.f_nested, "history: nested action executed"),
                        (r.f_same_adv, "history: call created inside an advance ran in it"),
                        (r.f_tie, "history: same-time never-rescheduled pair at run time"),
                        (r.neg_delay, "history: negative delay"),
                        (r.f_past, "history: negative delay into the past"),
                        (r.f_dead_op, "history: op on finished call"),
                        (r.f_nested_adv, "history: advance() from inside a running call"),
                        (r.f_nadv_due, "history: call made due after a nested advance ran before the outer advance returned")):
        if flag:
            ctx.count(label)
    if r.f_multi and r.f_moved:
        ctx.nontrivial(case["ops"])
        ctx.count("nontrivial")
        if len(ctx.samples) < 5 and len(case["ops"]) <= 12:
            ctx.sample(case)


# --------------------------------------------------------------------------

# Random histories are decoded from fixed-width byte strings (one 16-byte
# word per operation, mixed-radix digits): a word is one Hypothesis draw
# (structured strategies for these nested ops cost ~30x more to generate than
# the history costs to execute), shrinks towards the all-zero word (= the
# plainest callLater), and list shrinking still deletes whole operations.
# The decoded case is the plain op list.

_DT = (0, 0, 1, 8, 16, 16, 32, 48, 2, 4, 24, 40, 64, 80, 96, 3)          # delays >= 0 (ticks)
_DA = (-16, 16, -1, 1, -8, 8, -32, 32, -64, -48, -4, 4, 0, 48, 64, -24)  # delay() arguments
_AA = (0, 16, 1, 8, 16, 32, 2, 4, 0, 16, 24, 48, 64, 3, 80, 1)           # advance amounts
_REFK = "ppplllaa"
_KINDS = ("call", "call", "call", "call", "call", "cancel", "reset", "reset",
          "delay", "delay", "adv", "adv", "adv", "adv", "call", "call")


class _Digits:
    __slots__ = ("x",)

    def __init__(self, x):
        self.x = x

    def take(self, n):
        v = self.x % n
        self.x //= n
        return v


def _dec_ref(D):
    k = _REFK[D.take(8)]
    i = D.take(64)
    return [k, 0 if k == "l" else i]


def _dec_delay(D, nonneg):
    v = _DA[D.take(16)]
    return abs(v) if nonneg else v


def _dec_nested(D, depth, nonneg):
    n = (0, 1, 2, 0, 1, 2, 0, 1)[D.take(8)]
    out = []
    for _ in range(n):
        k = D.take(16)
        if k < 2:
            out.append(["cancel", _dec_ref(D)])
        elif k < 5:
            out.append(["reset", _dec_ref(D), (0, 0, 1, 16)[D.take(4)] if D.take(2) else _DT[D.take(16)]])
        elif k < 8:
            out.append(["delay", _dec_ref(D), _dec_delay(D, nonneg)])
        elif k == 8:
            out.append(["gdc"])
        elif k < 11:
            out.append(["adv", (1, 8, 16, 0)[D.take(4)]])
        else:
            d = _DT[D.take(16)]
            if depth > 0:
                out.append(["call", d, _dec_nested(D, depth - 1, nonneg)])
            else:
                out.append(["call", d, []])
    return out


def _dec_op(word, nonneg):
    D = _Digits(int.from_bytes(word, "little"))
    k = _KINDS[D.take(16)]
    if k == "call":
        return ["call", _DT[D.take(16)], _dec_nested(D, 1, nonneg)]
    if k == "cancel":
        return ["cancel", _dec_ref(D)]
    if k == "reset":
        return ["reset", _dec_ref(D), _DT[D.take(16)]]
    if k == "delay":
        return ["delay", _dec_ref(D), _dec_delay(D, nonneg)]
    return ["adv", _AA[D.take(16)]]


def _strategy():
    word = st.binary(min_size=16, max_size=16)
    # Hypothesis lists average ~6 elements unless min_size pushes them up:
    # mix short, medium and long histories
    hist = st.one_of(st.lists(word, min_size=1, max_size=200),
                     st.lists(word, min_size=15, max_size=200),
                     st.lists(word, min_size=50, max_size=200))
    # second flavour: no negative delays, so that the plain nondecreasing
    # sequence assertion is exercised on long histories
    return (hist.map(lambda ws: dict(ops=[_dec_op(w, False) for w in ws])),
            hist.map(lambda ws: dict(ops=[_dec_op(w, True) for w in ws])))


U = 16

_NESTS = [
    [],
    [["call", 0, []]],
    [["cancel", ["a", 0]]],
    [["reset", ["a", 0], 0]],
    [["delay", ["a", 1], -2 * U]],
    [["reset", ["a", 1], U]],
    [["adv", U], ["call", 0, []]],
]
_NESTS0 = [
    [["adv", U], ["reset", ["a", 1], 0]],
]


def _alphabet():
    A = []
    for d in (0, U):
        for n in _NESTS + (_NESTS0 if d == 0 else []):
            A.append((["call", d, n], "new"))
    A.append((["call", 2 * U, []], "new"))
    for i in range(3):
        A.append((["cancel", ["a", i]], i + 1))
        for d in (0, 2 * U):
            A.append((["reset", ["a", i], d], i + 1))
        for d in (-U, U):
            A.append((["delay", ["a", i], d], i + 1))
    A.append((["adv", 0], 0))
    A.append((["adv", U], 0))
    A.append((["adv", 2 * U], 0))
    return A


def _short_histories(first_index, length):
    A = _alphabet()

    def rec(prefix, ncalls, left):
        if left == 0:
            yield dict(ops=list(prefix))
            return
        for op, need in A:
            if need == "new":
                if ncalls >= 3:
                    continue
                prefix.append(op)
                yield from rec(prefix, ncalls + 1, left - 1)
                prefix.pop()
            else:
                if ncalls < need:
                    continue
                prefix.append(op)
                yield from rec(prefix, ncalls, left - 1)
                prefix.pop()

    op, need = A[first_index]
    if need != "new":
        return
    yield from rec([op], 1, length - 1)


def _enum_shard(ctx, arg):
    first, length = arg
    enumerate_run(ctx, _short_histories(first, length), run_case)


def _hyp_shard(ctx, i):
    anyd, pos = _strategy()
    hyp_run(ctx, anyd, run_case, 8000, label=f"any-shard{i}")
    if ctx.has_violation():
        return
    hyp_run(ctx, pos, run_case, 4000, label=f"nonneg-shard{i}")


def run(ctx):
    A = _alphabet()
    firsts = [i for i, (op, need) in enumerate(A) if need == "new"]
    maxlen = ctx.pick(4, 5)
    args = [(f, L) for L in range(1, maxlen + 1) for f in firsts]
    args.sort(key=lambda a: -a[1])
    if ctx.thorough:
        ctx.shards(_enum_shard, args)
    else:
        # quick: single core (about 0.2 M cases of ~50-100 us each)
        for a in args:
            _enum_shard(ctx, a)
            if ctx.has_violation():
                break
    ctx.extra["exhaustive_scope"] = (f"every history of length 1..{maxlen} over {len(A)} letters "
                                     f"(at most 3 top-level calls, first op a call)")
    ctx.exhaustive = False
    if ctx.has_violation():
        return
    if ctx.thorough:
        ctx.shards(_hyp_shard, list(range(16)))
        return
    anyd, pos = _strategy()
    hyp_run(ctx, anyd, run_case, 1600, label="any")
    if ctx.has_violation():
        return
    hyp_run(ctx, pos, run_case, 800, label="nonneg")
