"""C10 — LoopingCall: cadence on start + k*interval, no overlap, skip counts, start() Deferred.

One to three LoopingCalls (plain or withCount) share a controlled clock the harness
owns: a task.Clock or a ReactorBase whose seconds() is a harness variable.  A
generated scenario fixes the interval, `now`, the behaviour of every call of
the function (return / raise / fired or failed Deferred / Deferred fired after
a latency / Deferred fired by a later operation; optionally stop() or reset()
from inside the function) and a sequence of operations (advances of many
shapes, stop, reset, fire).  An exact integer model (ticks of 1/16 s) predicts
when the next call is scheduled after every completion, the running sum of the
counts, and what the Deferred returned by start() must have done.
"""
from hypothesis import strategies as st

from lib.core import hyp_run, enumerate_run

META = dict(
    property="C10",
    level="exploration",
    technique="model-based scenario testing (Hypothesis scenarios + complete short scenarios) of LoopingCall on a harness-owned task.Clock against an exact integer boundary model",
    level_text="Random scenarios (1-3 LoopingCalls, plain or withCount, sharing one controlled clock that is either a task.Clock or a ReactorBase with owned seconds(); intervals 1..64 ticks of 1/16 s, per-call behaviours, unrelated timers on the same clock, up to 60 operations, optionally one churn of 52-64 reset+tick rounds) and three complete small scopes (one loop: 2 intervals x now x withCount x 25 behaviour pairs x all op sequences of length <= 3 quick / <= 5 thorough over 7 letters; two loops on either clock kind: all sequences <= 3 / <= 4 over 8 letters; three loops with one churned, then all advance sequences <= 2 / <= 3) are executed on the real LoopingCall; every invocation, every rescheduling observed through the clock's getDelayedCalls(), every count and each start() Deferred are compared with a per-loop model. Exploration, not proof.",
    level_note="The clocks are the real task.Clock and the real ReactorBase timer queue (their own behaviour is C09/C08): a loop whose call is lost, delayed or unscheduled by the clock or by another loop's stop()/reset() violates its own cadence and is reported on that loop. Times are multiples of 1/16 s so float arithmetic in _scheduleFrom/_intervalOf is exact. interval 0 and restarting a stopped loop are outside the statement and not generated. Counts are checked call by call: the count must equal the number of grid boundaries in (previous invocation, now]; across a reset() with a call pending (which re-anchors the grid at the reset time, per its docstring) the part before the reset may be read as old-grid boundaries crossed or as whole intervals elapsed, both accepted, nothing else. A reset() while the function's Deferred is outstanding is not defined by the statement or the docs (the current code ignores it; re-anchoring at the reset time is an equally coherent reading of 'reset the timer'): either base is accepted, but all later calls must stay on the ONE grid the implementation chose, and only the first count after a re-anchoring/ambiguous in-flight reset is left unconstrained. stop()/reset() are only issued while the model says the loop is running (otherwise LoopingCall asserts).",
    design_ref="§5 C10",
    rule="case = (clock kind, t0, loops[(interval, now, withCount, behaviours)], operations). Non-trivial = at least one advance that spans >= 2 intervals while the loop is running and at least one call completed through a Deferred fired later; distinct by the whole case.",
)

TICK = 0.0625


class _Planned(Exception):
    pass


class _Loop:
    """Model + instrumented function of ONE LoopingCall; the clock, the time
    and the harness timers belong to the _World and may be shared with other
    loops and with unrelated timers."""

    def __init__(self, W, idx, spec):
        self.W = W
        self.idx = idx
        self.ctx = W.ctx
        self.case = W.case
        self.I = spec["interval"]
        self.now_flag = bool(spec["now"])
        self.with_count = bool(spec["count"])
        self.beh = spec["beh"]
        # model
        self.start = None
        self.bases = []
        self.running = False
        self.inflight = False        # function's Deferred outstanding
        self.in_f = False
        self.in_start = False
        self.cands = None            # set of acceptable scheduled times, None = nothing scheduled
        # count accounting (withCount), per invocation:
        self.cnt_prev = None         # time of the previous invocation (start() time before the first one)
        self.cnt_mark = None         # lower end of the current grid segment since cnt_prev
        self.cnt_carry = 0           # grid boundaries crossed between cnt_prev and the last reset, grid by grid
        self.cnt_resets = 0          # reset()s with a pending call since cnt_prev
        self.cnt_last_r = None
        self.cnt_free = False        # next count unconstrained (in-flight reset re-anchored / ambiguous)
        self.amb = False             # in-flight reset not yet resolved
        self.amb_old = ()
        self.ncalls = 0
        self.call_times = []
        self.cur = None              # behaviour record of the in-flight call
        self.manual = None           # Deferred to be fired by a "fire" op
        self.expect = None           # None | ("ok",) | ("fail", exc)
        self.done_t = 0
        self.got = []                # what the start() Deferred did
        self.f_jump = False
        self.f_deferred_done = False
        self.f_boundary_hit = False
        self.f_stop_inflight = False
        self.f_reset = False
        self.f_fail = False
        self.f_skip = False
        self.f_offgrid_reset = False
        self.f_inflight_offgrid = False
        self.f_inflight_offgrid_resolved = False
        self.f_inflight_offgrid_then_call = False

    now = property(lambda self: self.W.now)
    K = property(lambda self: self.W.K)

    def bad(self, sig, detail):
        if len(self.W.loops) > 1:
            detail = f"loop {self.idx}: {detail}"
        self.ctx.violation(sig, self.case, detail)

    def flush(self):
        self.W.flush()

    # ---- set-up ----------------------------------------------------------
    def start_loop(self):
        from twisted.internet.task import LoopingCall
        t0 = self.now
        if self.with_count:
            self.lc = LoopingCall.withCount(self.f_count)
        else:
            self.lc = LoopingCall(self.f_plain)
        self.lc.clock = self.K
        self.start = t0
        self.bases = [t0]
        self.cnt_prev = self.cnt_mark = t0
        self.running = True
        self.in_start = True
        if not self.now_flag:
            self.cands = {t0 + self.I}
        try:
            d = self.lc.start(self.I * TICK, now=self.now_flag)
        finally:
            self.in_start = False
        self.flush()
        d.addCallbacks(lambda r: self.got.append(("ok", r)), lambda f: self.got.append(("fail", f)))
        if self.now_flag and self.ncalls != 1:
            self.bad("no-immediate-call", f"start(now=True) made {self.ncalls} calls")

    # ---- the looping function -------------------------------------------
    def f_plain(self):
        return self.invoke(None)

    def f_count(self, count):
        return self.invoke(count)

    def invoke(self, count):
        try:
            return self._invoke(count)
        except _Planned:
            raise
        except BaseException as e:
            if self.W.stash is None:
                self.W.stash = e
            raise

    def _invoke(self, count):
        from twisted.internet import defer
        n = self.ncalls
        self.ncalls += 1
        t = self.now
        if self.K.seconds() != t * TICK:
            self.bad("harness-clock-mismatch", f"{self.K.seconds()} vs {t * TICK}")
        if self.in_f or self.inflight:
            self.bad("called-while-previous-unfinished", f"call {n} at {t * TICK}")
        if self.got:
            self.bad("called-after-deferred-fired", f"call {n} at {t * TICK}")
        if not self.running:
            self.bad("called-after-stop", f"call {n} at {t * TICK}")
        if n == 0 and self.now_flag:
            if not self.in_start:
                self.bad("immediate-call-late", f"first call at {t * TICK}")
        else:
            if self.in_start:
                self.bad("call-inside-start-without-now", f"call {n}")
            if self.cands is None:
                self.bad("unscheduled-call", f"call {n} at {t * TICK}")
            if min(self.cands) > t:
                self.bad("called-before-boundary", f"call {n} at {t * TICK}, boundary {sorted(self.cands)}")
            if t in self.cands:
                self.f_boundary_hit = True
        self.cands = None
        self.call_times.append(t)
        if self.f_inflight_offgrid_resolved:
            self.f_inflight_offgrid_then_call = True
        if self.with_count:
            if type(count) is not int or count < 1:
                self.bad("count-not-positive-int", f"call {n}: count={count!r}")
            if count > 1:
                self.f_skip = True
            self.check_count(n, t, count)
        elif count is not None:
            self.bad("plain-call-got-argument", repr(count))
        kind, arg, pre = self.beh[n] if n < len(self.beh) else ("ret", 0, "")
        self.in_f = True
        if pre == "stop" and self.running:
            self.lc.stop()
            self.running = False
            self.f_stop_inflight = True
        elif pre == "reset" and self.running:
            self.lc.reset()
            self.note_inflight_reset()
        if kind == "ret":
            self.complete(True, None)
            return None
        if kind == "raise":
            e = _Planned(f"call {n}")
            self.complete(False, e)
            raise e
        if kind == "succeed":
            self.complete(True, None)
            return defer.succeed(n)
        if kind == "fail":
            e = _Planned(f"call {n}")
            self.complete(False, e)
            return defer.fail(e)
        d = defer.Deferred()
        self.in_f = False
        self.inflight = True
        if kind == "hang":
            self.manual = d
        else:
            ok = kind == "defer"
            dc = self.K.callLater(arg * TICK, self.W.guard, self.timer_fire, d, ok, n)
            self.W.timers[id(dc)] = dc
        return d

    def timer_fire(self, d, ok, n):
        self.W.prune()
        self.finish_deferred(d, ok, n)

    def finish_deferred(self, d, ok, n):
        self.f_deferred_done = True
        if ok:
            self.complete(True, None)
            d.callback(None)
        else:
            e = _Planned(f"deferred of call {n}")
            self.complete(False, e)
            d.errback(e)

    def check_count(self, n, t, count):
        """'The counts passed sum to the number of boundaries elapsed', call by
        call: the count must be the number of grid boundaries in
        (previous invocation, now].  Across a reset() with a pending call the
        grid is re-anchored; what elapsed before the reset may be read as grid
        boundaries crossed (carry) or as whole intervals elapsed (xf) — both are
        accepted, nothing else."""
        I = self.I
        if n == 0 and self.now_flag:
            if count != 1:
                self.bad("count-sum", f"immediate first call got count {count}, want 1")
        elif self.cnt_free:
            self.ctx.count("withCount call unconstrained after in-flight reset")
        elif self.cnt_resets == 0:
            b = self.bases[0]
            want = (t - b) // I - (self.cnt_prev - b) // I
            if count != want:
                self.bad("count-sum",
                         f"call {n} at {t * TICK}: count {count}, but {want} boundaries of the grid "
                         f"{b * TICK} + k*{I * TICK} lie in ({self.cnt_prev * TICK}, {t * TICK}]")
        else:
            r = self.cnt_last_r
            b_new = (t - r) // I
            xf = (r - self.cnt_prev) // I
            lo = b_new + min(xf, self.cnt_carry)
            hi = b_new + max(xf, self.cnt_carry)
            self.ctx.count("withCount call after reset with pending call")
            if self.f_offgrid_reset:
                self.ctx.count("withCount call after off-grid reset with pending call")
            if not lo <= count <= hi:
                self.bad("count-after-reset",
                         f"call {n} at {t * TICK}: count {count}; previous invocation at {self.cnt_prev * TICK}, "
                         f"reset at {r * TICK} (interval {I * TICK}): {b_new} boundaries since the reset plus "
                         f"{min(xf, self.cnt_carry)}..{max(xf, self.cnt_carry)} before it")
        self.cnt_prev = self.cnt_mark = t
        self.cnt_carry = 0
        self.cnt_resets = 0
        self.cnt_free = False
        self.f_offgrid_reset = False

    def note_pending_reset(self):
        """reset() with a call pending at self.now: the grid is re-anchored here."""
        r = self.now
        b = self.bases[0]
        self.cnt_carry += (r - b) // self.I - (self.cnt_mark - b) // self.I
        if (r - b) % self.I:
            self.f_offgrid_reset = True
        self.cnt_mark = r
        self.cnt_last_r = r
        self.cnt_resets += 1

    def note_inflight_reset(self):
        self.f_reset = True
        if not self.amb:
            self.amb = True
            self.amb_old = tuple(self.bases)
        if all((self.now - b) % self.I for b in self.bases):
            self.f_inflight_offgrid = True
        if self.now not in self.bases:
            self.bases.append(self.now)

    def complete(self, ok, exc):
        """Model: the current call completes at self.now."""
        self.in_f = False
        self.inflight = False
        self.manual = None
        self.done_t = self.now
        if not ok:
            self.f_fail = True
            self.running = False
            self.expect = ("fail", exc)
            self.cands = None
        elif not self.running:
            self.expect = ("ok",)
            self.cands = None
        else:
            t = self.now
            self.cands = {b + ((t - b) // self.I + 1) * self.I for b in self.bases}

    # ---- observation -------------------------------------------------------
    def observe(self, where, mine):
        """mine = the clock's pending calls whose function is this LoopingCall."""
        if self.cands is not None:
            if len(mine) != 1:
                self.bad("not-rescheduled" if not mine else "scheduled-twice",
                         f"{where}: {len(mine)} pending loop calls, model expects one at {sorted(c * TICK for c in self.cands)}")
            got = mine[0].getTime()
            hit = [c for c in self.cands if c * TICK == got]
            if not hit:
                first = min(self.cands)
                if len(self.cands) == 1:
                    sig = "next-call-drifts" if got > first * TICK else "next-call-too-soon"
                else:
                    sig = "next-call-off-boundary"
                self.bad(sig, f"{where}: next call scheduled for {got}, boundary is {sorted(c * TICK for c in self.cands)} "
                              f"(start {[b * TICK for b in self.bases]}, interval {self.I * TICK}, now {self.now * TICK})")
            if len(self.cands) > 1:
                # a reset() while in flight: learn which base the implementation kept
                c = hit[0]
                keep = [b for b in self.bases if b + ((self.done_t - b) // self.I + 1) * self.I == c]
                if keep:
                    self.bases = keep
                self.cands = {c}
            if self.amb:
                # the in-flight reset is resolved now: either it left the grid
                # alone (then counts are fully determined) or the implementation
                # re-anchored / the two grids coincide (next count unconstrained)
                self.amb = False
                if set(self.bases) <= set(self.amb_old):
                    self.ctx.count("in-flight reset resolved: grid unchanged")
                else:
                    self.cnt_free = True
                    self.ctx.count("in-flight reset resolved: re-anchored or coinciding grids")
                if self.f_inflight_offgrid:
                    self.f_inflight_offgrid_resolved = True
            if not self.lc.running:
                self.bad("running-flag-false-while-scheduled", where)
        else:
            if mine:
                self.bad("stray-scheduled-call",
                         f"{where}: loop call pending at {[m.getTime() for m in mine]} while "
                         f"{'in flight' if self.inflight else 'stopped'}")
        if not self.running and self.lc.running:
            self.bad("running-flag-true-after-stop", where)
        want = 0 if self.expect is None else 1
        if len(self.got) != want:
            self.bad("deferred-fired-%d-times-want-%d" % (len(self.got), want), f"{where}: {self.got!r}")
        if self.got:
            kind, val = self.got[0]
            if kind != self.expect[0]:
                self.bad(f"deferred-{kind}-want-{self.expect[0]}", f"{where}: {val!r}")
            if kind == "ok" and val is not self.lc:
                self.bad("deferred-result-not-loopingcall", f"{where}: {val!r}")
            if kind == "fail" and val.value is not self.expect[1]:
                self.bad("deferred-wrong-failure", f"{where}: {val!r}")

    # ---- operations on this loop --------------------------------------------
    def same_instant_as_other_timer(self):
        if self.cands is None:
            return False
        mine_t = {c * TICK for c in self.cands}
        for dc in self.K.getDelayedCalls():
            if getattr(dc, "func", None) is not self.lc and dc.getTime() in mine_t:
                return True
        return False

    def op_stop(self, closing=False):
        if not self.running:
            return
        scheduled = self.cands is not None
        if scheduled and self.same_instant_as_other_timer():
            self.W.f_coincide = True
        self.lc.stop()
        self.flush()
        self.running = False
        if scheduled:
            self.cands = None
            self.expect = ("ok",)
        elif not closing:
            self.f_stop_inflight = True

    def op_reset(self):
        if not self.running:
            return
        if self.cands is not None:
            if self.same_instant_as_other_timer():
                self.W.f_coincide = True
            self.lc.reset()
            self.flush()
            self.f_reset = True
            self.note_pending_reset()
            self.bases = [self.now]
            self.cands = {self.now + self.I}
        else:
            self.lc.reset()
            self.flush()
            self.note_inflight_reset()

    def op_fire(self, ok):
        if self.manual is None:
            return
        d = self.manual
        self.finish_deferred(d, ok, self.ncalls - 1)
        self.flush()


_RCLS = []


def _make_reactor():
    """ReactorBase with stub I/O whose seconds() is a harness variable (the
    other 'controlled clock' a LoopingCall meets in practice)."""
    if not _RCLS:
        from twisted.internet.base import ReactorBase

        class OwnedReactor(ReactorBase):
            def __init__(self):
                self.now_ticks = 0
                ReactorBase.__init__(self)

            def installWaker(self):
                pass

            def doIteration(self, delay):
                pass

            def removeAll(self):
                return []

            def seconds(self):
                return self.now_ticks * TICK

        _RCLS.append(OwnedReactor)
    return _RCLS[0]()


class _World:
    def __init__(self, ctx, case):
        self.ctx = ctx
        self.case = case
        self.now = 0
        self.timers = {}             # id(dc) -> dc: harness latency timers and bystander timers
        self.stash = None
        self.backend = case.get("clock", "clock")
        specs = case.get("loops")
        if specs is None:            # single-loop case format (older corpus/replay files)
            specs = [dict(interval=case["interval"], now=case["now"], count=case["count"], beh=case["beh"])]
        self.loops = [_Loop(self, i, sp) for i, sp in enumerate(specs)]
        self.f_coincide = False
        self.f_bystander = False
        self.f_churn = False
        self.f_compaction = False

    def bad(self, sig, detail):
        self.ctx.violation(sig, self.case, detail)

    def flush(self):
        """Re-raise what was raised inside a looping function or a harness
        timer (maybeDeferred / the reactor's failure handler swallow it)."""
        e = self.stash
        if e is not None:
            self.stash = None
            raise e

    def guard(self, fn, *a):
        try:
            fn(*a)
        except BaseException as e:
            if self.stash is None:
                self.stash = e

    def prune(self):
        self.timers = {k: v for k, v in self.timers.items() if v.active()}

    def begin(self):
        t0 = self.case["t0"]
        if self.backend == "reactor":
            self.K = _make_reactor()
            self.K.now_ticks = t0
        else:
            from twisted.internet.task import Clock
            self.K = Clock()
            self.K.advance(t0 * TICK)
        self.now = t0
        for lp in self.loops:
            lp.start_loop()
            self.observe(f"after start of loop {lp.idx}")

    def observe(self, where):
        buckets = {id(lp.lc): [] for lp in self.loops if hasattr(lp, "lc")}
        for dc in self.K.getDelayedCalls():
            if id(dc) in self.timers:
                continue
            b = buckets.get(id(getattr(dc, "func", None)))
            if b is None:
                self.bad("stray-scheduled-call",
                         f"{where}: the clock lists a call for {dc.getTime()} that belongs to no running loop "
                         f"(active={dc.active()})")
            b.append(dc)
        for lp in self.loops:
            if hasattr(lp, "lc"):
                lp.observe(where, buckets[id(lp.lc)])

    def do_adv(self, d):
        for lp in self.loops:
            if lp.running and d >= 2 * lp.I:
                lp.f_jump = True
        self.now += d
        if self.backend == "reactor":
            R = self.K
            R.now_ticks += d
            cb = R._cancellations            # counter only
            R.iterate()
            if cb > 50 and R._cancellations == 0:
                self.f_compaction = True
        else:
            self.K.advance(d * TICK)
        self.flush()
        for lp in self.loops:
            if lp.cands is not None and min(lp.cands) <= self.now:
                lp.bad("boundary-call-missed",
                       f"loop call due at {min(lp.cands) * TICK} did not run during the advance to {self.now * TICK}")
        self.observe("after advance")

    def by_fire(self):
        self.prune()

    def step(self, op):
        k = op[0]
        n = len(self.loops)
        if k == "adv":
            self.do_adv(op[1])
        elif k == "advb":
            # advance to the (op[1]+1)-th next boundary of a loop's current grid, plus op[2] ticks
            lp = self.loops[(op[3] if len(op) > 3 else 0) % n]
            b = lp.bases[0]
            nxt = b + ((self.now - b) // lp.I + 1) * lp.I
            self.do_adv(nxt + op[1] * lp.I + op[2] - self.now)
        elif k == "stop":
            self.loops[(op[1] if len(op) > 1 else 0) % n].op_stop()
            self.observe("after stop")
        elif k == "reset":
            self.loops[(op[1] if len(op) > 1 else 0) % n].op_reset()
            self.observe("after reset")
        elif k == "fire":
            self.loops[(op[2] if len(op) > 2 else 0) % n].op_fire(bool(op[1]))
            self.observe("after fire")
        elif k == "by":
            # an unrelated timer on the same clock
            dc = self.K.callLater(op[1] * TICK, self.guard, self.by_fire)
            self.timers[id(dc)] = dc
            self.f_bystander = True
        elif k == "byb":
            # an unrelated timer exactly on the (op[2]+1)-th next boundary of loop op[1]
            lp = self.loops[op[1] % n]
            b = lp.bases[0]
            nxt = b + ((self.now - b) // lp.I + 1 + op[2]) * lp.I
            dc = self.K.callLater((nxt - self.now) * TICK, self.guard, self.by_fire)
            self.timers[id(dc)] = dc
            self.f_bystander = True
        elif k == "churn":
            # an idle-timer pattern: reset one loop op[2] times, letting the clock
            # tick (op[3] ticks, possibly 0) after every reset
            lp = self.loops[op[1] % n]
            self.f_churn = True
            for _ in range(op[2]):
                lp.op_reset()
                self.observe("after reset")
                self.do_adv(op[3])
        else:
            raise AssertionError(f"unknown op {op!r}")

    def close(self):
        for lp in self.loops:
            if lp.manual is not None:
                lp.op_fire(True)
                self.observe("after fire")
        for lp in self.loops:
            if lp.running:
                lp.op_stop(closing=True)
                self.observe("after stop")
        rounds = 0
        while any(lp.inflight for lp in self.loops):
            rounds += 1
            if rounds > 6:
                raise AssertionError("in-flight call did not complete in closing")
            pend = [dc.getTime() for dc in self.timers.values() if dc.active()]
            if not pend:
                raise AssertionError("in flight without timer or manual deferred")
            self.do_adv(max(0, int(max(pend) / TICK) - self.now))
        for lp in self.loops:
            if lp.expect is None:
                lp.bad("deferred-never-fired", "after stop/failure and completion of the last call")
        n = [lp.ncalls for lp in self.loops]
        self.do_adv(3 * max(lp.I for lp in self.loops) + 1)
        self.do_adv(0)
        for lp, n0 in zip(self.loops, n):
            if lp.ncalls != n0:
                lp.bad("called-after-deferred-fired", f"{lp.ncalls - n0} calls after the end")
            if len(lp.got) != 1:
                lp.bad("deferred-fired-%d-times-want-1" % len(lp.got), "at the end")


def run_case(ctx, case):
    W = _World(ctx, case)
    W.begin()
    for op in case["ops"]:
        W.step(op)
    W.close()
    L = W.loops
    ctx.count("function calls", sum(lp.ncalls for lp in L))
    for flag, label in ((any(lp.f_jump for lp in L), "scenario: advance spanning >=2 intervals"),
                        (any(lp.f_deferred_done for lp in L), "scenario: completion through a later-fired Deferred"),
                        (any(lp.f_boundary_hit for lp in L), "scenario: call exactly on its boundary"),
                        (any(lp.f_stop_inflight for lp in L), "scenario: stop while call unfinished"),
                        (any(lp.f_reset for lp in L), "scenario: reset"),
                        (any(lp.f_inflight_offgrid_then_call for lp in L),
                         "scenario: off-grid reset while call unfinished, later call observed"),
                        (any(lp.f_fail for lp in L), "scenario: failure ends the loop"),
                        (any(lp.f_skip for lp in L), "scenario: count > 1 passed"),
                        (any(lp.with_count for lp in L), "scenario: withCount"),
                        (any(lp.now_flag for lp in L), "scenario: now=True"),
                        (len(L) > 1, "scenario: several loops share the clock"),
                        (W.f_bystander, "scenario: unrelated timer on the same clock"),
                        (W.f_coincide, "scenario: stop/reset while another timer is pending for the same instant"),
                        (W.backend == "reactor", "scenario: clock is a ReactorBase with owned seconds()"),
                        (W.f_churn, "scenario: churn of >50 reset+tick rounds"),
                        (W.f_compaction, "scenario: reactor timer-queue compaction happened")):
        if flag:
            ctx.count(label)
    if any(lp.f_jump for lp in L) and any(lp.f_deferred_done for lp in L):
        ctx.nontrivial(case)
        ctx.count("nontrivial")
        if len(ctx.samples) < 5 and len(case["ops"]) <= 6:
            ctx.sample(case)


# --------------------------------------------------------------------------
# random scenarios, decoded from small byte words (one draw per op/behaviour)

_BK = ("ret", "ret", "ret", "ret", "defer", "defer", "defer", "hang", "hang", "raise",
       "succeed", "fail", "deferfail", "ret", "defer", "hang")
_PRE = ("", "", "", "", "", "", "", "", "", "", "", "", "stop", "stop", "reset", "reset")


def _dec_beh(w, I):
    x = int.from_bytes(w, "little")
    kind = _BK[x % 16]
    x //= 16
    pre = _PRE[x % 16]
    x //= 16
    lat = (0, 1, I - 1, I, I + 1, 2 * I, 3 * I + 1, I // 2, 2, 5 * I, 7, 3, 1, I, 2 * I + 1, 0)[x % 16]
    return [kind, lat if kind in ("defer", "deferfail") else 0, pre]


def _dec_op(w, Is):
    """One operation from a 3-byte word; Is = the intervals of the loops."""
    x = int.from_bytes(w, "little")
    k = x % 16
    x //= 16
    a = x % 16
    x //= 16
    b = x % 16
    x //= 16
    li = (x % 4) % len(Is)
    I = Is[li]
    if k < 6:
        d = (1, I, I - 1, I + 1, 2 * I, I // 2, 3 * I + 1, 0, 2, 5 * I, 7, 3, 2 * I - 1, 9 * I + 2, I, 1)[a]
        return ["adv", d]
    if k < 10:
        return ["advb", (0, 0, 0, 1, 2, 0, 1, 4)[a % 8], (0, 0, 0, 1, 0, I - 1 if I > 1 else 0, 0, 2)[b % 8], li]
    if k == 10:
        return ["stop", li]
    if k == 11:
        return ["reset", li]
    if k == 12:
        return ["fire", 0, li]
    if k == 13:
        return ["fire", 1, li]
    if k == 14:
        if a < 10:
            return ["byb", li, (0, 0, 1, 2)[b % 4]]
        return ["by", (0, 1, I, 2 * I, 3, 7)[a - 10]]
    return ["adv", 0]


_IV = (2, 3, 4, 5, 6, 8, 16, 2, 3, 4, 1, 7, 24, 48, 12, 10)


def _strategy():
    word2 = st.binary(min_size=2, max_size=2)
    word3 = st.binary(min_size=3, max_size=3)
    loop = st.tuples(st.integers(0, 255), st.lists(word2, min_size=0, max_size=8))
    ops = st.one_of(st.lists(word3, min_size=0, max_size=60), st.lists(word3, min_size=8, max_size=60),
                    st.lists(word3, min_size=20, max_size=60))
    churn = st.tuples(st.integers(0, 60), st.integers(0, 2), st.sampled_from([52, 55, 64]),
                      st.sampled_from([0, 0, 0, 1]))

    def build(head, i0, loops, t0, opw, churns):
        nl = (1, 1, 1, 2, 2, 3, 2, 3)[head % 8]
        backend = "reactor" if (head >> 3) % 5 < 2 else "clock"
        specs = []
        for j, (lw, behw) in enumerate(loops[:nl]):
            if j == 0:
                I = i0
            elif lw % 4 == 0:
                I = specs[0]["interval"]          # in phase with loop 0
            else:
                I = _IV[(lw >> 2) % 16]
            specs.append(dict(interval=I, now=(lw >> 6) & 1, count=(lw >> 7) & 1,
                              beh=[_dec_beh(w, I) for w in behw]))
        Is = [sp["interval"] for sp in specs]
        opl = [_dec_op(w, Is) for w in opw]
        for pos, li, n, step in churns:
            opl.insert(pos % (len(opl) + 1), ["churn", li % len(Is), n, step])
        return dict(t0=t0, clock=backend, loops=specs, ops=opl)

    interval = st.one_of(st.sampled_from([1, 2, 3, 4, 5, 7, 8, 16, 16, 24, 48]), st.integers(1, 64))
    loops3 = st.tuples(loop, loop, loop).map(list)
    common = (st.integers(0, 255), interval, loops3, st.sampled_from([0, 0, 1, 5, 16, 37]), ops)
    plain = st.builds(build, *common, st.just([]))
    churny = st.builds(build, *common, st.lists(churn, min_size=1, max_size=1))
    return plain, churny


# complete small scopes ------------------------------------------------------

_B5 = (["ret", 0, ""], ["raise", 0, ""], ["defer", 3, ""], ["hang", 0, ""], ["ret", 0, "stop"])


def _letters(I):
    return (["adv", 1], ["adv", I], ["adv", 2 * I + 1], ["stop"], ["reset"], ["fire", 1], ["fire", 0])


def _small_scope(arg, maxlen):
    I, now, count = arg
    import itertools
    L = _letters(I)
    for b0 in _B5:
        for b1 in _B5:
            for n in range(maxlen + 1):
                for seq in itertools.product(L, repeat=n):
                    yield dict(interval=I, t0=1, now=now, count=count, beh=[b0, b1], ops=list(seq))


def _pair_scope(maxlen):
    """Two loops (and an optional unrelated timer on a boundary) on one clock,
    both clock kinds: every op sequence up to maxlen."""
    import itertools
    L = (["adv", 1], ["adv", 2], ["adv", 5], ["stop", 0], ["stop", 1], ["reset", 0], ["reset", 1], ["byb", 0, 0])
    for backend in ("clock", "reactor"):
        for I0, I1 in ((2, 2), (2, 3), (2, 4), (3, 3)):
            for n0, n1 in ((0, 0), (1, 1), (0, 1)):
                for cnt in (0, 1):
                    loops = [dict(interval=I0, now=n0, count=cnt, beh=[]), dict(interval=I1, now=n1, count=0, beh=[])]
                    for n in range(maxlen + 1):
                        for seq in itertools.product(L, repeat=n):
                            yield dict(t0=1, clock=backend, loops=loops, ops=list(seq))


def _churn_scope(maxlen):
    """Three loops on a reactor-backed clock; one of them is churned (52
    reset+tick rounds: enough cancelled timers for the reactor to compact its
    queue), then every advance sequence up to maxlen."""
    import itertools
    L = (["adv", 1], ["adv", 2], ["adv", 3])
    for backend in ("reactor", "clock"):
        for Is in itertools.permutations((2, 3, 5)):
            for now in (0, 1):
                for li in range(3):
                    for step in ((0, 1) if backend == "reactor" else (0,)):
                        loops = [dict(interval=I, now=now, count=0, beh=[]) for I in Is]
                        for n in range(maxlen + 1):
                            for seq in itertools.product(L, repeat=n):
                                yield dict(t0=1, clock=backend, loops=loops,
                                           ops=[["churn", li, 52, step]] + list(seq))


def _enum_shard(ctx, arg):
    if arg[0] == "pair":
        enumerate_run(ctx, _pair_scope(arg[1]), run_case)
    elif arg[0] == "churn":
        enumerate_run(ctx, _churn_scope(arg[1]), run_case)
    else:
        enumerate_run(ctx, _small_scope(arg[:3], arg[3]), run_case)


def _hyp_shard(ctx, i):
    plain, churny = _strategy()
    hyp_run(ctx, plain, run_case, 10000, label=f"shard{i}")
    if ctx.has_violation():
        return
    hyp_run(ctx, churny, run_case, 1000, label=f"churn-shard{i}")


def run(ctx):
    maxlen = ctx.pick(3, 5)
    args = [(I, now, count, maxlen) for I in (2, 3) for now in (0, 1) for count in (0, 1)]
    args += [("pair", ctx.pick(3, 4)), ("churn", ctx.pick(2, 3))]
    if ctx.thorough:
        ctx.shards(_enum_shard, args)
    else:
        for a in args:
            _enum_shard(ctx, a)
            if ctx.has_violation():
                break
    ctx.extra["exhaustive_scope"] = (f"(a) one loop: interval in {{2,3}} ticks x now x withCount x 25 behaviour pairs x "
                                     f"every op sequence of length 0..{maxlen} over 7 letters; (b) two loops sharing a "
                                     f"task.Clock / a ReactorBase clock: 4 interval pairs x 3 now pairs x withCount x every "
                                     f"sequence of length 0..{ctx.pick(3, 4)} over 8 letters (advances, stop/reset of either "
                                     f"loop, an unrelated timer on a boundary); (c) three loops (intervals 2,3,5 in every "
                                     f"order), one churned by 52 reset+tick rounds, then every advance sequence of length "
                                     f"0..{ctx.pick(2, 3)}")
    ctx.exhaustive = False
    if ctx.has_violation():
        return
    if ctx.thorough:
        ctx.shards(_hyp_shard, list(range(16)))
        return
    plain, churny = _strategy()
    hyp_run(ctx, plain, run_case, 3500, label="scenarios")
    if ctx.has_violation():
        return
    hyp_run(ctx, churny, run_case, 250, label="churn")
