"""C10 — LoopingCall: cadence on start + k*interval, no overlap, skip counts, start() Deferred.

A LoopingCall (plain or withCount) runs on a task.Clock the harness owns.  A
generated scenario fixes the interval, `now`, the behaviour of every call of
the function (return / raise / fired or failed Deferred / Deferred fired after
a latency / Deferred fired by a later operation; optionally stop() or reset()
from inside the function) and a sequence of operations (advances of many
shapes, stop, reset, fire).  An exact integer model (ticks of 1/16 s) predicts
when the next call is scheduled after every completion, the running sum of the
counts, and what the Deferred returned by start() must have done.
"""
from hypothesis import strategies as st

from lib.core import hyp_run, enumerate_run

META = dict(
    property="C10",
    level="exploration",
    technique="model-based scenario testing (Hypothesis scenarios + complete short scenarios) of LoopingCall on a harness-owned task.Clock against an exact integer boundary model",
    level_text="Random scenarios (interval 1..64 ticks of 1/16 s, start offset, now/withCount flags, per-call behaviours, up to 60 operations) and every scenario of a small scope (2 intervals x now x withCount x 25 behaviour pairs x all operation sequences of length <= 3 (quick) / <= 5 (thorough) over 7 letters) are executed on the real LoopingCall; every invocation, every rescheduling observed through Clock.getDelayedCalls(), every count and the start() Deferred are compared with the model. Exploration, not proof.",
    level_note="task.Clock is the trusted clock (its own behaviour is C09). Times are multiples of 1/16 s so float arithmetic in _scheduleFrom/_intervalOf is exact. interval 0 and restarting a stopped loop are outside the statement and not generated. Counts are checked call by call: the count must equal the number of grid boundaries in (previous invocation, now]; across a reset() with a call pending (which re-anchors the grid at the reset time, per its docstring) the part before the reset may be read as old-grid boundaries crossed or as whole intervals elapsed, both accepted, nothing else. A reset() while the function's Deferred is outstanding is not defined by the statement or the docs (the current code ignores it; re-anchoring at the reset time is an equally coherent reading of 'reset the timer'): either base is accepted, but all later calls must stay on the ONE grid the implementation chose, and only the first count after a re-anchoring/ambiguous in-flight reset is left unconstrained. stop()/reset() are only issued while the model says the loop is running (otherwise LoopingCall asserts).",
    design_ref="§5 C10",
    rule="case = (interval, t0, now, withCount, behaviours, operations). Non-trivial = at least one advance that spans >= 2 intervals while the loop is running and at least one call completed through a Deferred fired later; distinct by the whole case.",
)

TICK = 0.0625


class _Planned(Exception):
    pass


class _Run:
    def __init__(self, ctx, case):
        self.ctx = ctx
        self.case = case
        self.I = case["interval"]
        self.now_flag = bool(case["now"])
        self.with_count = bool(case["count"])
        self.beh = case["beh"]
        # model
        self.now = 0
        self.start = None
        self.bases = []
        self.running = False
        self.inflight = False        # function's Deferred outstanding
        self.in_f = False
        self.in_start = False
        self.cands = None            # set of acceptable scheduled times, None = nothing scheduled
        # count accounting (withCount), per invocation:
        self.cnt_prev = None         # time of the previous invocation (start() time before the first one)
        self.cnt_mark = None         # lower end of the current grid segment since cnt_prev
        self.cnt_carry = 0           # grid boundaries crossed between cnt_prev and the last reset, grid by grid
        self.cnt_resets = 0          # reset()s with a pending call since cnt_prev
        self.cnt_last_r = None
        self.cnt_free = False        # next count unconstrained (in-flight reset re-anchored / ambiguous)
        self.amb = False             # in-flight reset not yet resolved
        self.amb_old = ()
        self.ncalls = 0
        self.call_times = []
        self.cur = None              # behaviour record of the in-flight call
        self.manual = None           # Deferred to be fired by a "fire" op
        self.timers = {}             # id(dc) -> dc of harness latency timers
        self.expect = None           # None | ("ok",) | ("fail", exc)
        self.stash = None
        self.done_t = 0
        self.got = []                # what the start() Deferred did
        self.f_jump = False
        self.f_deferred_done = False
        self.f_boundary_hit = False
        self.f_stop_inflight = False
        self.f_reset = False
        self.f_fail = False
        self.f_skip = False
        self.f_offgrid_reset = False
        self.f_inflight_offgrid = False
        self.f_inflight_offgrid_resolved = False
        self.f_inflight_offgrid_then_call = False

    def bad(self, sig, detail):
        self.ctx.violation(sig, self.case, detail)

    def flush(self):
        """Re-raise what was raised inside the looping function (maybeDeferred
        turns every exception raised there into a Failure)."""
        e = self.stash
        if e is not None:
            self.stash = None
            raise e

    # ---- set-up ----------------------------------------------------------
    def begin(self):
        from twisted.internet.task import Clock, LoopingCall
        self.K = Clock()
        t0 = self.case["t0"]
        self.K.advance(t0 * TICK)
        self.now = t0
        if self.with_count:
            self.lc = LoopingCall.withCount(self.f_count)
        else:
            self.lc = LoopingCall(self.f_plain)
        self.lc.clock = self.K
        self.start = t0
        self.bases = [t0]
        self.cnt_prev = self.cnt_mark = t0
        self.running = True
        self.in_start = True
        if not self.now_flag:
            self.cands = {t0 + self.I}
        try:
            d = self.lc.start(self.I * TICK, now=self.now_flag)
        finally:
            self.in_start = False
        self.flush()
        d.addCallbacks(lambda r: self.got.append(("ok", r)), lambda f: self.got.append(("fail", f)))
        if self.now_flag and self.ncalls != 1:
            self.bad("no-immediate-call", f"start(now=True) made {self.ncalls} calls")
        self.observe("after start")

    # ---- the looping function -------------------------------------------
    def f_plain(self):
        return self.invoke(None)

    def f_count(self, count):
        return self.invoke(count)

    def invoke(self, count):
        try:
            return self._invoke(count)
        except _Planned:
            raise
        except BaseException as e:
            if self.stash is None:
                self.stash = e
            raise

    def _invoke(self, count):
        from twisted.internet import defer
        n = self.ncalls
        self.ncalls += 1
        t = self.now
        if self.K.seconds() != t * TICK:
            self.bad("harness-clock-mismatch", f"{self.K.seconds()} vs {t * TICK}")
        if self.in_f or self.inflight:
            self.bad("called-while-previous-unfinished", f"call {n} at {t * TICK}")
        if self.got:
            self.bad("called-after-deferred-fired", f"call {n} at {t * TICK}")
        if not self.running:
            self.bad("called-after-stop", f"call {n} at {t * TICK}")
        if n == 0 and self.now_flag:
            if not self.in_start:
                self.bad("immediate-call-late", f"first call at {t * TICK}")
        else:
            if self.in_start:
                self.bad("call-inside-start-without-now", f"call {n}")
            if self.cands is None:
                self.bad("unscheduled-call", f"call {n} at {t * TICK}")
            if min(self.cands) > t:
                self.bad("called-before-boundary", f"call {n} at {t * TICK}, boundary {sorted(self.cands)}")
            if t in self.cands:
                self.f_boundary_hit = True
        self.cands = None
        self.call_times.append(t)
        if self.f_inflight_offgrid_resolved:
            self.f_inflight_offgrid_then_call = True
        if self.with_count:
            if type(count) is not int or count < 1:
                self.bad("count-not-positive-int", f"call {n}: count={count!r}")
            if count > 1:
                self.f_skip = True
            self.check_count(n, t, count)
        elif count is not None:
            self.bad("plain-call-got-argument", repr(count))
        kind, arg, pre = self.beh[n] if n < len(self.beh) else ("ret", 0, "")
        self.in_f = True
        if pre == "stop" and self.running:
            self.lc.stop()
            self.running = False
            self.f_stop_inflight = True
        elif pre == "reset" and self.running:
            self.lc.reset()
            self.note_inflight_reset()
        if kind == "ret":
            self.complete(True, None)
            return None
        if kind == "raise":
            e = _Planned(f"call {n}")
            self.complete(False, e)
            raise e
        if kind == "succeed":
            self.complete(True, None)
            return defer.succeed(n)
        if kind == "fail":
            e = _Planned(f"call {n}")
            self.complete(False, e)
            return defer.fail(e)
        d = defer.Deferred()
        self.in_f = False
        self.inflight = True
        if kind == "hang":
            self.manual = d
        else:
            ok = kind == "defer"
            dc = self.K.callLater(arg * TICK, self.timer_fire, d, ok, n)
            self.timers[id(dc)] = dc
        return d

    def timer_fire(self, d, ok, n):
        self.timers = {k: v for k, v in self.timers.items() if v.active()}
        self.finish_deferred(d, ok, n)

    def finish_deferred(self, d, ok, n):
        self.f_deferred_done = True
        if ok:
            self.complete(True, None)
            d.callback(None)
        else:
            e = _Planned(f"deferred of call {n}")
            self.complete(False, e)
            d.errback(e)

    def check_count(self, n, t, count):
        """'The counts passed sum to the number of boundaries elapsed', call by
        call: the count must be the number of grid boundaries in
        (previous invocation, now].  Across a reset() with a pending call the
        grid is re-anchored; what elapsed before the reset may be read as grid
        boundaries crossed (carry) or as whole intervals elapsed (xf) — both are
        accepted, nothing else."""
        I = self.I
        if n == 0 and self.now_flag:
            if count != 1:
                self.bad("count-sum", f"immediate first call got count {count}, want 1")
        elif self.cnt_free:
            self.ctx.count("withCount call unconstrained after in-flight reset")
        elif self.cnt_resets == 0:
            b = self.bases[0]
            want = (t - b) // I - (self.cnt_prev - b) // I
            if count != want:
                self.bad("count-sum",
                         f"call {n} at {t * TICK}: count {count}, but {want} boundaries of the grid "
                         f"{b * TICK} + k*{I * TICK} lie in ({self.cnt_prev * TICK}, {t * TICK}]")
        else:
            r = self.cnt_last_r
            b_new = (t - r) // I
            xf = (r - self.cnt_prev) // I
            lo = b_new + min(xf, self.cnt_carry)
            hi = b_new + max(xf, self.cnt_carry)
            self.ctx.count("withCount call after reset with pending call")
            if self.f_offgrid_reset:
                self.ctx.count("withCount call after off-grid reset with pending call")
            if not lo <= count <= hi:
                self.bad("count-after-reset",
                         f"call {n} at {t * TICK}: count {count}; previous invocation at {self.cnt_prev * TICK}, "
                         f"reset at {r * TICK} (interval {I * TICK}): {b_new} boundaries since the reset plus "
                         f"{min(xf, self.cnt_carry)}..{max(xf, self.cnt_carry)} before it")
        self.cnt_prev = self.cnt_mark = t
        self.cnt_carry = 0
        self.cnt_resets = 0
        self.cnt_free = False
        self.f_offgrid_reset = False

    def note_pending_reset(self):
        """reset() with a call pending at self.now: the grid is re-anchored here."""
        r = self.now
        b = self.bases[0]
        self.cnt_carry += (r - b) // self.I - (self.cnt_mark - b) // self.I
        if (r - b) % self.I:
            self.f_offgrid_reset = True
        self.cnt_mark = r
        self.cnt_last_r = r
        self.cnt_resets += 1

    def note_inflight_reset(self):
        self.f_reset = True
        if not self.amb:
            self.amb = True
            self.amb_old = tuple(self.bases)
        if all((self.now - b) % self.I for b in self.bases):
            self.f_inflight_offgrid = True
        if self.now not in self.bases:
            self.bases.append(self.now)

    def complete(self, ok, exc):
        """Model: the current call completes at self.now."""
        self.in_f = False
        self.inflight = False
        self.manual = None
        self.done_t = self.now
        if not ok:
            self.f_fail = True
            self.running = False
            self.expect = ("fail", exc)
            self.cands = None
        elif not self.running:
            self.expect = ("ok",)
            self.cands = None
        else:
            t = self.now
            self.cands = {b + ((t - b) // self.I + 1) * self.I for b in self.bases}

    # ---- observation -------------------------------------------------------
    def observe(self, where):
        mine = [dc for dc in self.K.getDelayedCalls() if id(dc) not in self.timers]
        if self.cands is not None:
            if len(mine) != 1:
                self.bad("not-rescheduled" if not mine else "scheduled-twice",
                         f"{where}: {len(mine)} pending loop calls, model expects one at {sorted(c * TICK for c in self.cands)}")
            got = mine[0].getTime()
            hit = [c for c in self.cands if c * TICK == got]
            if not hit:
                first = min(self.cands)
                if len(self.cands) == 1:
                    sig = "next-call-drifts" if got > first * TICK else "next-call-too-soon"
                else:
                    sig = "next-call-off-boundary"
                self.bad(sig, f"{where}: next call scheduled for {got}, boundary is {sorted(c * TICK for c in self.cands)} "
                              f"(start {[b * TICK for b in self.bases]}, interval {self.I * TICK}, now {self.now * TICK})")
            if len(self.cands) > 1:
                # a reset() while in flight: learn which base the implementation kept
                c = hit[0]
                keep = [b for b in self.bases if b + ((self.done_t - b) // self.I + 1) * self.I == c]
                if keep:
                    self.bases = keep
                self.cands = {c}
            if self.amb:
                # the in-flight reset is resolved now: either it left the grid
                # alone (then counts are fully determined) or the implementation
                # re-anchored / the two grids coincide (next count unconstrained)
                self.amb = False
                if set(self.bases) <= set(self.amb_old):
                    self.ctx.count("in-flight reset resolved: grid unchanged")
                else:
                    self.cnt_free = True
                    self.ctx.count("in-flight reset resolved: re-anchored or coinciding grids")
                if self.f_inflight_offgrid:
                    self.f_inflight_offgrid_resolved = True
            if not self.lc.running:
                self.bad("running-flag-false-while-scheduled", where)
        else:
            if mine:
                self.bad("stray-scheduled-call",
                         f"{where}: loop call pending at {[m.getTime() for m in mine]} while "
                         f"{'in flight' if self.inflight else 'stopped'}")
        if not self.running and self.lc.running:
            self.bad("running-flag-true-after-stop", where)
        want = 0 if self.expect is None else 1
        if len(self.got) != want:
            self.bad("deferred-fired-%d-times-want-%d" % (len(self.got), want), f"{where}: {self.got!r}")
        if self.got:
            kind, val = self.got[0]
            if kind != self.expect[0]:
                self.bad(f"deferred-{kind}-want-{self.expect[0]}", f"{where}: {val!r}")
            if kind == "ok" and val is not self.lc:
                self.bad("deferred-result-not-loopingcall", f"{where}: {val!r}")
            if kind == "fail" and val.value is not self.expect[1]:
                self.bad("deferred-wrong-failure", f"{where}: {val!r}")

    # ---- operations ------------------------------------------------------
    def do_adv(self, d):
        if self.running and d >= 2 * self.I:
            self.f_jump = True
        self.now += d
        self.K.advance(d * TICK)
        self.flush()
        if self.cands is not None and min(self.cands) <= self.now:
            self.bad("boundary-call-missed",
                     f"loop call due at {min(self.cands) * TICK} did not run during the advance to {self.now * TICK}")
        self.observe("after advance")

    def step(self, op):
        k = op[0]
        if k == "adv":
            self.do_adv(op[1])
        elif k == "advb":
            # advance to the (op[1]+1)-th next boundary of the current base, plus op[2] ticks
            b = self.bases[0]
            nxt = b + ((self.now - b) // self.I + 1) * self.I
            self.do_adv(nxt + op[1] * self.I + op[2] - self.now)
        elif k == "stop":
            if not self.running:
                return
            scheduled = self.cands is not None
            self.lc.stop()
            self.flush()
            self.running = False
            if scheduled:
                self.cands = None
                self.expect = ("ok",)
            else:
                self.f_stop_inflight = True
            self.observe("after stop")
        elif k == "reset":
            if not self.running:
                return
            if self.cands is not None:
                self.lc.reset()
                self.f_reset = True
                self.note_pending_reset()
                self.bases = [self.now]
                self.cands = {self.now + self.I}
            else:
                self.lc.reset()
                self.note_inflight_reset()
            self.observe("after reset")
        elif k == "fire":
            if self.manual is None:
                return
            d = self.manual
            self.finish_deferred(d, bool(op[1]), self.ncalls - 1)
            self.flush()
            self.observe("after fire")
        else:
            raise AssertionError(f"unknown op {op!r}")

    def close(self):
        if self.manual is not None:
            self.step(["fire", 1])
        rounds = 0
        while self.inflight:
            rounds += 1
            if rounds > 4:
                raise AssertionError("in-flight call did not complete in closing")
            pend = [dc.getTime() for dc in self.timers.values() if dc.active()]
            if not pend:
                raise AssertionError("in flight without timer or manual deferred")
            self.do_adv(max(0, int(max(pend) / TICK) - self.now))
        if self.running:
            self.step(["stop"])
        if self.expect is None:
            self.bad("deferred-never-fired", "after stop/failure and completion of the last call")
        n = self.ncalls
        self.do_adv(3 * self.I + 1)
        self.do_adv(0)
        if self.ncalls != n:
            self.bad("called-after-deferred-fired", f"{self.ncalls - n} calls after the end")
        if len(self.got) != 1:
            self.bad("deferred-fired-%d-times-want-1" % len(self.got), "at the end")


def run_case(ctx, case):
    r = _Run(ctx, case)
    r.begin()
    for op in case["ops"]:
        r.step(op)
    r.close()
    ctx.count("function calls", r.ncalls)
    for flag, label in ((r.f_jump, "scenario: advance spanning >=2 intervals"),
                        (r.f_deferred_done, "scenario: completion through a later-fired Deferred"),
                        (r.f_boundary_hit, "scenario: call exactly on its boundary"),
                        (r.f_stop_inflight, "scenario: stop while call unfinished"),
                        (r.f_reset, "scenario: reset"),
                        (r.f_inflight_offgrid_then_call, "scenario: off-grid reset while call unfinished, later call observed"),
                        (r.f_fail, "scenario: failure ends the loop"),
                        (r.f_skip, "scenario: count > 1 passed"),
                        (r.with_count, "scenario: withCount"),
                        (r.now_flag, "scenario: now=True")):
        if flag:
            ctx.count(label)
    if r.f_jump and r.f_deferred_done:
        ctx.nontrivial(case)
        ctx.count("nontrivial")
        if len(ctx.samples) < 5 and len(case["ops"]) <= 6:
            ctx.sample(case)


# --------------------------------------------------------------------------
# random scenarios, decoded from small byte words (one draw per op/behaviour)

_BK = ("ret", "ret", "ret", "ret", "defer", "defer", "defer", "hang", "hang", "raise",
       "succeed", "fail", "deferfail", "ret", "defer", "hang")
_PRE = ("", "", "", "", "", "", "", "", "", "", "", "", "stop", "stop", "reset", "reset")


def _dec_beh(w, I):
    x = int.from_bytes(w, "little")
    kind = _BK[x % 16]
    x //= 16
    pre = _PRE[x % 16]
    x //= 16
    lat = (0, 1, I - 1, I, I + 1, 2 * I, 3 * I + 1, I // 2, 2, 5 * I, 7, 3, 1, I, 2 * I + 1, 0)[x % 16]
    return [kind, lat if kind in ("defer", "deferfail") else 0, pre]


def _dec_op(w, I):
    x = int.from_bytes(w, "little")
    k = x % 16
    x //= 16
    a = x % 16
    x //= 16
    b = x % 16
    if k < 7:
        d = (1, I, I - 1, I + 1, 2 * I, I // 2, 3 * I + 1, 0, 2, 5 * I, 7, 3, 2 * I - 1, 9 * I + 2, I, 1)[a]
        return ["adv", d]
    if k < 11:
        return ["advb", (0, 0, 0, 1, 2, 0, 1, 4)[a % 8], (0, 0, 0, 1, 0, I - 1 if I > 1 else 0, 0, 2)[b % 8]]
    if k == 11:
        return ["stop"]
    if k == 12:
        return ["reset"]
    if k == 13:
        return ["fire", 0]
    return ["fire", 1]


def _strategy():
    def build(I, t0, flags, behw, opw):
        return dict(interval=I, t0=t0, now=flags & 1, count=(flags >> 1) & 1,
                    beh=[_dec_beh(w, I) for w in behw], ops=[_dec_op(w, I) for w in opw])

    interval = st.one_of(st.sampled_from([1, 2, 3, 4, 5, 7, 8, 16, 16, 24, 48]), st.integers(1, 64))
    word = st.binary(min_size=2, max_size=2)
    ops = st.one_of(st.lists(word, min_size=0, max_size=60), st.lists(word, min_size=8, max_size=60),
                    st.lists(word, min_size=20, max_size=60))
    return st.builds(build, interval, st.sampled_from([0, 0, 1, 5, 16, 37]), st.integers(0, 3),
                     st.lists(word, min_size=0, max_size=12), ops)


# complete small scope -------------------------------------------------------

_B5 = (["ret", 0, ""], ["raise", 0, ""], ["defer", 3, ""], ["hang", 0, ""], ["ret", 0, "stop"])


def _letters(I):
    return (["adv", 1], ["adv", I], ["adv", 2 * I + 1], ["stop"], ["reset"], ["fire", 1], ["fire", 0])


def _small_scope(arg, maxlen):
    I, now, count = arg
    import itertools
    L = _letters(I)
    for b0 in _B5:
        for b1 in _B5:
            for n in range(maxlen + 1):
                for seq in itertools.product(L, repeat=n):
                    yield dict(interval=I, t0=1, now=now, count=count, beh=[b0, b1], ops=list(seq))


def _enum_shard(ctx, arg):
    enumerate_run(ctx, _small_scope(arg[:3], arg[3]), run_case)


def _hyp_shard(ctx, i):
    hyp_run(ctx, _strategy(), run_case, 12000, label=f"shard{i}")


def run(ctx):
    maxlen = ctx.pick(3, 5)
    args = [(I, now, count, maxlen) for I in (2, 3) for now in (0, 1) for count in (0, 1)]
    if ctx.thorough:
        ctx.shards(_enum_shard, args)
    else:
        for a in args:
            _enum_shard(ctx, a)
            if ctx.has_violation():
                break
    ctx.extra["exhaustive_scope"] = (f"interval in {{2,3}} ticks x now x withCount x 25 behaviour pairs x "
                                     f"every op sequence of length 0..{maxlen} over 7 letters")
    ctx.exhaustive = False
    if ctx.has_violation():
        return
    if ctx.thorough:
        ctx.shards(_hyp_shard, list(range(16)))
        return
    hyp_run(ctx, _strategy(), run_case, 4000, label="scenarios")
