"""C11 — task.Cooperator / CooperativeTask against a state model.

A case is a plain-data history: task definitions (scripts of an instrumented
iterator), and a list of operations (tick, pause, resume, stop, fire, whenDone,
add, cooperator stop/start).  Script steps and whenDone callbacks may carry
nested operations, executed *inside* next() / inside the completion callback,
which is how removal-during-iteration is reached.

The oracle is a model of the documented task states.  Everything that happens
inside twisted frames (next(), Deferred callbacks) cannot raise a violation
there (twisted would swallow it), so divergences are *flagged* and raised at
the next top-level point.
"""
import itertools
import traceback

from hypothesis import strategies as st

from lib.core import (hyp_run, enumerate_run, HarnessError, PropertyViolation,
                      KnownFindingSkip, innermost_pkg_frame, dumps)

META = dict(
    property="C11",
    level="exploration",
    technique="op-list histories (Hypothesis + complete small scope) over the real Cooperator with a list-backed scheduler and a work-unit-count termination predicate, against a task-state model",
    level_text="Random histories (<=8 tasks, <=45 operations, nested operations inside next() and inside whenDone callbacks) and all histories up to a small depth over a 2-task scope are executed on the real Cooperator with a harness-owned scheduler; every next() call, every exception of a task operation and every whenDone/coiterate result is compared with a model of the documented task states; fairness is a bounded-wait check N*(R+2).",
    level_note="Trusted: the state model in this file (written from the docstrings of task.py); Deferred itself. resume() without a matching pause() while the task waits on a Deferred is treated as API misuse and not generated. Paused/waiting tasks are not touched by Cooperator.stop() until they are re-added (mirrors the code; the docstring is silent).",
    design_ref="§5 C11",
    rule="case = (started, u, task scripts, op list); script steps yield plain values or Deferreds (plain, or instances of application-defined Deferred subclasses) of six shapes (unfired; already succeeded; already failed; fired but chained on an inner unfired Deferred; pause()d then fired with success / with failure), raise, or end. non-trivial = the executed history contains a pause, resume or stop of a task while it waits on a Deferred it yielded; distinct by the canonical JSON of the case.",
)

# --------------------------------------------------------------------------


class ScriptError(Exception):
    """Raised by scripted iterators / used to fail scripted Deferreds."""


class _Call:
    def __init__(self, f):
        self.f = f
        self.cancelled = False
        self.called = False

    def cancel(self):
        self.cancelled = True


class _Iter:
    def __init__(self, h, tid):
        self.h = h
        self.tid = tid

    def __iter__(self):
        return self

    def __next__(self):
        return self.h.on_next(self.tid)


class _M:
    """Model of one task."""

    def __init__(self, tid, d):
        self.tid = tid
        self.via = d["via"]
        self.script = d["script"]
        self.created = False
        self.pc = 0
        self.upause = 0          # user pauses outstanding
        self.dfr = None          # Deferred the task yielded whose result is not delivered yet
        self.rel = None          # (kind, inner Deferred, exception): how the harness releases it
        self.comp = None         # None | "done" | "failed" | "stopped" | "cstopped"
        self.exc = None          # exception object for "failed"
        self.late_fail = False   # awaited Deferred failed after the task had finished
        self.in_next = False
        self.self_completed = False  # completed while inside its own next()
        self.handle = None
        self.it = None
        self.watchers = []
        # fairness window
        self.others = 0
        self.R = 0
        self.peak = 0
        self.advances = 0


_KIND_EXC = None
_SUBCLASSES = []


def _deferred_class(c):
    """0: Deferred; 1: an application subclass; 2: a subclass of that one.  The
    subclasses are created on first use, i.e. after twisted.internet.task has
    been imported, as an application's own classes are."""
    from twisted.internet.defer import Deferred
    if not c:
        return Deferred
    if not _SUBCLASSES:
        import twisted.internet.task  # noqa: F401  (make the order explicit)

        class AppDeferred(Deferred):
            pass

        class AppDeferredChild(AppDeferred):
            pass
        _SUBCLASSES.extend([AppDeferred, AppDeferredChild])
    return _SUBCLASSES[(c - 1) % 2]



def _exc_types():
    global _KIND_EXC
    if _KIND_EXC is None:
        from twisted.internet import task
        _KIND_EXC = dict(done=task.TaskDone, failed=task.TaskFailed,
                         stopped=task.TaskStopped, cstopped=task.SchedulerStopped)
    return _KIND_EXC


class H:
    def __init__(self, ctx, case):
        from twisted.internet import task
        self.task = task
        self.ctx = ctx
        self.case = case
        self.u = max(1, int(case["u"]))
        self.calls = []
        self.flags = []
        self.harness_error = None
        self.m = [_M(i, d) for i, d in enumerate(case["tasks"])]
        self.started = bool(case["started"])
        self.stopped = False
        self.in_tick = False
        self.tick_units = 0
        self.cls = set()
        self.nt = False
        self.prefired = []
        self.cur = None
        self.in_cstop = 0
        self.cstop_victims = set()
        self.coop = task.Cooperator(terminationPredicateFactory=self._term_factory,
                                    scheduler=self._sched, started=self.started)

    # ---- plumbing ----------------------------------------------------------
    def _sched(self, f):
        c = _Call(f)
        self.calls.append(c)
        return c

    def _term_factory(self):
        n = [0]

        def pred():
            n[0] += 1
            return n[0] >= self.u
        return pred

    def flag(self, sig, detail=""):
        self.flags.append((sig, detail))

    def raise_flags(self):
        if self.harness_error:
            raise HarnessError(self.harness_error)
        if self.flags:
            sig, detail = self.flags[0]
            self.ctx.violation(sig, self.case, detail)

    def running(self):
        return self.started and not self.stopped

    def in_list(self, m):
        return m.created and m.comp is None and m.upause == 0 and m.dfr is None

    def runnable(self, m):
        return self.running() and self.in_list(m)

    def state_of(self, m):
        if not m.created:
            return "uncreated"
        if m.comp is not None:
            return {"done": "finished", "failed": "finished", "stopped": "stopped",
                    "cstopped": "scheduler-stopped"}[m.comp]
        if m.dfr is not None:
            return "waiting"
        if m.upause:
            return "paused"
        if not self.running():
            return "cooperator-not-running"
        return "runnable"

    # ---- fairness ----------------------------------------------------------
    def _nrun(self):
        return sum(1 for m in self.m if self.runnable(m))

    def _open_window(self, m):
        m.others = 0
        m.R = 0
        m.peak = self._nrun()

    def _set_change(self, before):
        """Call after a model change; `before` = set of runnable tids before."""
        after = {m.tid for m in self.m if self.runnable(m)}
        if after == before:
            return
        n = len(after)
        ev = len(after ^ before)
        for m in self.m:
            if m.tid in after:
                if m.tid in before:
                    m.R += ev
                    m.peak = max(m.peak, n)
                else:
                    self._open_window(m)
        if self.in_tick and self.cur is not None and any(
                t not in after and t != self.cur[0].tid for t in before):
            self.cls.add("other-task-removed-during-tick")

    def _runset(self):
        return {m.tid for m in self.m if self.runnable(m)}

    # ---- the instrumented iterator ---------------------------------------
    def on_next(self, tid):
        try:
            return self._on_next(tid)
        except (StopIteration, ScriptError):
            raise
        except BaseException:
            self.harness_error = traceback.format_exc()
            raise StopIteration

    def _on_next(self, tid):
        m = self.m[tid]
        self.tick_units += 1
        if self.flags or self.harness_error:
            raise StopIteration
        st_ = self.state_of(m)
        if not self.in_tick:
            self.flag("advanced-outside-tick", f"task {tid} advanced outside a scheduler tick")
            raise StopIteration
        if st_ != "runnable" or m.in_next:
            self.flag("advanced-while-" + ("in-next" if m.in_next else st_),
                      f"next() of task {tid} called while the model says {st_}")
            raise StopIteration
        # fairness: this unit goes to m; everyone else runnable waits
        for o in self.m:
            if o is not m and self.runnable(o):
                o.others += 1
                bound = max(o.peak, 1) * (o.R + 2)
                if o.others > bound:
                    self.flag("starved-runnable-task",
                              f"task {o.tid} stayed runnable while {o.others} units went to others "
                              f"(bound {bound}: peak {o.peak} runnable, {o.R} add/remove events)")
                    raise StopIteration
        m.advances += 1
        self._open_window(m)
        dcls = 0
        if m.pc < len(m.script):
            step = m.script[m.pc]
            kind, nested = step[0], step[1]
            dcls = step[2] if len(step) > 2 else 0
            m.pc += 1
        else:
            kind, nested = "end", []
        m.in_next = True
        self.cur = (m, kind)
        try:
            for op in nested:
                self.cls.add("nested-in-next")
                self.do_op(op, nested=True)
        finally:
            m.in_next = False
        if self.flags or self.harness_error:
            raise StopIteration
        self.cur = (m, kind)
        if m.comp is not None:
            m.self_completed = True
            self.cls.add("completed-inside-own-next")
        before = self._runset()
        try:
            if kind == "v":
                return ("value", tid, m.pc)
            if kind in ("d", "ds", "df", "dc", "dp", "dq"):
                from twisted.internet.defer import Deferred
                from twisted.python.failure import Failure
                d = _deferred_class(dcls)()
                if dcls:
                    self.cls.add("yield-instance-of-application-Deferred-subclass")
                live = m.comp is None
                if kind == "d":
                    if m.comp is None:
                        m.dfr = d
                        m.rel = ("d", None, None)
                    self.cls.add("yield-unfired-deferred")
                elif kind == "dc":
                    # fired, but its callback chain waits on an inner unfired
                    # Deferred: .called is True, the result is not delivered yet
                    inner = Deferred()
                    d.addCallback(lambda _, inner=inner: inner)
                    d.callback(None)
                    if m.comp is None:
                        m.dfr = d
                        m.rel = ("dc", inner, None)
                    else:
                        inner.callback(None)
                    self.cls.add("yield-fired-deferred-chained-on-unfired")
                elif kind in ("dp", "dq"):
                    # pause()d, then fired (dp: with success, dq: with failure)
                    d.pause()
                    e = ScriptError(f"paused deferred of task {tid} step {m.pc}")
                    if kind == "dp":
                        d.callback(None)
                    else:
                        d.errback(Failure(e))
                    if m.comp is None:
                        m.dfr = d
                        m.rel = (kind, None, e)
                    else:
                        d.addErrback(lambda f: None)
                        d.unpause()
                    self.cls.add("yield-paused-then-fired-deferred")
                elif kind == "ds":
                    d.callback(None)
                    self.cls.add("yield-fired-deferred")
                    if live and m.upause == 0:
                        # the task is removed from and re-appended to the
                        # cooperator's list: two add/remove events for the others
                        for o in self.m:
                            if o is not m and self.runnable(o):
                                o.R += 2
                elif kind == "df":
                    e = ScriptError(f"deferred of task {tid} step {m.pc}")
                    d.errback(Failure(e))
                    if m.comp is None:
                        m.comp, m.exc = "failed", e
                    else:
                        m.late_fail = True
                    self.cls.add("yield-failed-deferred")
                if kind in ("ds", "df") and live:
                    # (a task already finished need not look at what it yields)
                    self.prefired.append((m, d))
                return d
            if kind == "raise":
                e = ScriptError(f"task {tid} step {m.pc}")
                if m.comp is None:
                    m.comp, m.exc = "failed", e
                self.cls.add("iterator-raises")
                raise e
            if m.comp is None:
                m.comp = "done"
            self.cls.add("iterator-exhausted")
            raise StopIteration
        finally:
            self._set_change(before)

    # ---- watchers ----------------------------------------------------------
    def _watch(self, m, d, nested, what):
        w = dict(fired=[], what=what, tid=m.tid)
        m.watchers.append(w)

        def cb(res):
            try:
                w["fired"].append(res)
                if len(w["fired"]) > 1:
                    self.flag("completion-deferred-fired-twice", f"{what} of task {m.tid}")
                elif m.comp is None:
                    self.flag("completion-deferred-fired-before-completion",
                              f"{what} of task {m.tid} fired with {res!r} while the model says {self.state_of(m)}")
                else:
                    bad = self._result_mismatch(m, res)
                    if bad:
                        self.flag(self._ctx_sig(m, "completion-deferred-wrong-result"),
                                  f"{what} of task {m.tid}: {bad}")
                if not self.flags and not self.harness_error:
                    for op in nested:
                        self.cls.add("nested-in-whendone-callback")
                        self.do_op(op, nested=True)
            except BaseException:
                self.harness_error = traceback.format_exc()
            return None
        d.addBoth(cb)
        return w

    def _ctx_sig(self, m, base):
        if m.self_completed:
            return "completed-inside-own-next-then-iterator-exits"
        if m.late_fail:
            return "finished-task-recompleted-by-late-deferred-failure"
        return base

    def _result_mismatch(self, m, res):
        from twisted.python.failure import Failure
        if m.comp == "done":
            if res is not m.it:
                return f"expected the iterator, got {res!r}"
            return None
        if not isinstance(res, Failure):
            return f"expected a Failure for {m.comp}, got {res!r}"
        if m.comp == "failed":
            if res.value is not m.exc:
                return f"expected failure {m.exc!r}, got {res.value!r}"
            return None
        want = _exc_types()[m.comp]
        if type(res.value) is not want:
            return f"expected {want.__name__}, got {res.value!r}"
        return None

    # ---- operations --------------------------------------------------------
    def do_op(self, op, nested=False):
        """Execute one op. Top level: twisted exceptions propagate. Nested:
        unexpected exceptions are flagged (twisted would swallow them)."""
        if not nested:
            return self._do_op(op, False)
        if self.in_cstop:
            # Callbacks fired by Cooperator.stop() itself run while some of the
            # tasks being stopped are completed and others not yet; the
            # docstring does not say whether stop() is atomic, so nothing is
            # executed (or asserted) on THOSE tasks, nor a nested stop/start of
            # the cooperator.  Work submitted or resumed from such a callback
            # (a retry handler) is well defined: it meets a stopped cooperator;
            # it is checked once stop() has returned.
            t = op[1] if len(op) > 1 and isinstance(op[1], int) else None
            if op[0] in ("cstop", "cstart") or (t is not None and t in self.cstop_victims):
                self.cls.add("nested-op-skipped-inside-cooperator-stop")
                return
            self.cls.add("nested-op-inside-cooperator-stop:" + op[0])
        try:
            return self._do_op(op, True)
        except (PropertyViolation, KnownFindingSkip, HarnessError):
            raise
        except Exception as e:
            found, last = innermost_pkg_frame(e)
            if found is not None and last is not None and "/twisted/" in last[0]:
                self.flag(f"nested-op-raised:{type(e).__name__}@{found[1]}",
                          f"op {op!r}: " + "".join(traceback.format_exception(e))[-1500:])
            else:
                self.harness_error = traceback.format_exc()

    def _expect_call(self, m, name, fn, expected, accept=None):
        """Call fn(); compare the SchedulerError raised (or None) to `expected`
        (an exception class or None)."""
        got = None
        try:
            fn()
        except self.task.SchedulerError as e:
            got = type(e)
        ok = got is expected or (accept is not None and got in accept)
        if not ok:
            en = expected.__name__ if expected else "no exception"
            gn = got.__name__ if got else "no exception"
            base = "finished-task-op-wrong-exception" if m.comp is not None else "live-task-op-wrong-exception"
            self.flag(self._ctx_sig(m, base),
                      f"{name}() on task {m.tid} (model: {self.state_of(m)}) raised {gn}, expected {en}")

    def _do_op(self, op, nested):
        name = op[0]
        if name == "tick":
            if nested or self.in_tick:
                return
            return self._tick()
        if name == "add":
            for m in self.m:
                if not m.created:
                    return self._create(m)
            return
        if name == "cstop":
            return self._cstop()
        if name == "cstart":
            before = self._runset()
            self.started, self.stopped = True, False
            self._set_change(before)
            self.cls.add("cooperator-start")
            self.coop.start()
            return
        t = op[1]
        if not (0 <= t < len(self.m)):
            return
        m = self.m[t]
        if not m.created:
            return
        if name == "fire":
            return self._fire(m, bool(op[2]))
        if m.handle is None:
            return
        types = _exc_types()
        if name == "pause":
            expected = types[m.comp] if m.comp else None
            before = self._runset()
            if m.comp is None:
                if m.dfr is not None:
                    self.nt = True
                    self.cls.add("pause-while-waiting")
                m.upause += 1
                self.cls.add("pause")
            else:
                self.cls.add("op-on-finished-task")
            self._set_change(before)
            self._expect_call(m, "pause", m.handle.pause, expected)
        elif name == "stop":
            expected = types[m.comp] if m.comp else None
            before = self._runset()
            if m.comp is None:
                if m.dfr is not None:
                    self.nt = True
                    self.cls.add("stop-while-waiting")
                if m.upause:
                    self.cls.add("stop-while-paused")
                m.comp = "stopped"
                self.cls.add("stop")
            else:
                self.cls.add("op-on-finished-task")
            self._set_change(before)
            self._expect_call(m, "stop", m.handle.stop, expected)
        elif name == "resume":
            if m.upause == 0:
                if m.dfr is not None:
                    return  # unmatched resume while waiting: misuse, not generated
                self.cls.add("resume-not-paused")
                # on a finished task only "no TaskFinished of the wrong kind"
                # is asserted: resume() documents NotPaused alone, and a task
                # that failed through its awaited Deferred keeps the internal
                # pause, so a silent return is accepted too
                accept = (None, types[m.comp]) if m.comp is not None else None
                self._expect_call(m, "resume", m.handle.resume, self.task.NotPaused, accept)
                return
            before = self._runset()
            m.upause -= 1
            accept = None
            if m.comp is None:
                if m.dfr is not None:
                    self.nt = True
                    self.cls.add("resume-while-waiting")
                if m.upause == 0 and m.dfr is None and self.stopped:
                    m.comp = "cstopped"   # re-added to a stopped cooperator
                    self.cls.add("resumed-into-stopped-cooperator")
                    if self.in_cstop:
                        self.cstop_victims.add(m.tid)
                        self.cls.add("task-resumed-from-a-callback-during-cooperator-stop")
                self.cls.add("resume")
            else:
                accept = (types[m.comp],)
                self.cls.add("op-on-finished-task")
            self._set_change(before)
            self._expect_call(m, "resume", m.handle.resume, None, accept)
        elif name == "whendone":
            nested_ops = op[2] if len(op) > 2 else []
            was = m.comp
            d = m.handle.whenDone()
            w = self._watch(m, d, nested_ops, "whenDone")
            self.cls.add("whenDone-after-completion" if was else "whenDone-before-completion")
            if was is not None and not w["fired"]:
                self.flag("whendone-on-finished-task-did-not-fire", f"task {m.tid} ({was})")

    def _create(self, m):
        before = self._runset()
        m.created = True
        m.it = _Iter(self, m.tid)
        if self.stopped:
            m.comp = "cstopped"
            self.cls.add("added-to-stopped-cooperator")
        if self.in_cstop:
            self.cstop_victims.add(m.tid)
            self.cls.add("task-added-from-a-callback-during-cooperator-stop")
        self._set_change(before)
        if m.via == "coiterate":
            d = self.coop.coiterate(m.it)
            w = self._watch(m, d, [], "coiterate")
            self.cls.add("coiterate")
            if m.comp is not None and not w["fired"] and not self.in_cstop:
                self.flag("coiterate-on-stopped-cooperator-did-not-fire", f"task {m.tid}")
        else:
            m.handle = self.coop.cooperate(m.it)
            self.cls.add("cooperate")

    def _fire(self, m, ok):
        from twisted.python.failure import Failure
        d = m.dfr
        if d is None:
            return
        before = self._runset()
        m.dfr = None
        rkind, inner, exc0 = m.rel
        if rkind == "dp":
            ok = True       # outcome was fixed when it was fired under pause()
        elif rkind == "dq":
            ok = False
        late = m.comp is not None
        exc = None
        if ok:
            if m.comp is None and m.upause == 0 and self.stopped:
                m.comp = "cstopped"
                self.cls.add("resumed-into-stopped-cooperator")
                if self.in_cstop:
                    self.cstop_victims.add(m.tid)
                    self.cls.add("task-resumed-from-a-callback-during-cooperator-stop")
            self.cls.add("fire-ok-late" if late else "fire-ok")
        else:
            exc = exc0 if rkind == "dq" else ScriptError(f"awaited deferred of task {m.tid}")
            if m.comp is None:
                m.comp, m.exc = "failed", exc
                self.cls.add("fire-fail")
            else:
                m.late_fail = True
                self.cls.add("fire-fail-late")
        if self.in_tick:
            self.cls.add("fire-inside-tick")
        self._set_change(before)
        if rkind in ("dp", "dq"):
            d.unpause()
        else:
            target = inner if rkind == "dc" else d
            if ok:
                target.callback(None)
            else:
                target.errback(Failure(exc))
        self._inspect(m, d)

    def _inspect(self, m, d):
        from twisted.python.failure import Failure
        box = []
        d.addBoth(lambda r: box.append(r))
        if box and isinstance(box[0], Failure):
            self.flag(self._ctx_sig(m, f"awaited-deferred-chain-raised:{type(box[0].value).__name__}"),
                      f"callbacks the task put on its awaited Deferred raised: {box[0].value!r}")

    def _cstop(self):
        before = self._runset()
        victims = [m for m in self.m if self.in_list(m)]
        self.stopped = True
        for m in victims:
            m.comp = "cstopped"
        self._set_change(before)
        self.cls.add("cooperator-stop")
        if len(victims) >= 2:
            self.cls.add("cooperator-stop-with->=2-tasks")
        self.in_cstop += 1
        outer = set(self.cstop_victims)
        self.cstop_victims |= {m.tid for m in victims}
        try:
            self.coop.stop()
        finally:
            self.in_cstop -= 1
            self.cstop_victims = outer
        # every task that was in the cooperator must now be completed
        from twisted.python.failure import Failure
        for m in victims:
            box = []
            if m.handle is not None:
                m.handle.whenDone().addBoth(box.append)
                done = bool(box)
            else:
                done = any(w["fired"] for w in m.watchers)
                box = [w["fired"][0] for w in m.watchers if w["fired"]]
            if not done:
                self.flag("cooperator-stop-skips-task",
                          f"Cooperator.stop() with {len(victims)} tasks in the cooperator left task {m.tid} uncompleted")
                return
            if not (isinstance(box[0], Failure) and type(box[0].value) is self.task.SchedulerStopped):
                self.flag("cooperator-stop-wrong-reason", f"task {m.tid}: {box[0]!r}")
                return

    def _tick(self):
        call = None
        while self.calls:
            c = self.calls.pop(0)
            if not c.cancelled:
                call = c
                break
        if call is None:
            self.cls.add("tick-nothing-scheduled")
            return
        had = self._nrun()
        self.in_tick = True
        self.tick_units = 0
        call.called = True
        try:
            call.f()
        except (PropertyViolation, KnownFindingSkip, HarnessError):
            raise
        except Exception as e:
            if self.harness_error:
                raise HarnessError(self.harness_error)
            if self.flags:
                self.raise_flags()
            found, last = innermost_pkg_frame(e)
            if found is not None and last is not None and "/twisted/" in last[0]:
                cur = self.cur
                if cur is not None and cur[0].self_completed:
                    # the task whose next() ran last had been completed (stop /
                    # Cooperator.stop) from inside that very next() call
                    sig = ("completed-inside-own-next-then-"
                           + ("yields-deferred" if cur[1].startswith("d") else "iterator-exits"))
                else:
                    sig = f"tick-raised:{type(e).__name__}@{found[1]}"
                self.ctx.violation(sig, self.case, "".join(traceback.format_exception(e))[-2500:])
            raise
        finally:
            self.in_tick = False
        self.raise_flags()
        for m, d in self.prefired:
            self._inspect(m, d)
        self.prefired = []
        self.raise_flags()
        self.cls.add("tick")
        if had == 0:
            if self.tick_units:
                self.flag("tick-advanced-with-nothing-runnable", "")
        elif self.tick_units < self.u and self._nrun() > 0:
            self.flag("tick-ended-early",
                      f"tick did {self.tick_units} of {self.u} units although {self._nrun()} tasks remain runnable")
        elif self.tick_units > self.u:
            self.flag("tick-ignored-termination-predicate", f"{self.tick_units} units, predicate says {self.u}")
        if self.tick_units >= 2:
            self.cls.add("tick-with->=2-units")

    # ---- after every top-level op -----------------------------------------
    def after_top(self):
        self.raise_flags()
        if self._nrun() > 0 and not any(not c.cancelled for c in self.calls):
            self.ctx.violation("no-tick-scheduled-with-runnable-tasks", self.case,
                               f"runnable tasks {sorted(self._runset())}, scheduler queue empty")
        # probes on finished tasks: whenDone fires at once with the recorded
        # result, pause/stop raise the recorded subtype (no state change)
        types = _exc_types()
        for m in self.m:
            if m.created and m.comp is not None and m.handle is not None:
                box = []
                m.handle.whenDone().addBoth(box.append)
                if not box:
                    self.flag("whendone-on-finished-task-did-not-fire", f"task {m.tid} ({m.comp})")
                else:
                    bad = self._result_mismatch(m, box[0])
                    if bad:
                        self.flag(self._ctx_sig(m, "finished-task-wrong-result"), f"task {m.tid}: {bad}")
                self._expect_call(m, "pause", m.handle.pause, types[m.comp])
                self._expect_call(m, "stop", m.handle.stop, types[m.comp])
        self.raise_flags()

    # ---- closure -----------------------------------------------------------
    def closure(self):
        if not self.started:
            self._top(["cstart"])
        budget = sum(len(m.script) + 2 for m in self.m) + 5
        n = 0
        while True:
            for m in self.m:
                if m.created and m.dfr is not None:
                    self._top(["fire", m.tid, True])
            for m in self.m:
                while m.created and m.handle is not None and m.upause > 0:
                    self._top(["resume", m.tid])
            if not any(not c.cancelled for c in self.calls):
                break
            n += 1
            if n > budget:
                self.ctx.violation("closure-not-quiescent", self.case,
                                   f"still ticking after {budget} closure ticks")
            self._top(["tick"])
        for m in self.m:
            if not m.created:
                continue
            if m.comp is None:
                self.ctx.violation("task-never-completed", self.case,
                                   f"task {m.tid} is {self.state_of(m)} at quiescence")
            for w in m.watchers:
                if len(w["fired"]) != 1:
                    self.ctx.violation("completion-deferred-not-fired-once", self.case,
                                       f"{w['what']} of task {m.tid} fired {len(w['fired'])} times at quiescence")

    def _top(self, op):
        try:
            self.do_op(op)
        except (PropertyViolation, KnownFindingSkip, HarnessError):
            raise
        except Exception:
            if self.harness_error:
                raise HarnessError(self.harness_error)
            if self.flags:
                self.raise_flags()
            raise
        self.after_top()


def run_case(ctx, case):
    h = H(ctx, case)
    try:
        for i in range(min(int(case["initial"]), len(h.m))):
            h._top(["add"])
        for op in case["ops"]:
            h._top(op)
        h.closure()
    finally:
        for k in h.cls:
            ctx.count(k)
    if h.nt:
        ctx.nontrivial(dumps(case))
        ctx.count("nontrivial")
        if len(ctx.samples) < 5:
            ctx.sample(case)


# --------------------------------------------------------------------------
# generators

_TOP_W = [("tick", 30), ("fire", 14), ("pause", 12), ("resume", 12), ("stop", 8),
          ("whendone", 9), ("add", 5), ("cstop", 2), ("cstart", 3)]
_NEST_W = [("fire", 14), ("pause", 14), ("resume", 12), ("stop", 12), ("whendone", 6),
           ("add", 5), ("cstop", 2), ("cstart", 2)]
_KINDS = ["v"] * 8 + ["d"] * 5 + ["dc"] * 2 + ["dp", "dq"] + ["ds"] * 2 + ["df"] + ["raise"]


def _table(w):
    out = []
    for name, k in w:
        out += [name] * k
    return out


_TOP_T, _NEST_T = _table(_TOP_W), _table(_NEST_W)


def _mk_op(name, t, x, n, pool):
    t = t % n
    if name in ("tick", "add", "cstop", "cstart"):
        return [name]
    if name == "fire":
        return [name, t, x % 4 != 0]
    if name == "whendone":
        return [name, t, pool[x % len(pool)] if (pool and x >= 6) else []]
    return [name, t]


def _unpack(x):
    return x % 100, (x // 100) % 8, (x // 800) % 10


@st.composite
def histories(draw, max_tasks=8):
    """One integer per op / per script step is drawn and decoded here into plain
    op lists (cheap to generate; shrinks towards ticks / task 0 / plain values)."""
    n = min(max_tasks, draw(st.sampled_from([1, 2, 2, 3, 3, 3, 4, 4, 5, 6, 8])))
    big = st.integers(0, 7999)
    pool = []
    for lst in draw(st.lists(st.lists(big, min_size=1, max_size=2), min_size=3, max_size=3)):
        pool.append([_mk_op(_NEST_T[c % len(_NEST_T)], t, x, n, None) for c, t, x in map(_unpack, lst)])
    lo, hi = draw(st.sampled_from([(0, 8), (6, 20), (15, 45)]))
    ops = [_mk_op(_TOP_T[c % len(_TOP_T)], t, x, n, pool)
           for c, t, x in map(_unpack, draw(st.lists(big, min_size=lo, max_size=hi)))]
    tasks = []
    vias = draw(st.integers(0, 5 ** n - 1))
    slo = draw(st.sampled_from([0, 2, 4]))
    for i in range(n):
        steps = draw(st.lists(st.integers(0, len(_KINDS) * 12 * 4 - 1), min_size=slo, max_size=10))
        tasks.append(dict(via="coiterate" if (vias // 5 ** i) % 5 == 4 else "cooperate",
                          script=[[_KINDS[x % len(_KINDS)], pool[(x // len(_KINDS)) % 3] if (x // len(_KINDS)) % 12 >= 9 else [],
                                   [0, 0, 1, 2][(x // (len(_KINDS) * 12)) % 4]]
                                  for x in steps]))
    misc = draw(st.integers(0, 6 * 5 * 4 * (n + 1) - 1))
    return dict(started=misc % 6 != 5,
                u=[1, 2, 1, 3, 4][(misc // 6) % 5],
                tasks=tasks,
                initial=n if (misc // 30) % 4 != 3 else (misc // 120) % (n + 1),
                ops=ops)


# complete small scope: two tasks, fixed scripts, every op sequence to a depth
_SMALL_ALPHABET = [
    ["tick"], ["pause", 0], ["resume", 0], ["stop", 0], ["fire", 0, True], ["fire", 0, False],
    ["whendone", 0, []], ["pause", 1], ["resume", 1], ["stop", 1], ["cstop"], ["cstart"],
    # a completion callback that submits new work and resumes a paused task (a retry handler)
    ["whendone", 0, [["add"], ["resume", 1]]],
    # a completion callback that stops the whole cooperator (the case the comment in _completeWith is about)
    ["whendone", 0, [["cstop"]]],
]
# two live tasks; a third definition is only created by an "add" operation
_SMALL_TASKS = [
    [dict(via="cooperate", script=[["d", []], ["v", []]]),
     dict(via="cooperate", script=[["v", []], ["v", []], ["v", []]]),
     dict(via="coiterate", script=[["v", []]])],
    [dict(via="cooperate", script=[["v", []], ["dc", [["pause", 1]], 2], ["dq", [], 1], ["raise", []]]),
     dict(via="coiterate", script=[["v", []], ["ds", [], 1], ["v", []]]),
     dict(via="cooperate", script=[["d", [], 1]])],
]


def _small_cases(scope, depth, first):
    tasks = _SMALL_TASKS[scope]
    for d in range(1, depth + 1):
        for rest in itertools.product(_SMALL_ALPHABET, repeat=d - 1):
            yield dict(started=True, u=1, tasks=tasks, initial=2, ops=[first] + [list(o) for o in rest])


def _enum_shard(ctx, arg):
    scope, depth, first = arg
    enumerate_run(ctx, _small_cases(scope, depth, first), run_case)


def _hyp_shard(ctx, i):
    hyp_run(ctx, histories(), run_case, 4000, label=f"shard{i}")


def run(ctx):
    depth = ctx.pick(4, 5)
    args = [(s, depth, f) for s in range(len(_SMALL_TASKS)) for f in _SMALL_ALPHABET]
    if ctx.tier == "quick":      # ~10 s on one core; forking 16 workers costs more than it saves
        for a in args:
            _enum_shard(ctx, a)
            if ctx.has_violation():
                return
    else:
        ctx.shards(_enum_shard, args)
        if ctx.has_violation():
            return
    ctx.extra["small_scope"] = dict(task_sets=len(_SMALL_TASKS), alphabet=len(_SMALL_ALPHABET),
                                    max_depth=depth, complete=True)
    ctx.exhaustive = False  # the property quantifies over all histories; only the small scope is complete
    if ctx.tier == "quick":
        hyp_run(ctx, histories(), run_case, 1600, label="histories")
    else:
        ctx.shards(_hyp_shard, list(range(16)))
