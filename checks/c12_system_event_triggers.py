"""C12 — system event triggers run once each, in phase and registration order.

case = dict(
  api  = "event" (a bare _ThreePhaseEvent) | "reactor" (ReactorBase.addSystemEventTrigger /
         removeSystemEventTrigger / fireSystemEvent on a private event type)
         | "startup" | "shutdown": the triggers are registered for the reactor's own 'startup' /
         'shutdown' event and the event is fired by the reactor's life cycle: a real
         ReactorBase.run() main loop (stub doIteration, no I/O) and reactor.stop(); the post
         steps are then performed from inside the main loop while the event waits,
  ops  = registrations and removals before firing, interleaved:
           ["add", phase, beh, action]   phase before|during|after
               beh: "ret" (None) | "val" (a non-Deferred value)
                    | "raise" (an Exception subclass) | "raise:exit" (SystemExit subclass, i.e.
                      a trigger calling sys.exit()) | "raise:kbi" (KeyboardInterrupt subclass)
                    | "raise:genexit" (GeneratorExit subclass) | "raise:acancel"
                      (asyncio.CancelledError subclass) | "raise:base" (direct BaseException subclass)
                    | "dfr" (a Deferred fired later; ignored for during/after)
                    | "dok" / "dbad" (an already fired / failed Deferred)
               action, performed by the trigger when it runs, before it returns:
                    None | ["rm", t] (remove trigger t) | ["fire", t, ok] (fire the
                    Deferred an earlier before-trigger t returned)
                    | ["iter"] (spin the reactor re-entrantly: reactor.iterate(); reactor apis)
                    | ["cwr"] ("startup" only: reactor.callWhenRunning(f) - by its documentation
                      a registration of f as an after-startup trigger unless the reactor is
                      already running, in which case f is called at once)
           ["rm", t]                     remove trigger t (t taken mod number of adds so far)
  post = steps after fireEvent() while before-Deferreds are outstanding:
           ["fire", j, ok]  fire the j-th (mod n) still unfired before-Deferred
           ["rm", t]        remove trigger t from outside
           ["cwr"]          ("startup" only) callWhenRunning from outside (a timed-call-like context)
)
Triggers are numbered in registration order and registered as (callable, id), so
every handle is distinct.  After `post` the harness fires what is still unfired
(in registration order) and then fires the event a second time, which must run
nothing.  The execution log is compared with the model after every step.
"""
import itertools

from hypothesis import strategies as st

from lib.core import hyp_run, enumerate_run

META = dict(
    property="C12",
    level="exploration",
    technique="reference model of the three-phase event compared with the real execution log after every step: complete enumeration of small trigger sets with every firing order of the before-Deferreds, plus Hypothesis histories of up to 20 registrations",
    level_text="All trigger sets of up to 3 (quick) / 4 (thorough) triggers over 8 kinds, each combined with every single removal (before firing, from inside any trigger, from outside while Deferreds are outstanding at every position) and every firing order of the outstanding before-Deferreds with every single failing one, are enumerated through the bare _ThreePhaseEvent, the ReactorBase API on a private event, and the reactor's own 'startup' and 'shutdown' events fired by a real ReactorBase.run()/stop() life cycle (stub doIteration) with the post-fire steps performed from inside the main loop; in the reactor apis every trigger may also spin the reactor re-entrantly (reactor.iterate()), and for 'startup' triggers and outside code may call reactor.callWhenRunning (= registration of an after-startup trigger unless already running); random histories of up to 20 registrations with interleaved removals, in-trigger removals/firings and random firing orders go beyond. Not a proof: exhaustive only for the small scope.",
    level_note="Reference model written from IReactorCore.addSystemEventTrigger's documentation and the statement, trusted. Registering the same (callable, args) twice and registering new triggers while the event is firing (other than through callWhenRunning, whose documented contract is used as the oracle) are not generated (unspecified). Whether removing an already removed / already run trigger raises ValueError or only warns is not asserted. Triggers raising non-Exception BaseExceptions (SystemExit, KeyboardInterrupt, GeneratorExit, asyncio.CancelledError) are treated like any raising trigger because the handler swallows BaseException on purpose (twisted.logger test_logger uses KeyboardInterrupt).",
    design_ref="§5 C12",
    rule="case = (api, registrations/removals, post-fire steps). non-trivial = at least two before-triggers return Deferreds that are fired in an order different from registration order and at least one removal takes effect; distinct by the whole case.",
)

PHASES = ("before", "during", "after")
import asyncio

RAISES = ("raise", "raise:exit", "raise:kbi", "raise:genexit", "raise:acancel", "raise:base")
BEFORE_BEHS = ("ret", "val", "dfr", "dok", "dbad") + RAISES
OTHER_BEHS = ("ret", "val", "dfr") + RAISES


class HarnessFault(Exception):
    pass


class _StopScript(Exception):
    """Internal: a divergence was recorded while running inside the main loop."""


# "An exception in one trigger does not prevent the others from running": the
# handler around every trigger deliberately swallows BaseException (its own unit
# test uses KeyboardInterrupt), so the non-Exception families are in scope too.
class HarnessExit(SystemExit):
    pass


class HarnessInterrupt(KeyboardInterrupt):
    pass


class HarnessGeneratorExit(GeneratorExit):
    pass


class HarnessAsyncCancelled(asyncio.CancelledError):
    pass


class HarnessBase(BaseException):
    pass


RAISE_CLASS = {"raise": HarnessFault, "raise:exit": HarnessExit, "raise:kbi": HarnessInterrupt,
               "raise:genexit": HarnessGeneratorExit, "raise:acancel": HarnessAsyncCancelled,
               "raise:base": HarnessBase}
HARNESS_EXCEPTIONS = tuple(RAISE_CLASS.values())


# ---------------------------------------------------------------------------
# reference model

class Model:
    def __init__(self, api="event"):
        self.api = api
        self.running = False      # "startup" only: the reactor's own during-startup trigger ran
        self.cwr_calls = 0
        self.trig = []            # dict(phase, beh, action)
        self.alive = set()        # registered, not removed, not yet run
        self.ran = []             # execution log
        self.unfired = []         # before-trigger ids whose Deferred is outstanding
        self.state = "idle"       # idle | waiting | done
        self.effective_removals = 0
        self.fire_order = []

    def add(self, phase, beh, action):
        self.trig.append(dict(phase=phase, beh=beh, action=action))
        self.alive.add(len(self.trig) - 1)

    def remove(self, t):
        """True if the removal takes effect (the trigger was still to run)."""
        if t in self.alive:
            self.alive.discard(t)
            self.effective_removals += 1
            return True
        return False

    def _run(self, t):
        self.alive.discard(t)
        self.ran.append(t)
        tr = self.trig[t]
        a = tr["action"]
        if a is not None:
            if a[0] == "rm":
                self.remove(a[1] % len(self.trig))
            elif a[0] == "fire":
                u = a[1] % len(self.trig)
                if u in self.unfired:
                    self.unfired.remove(u)
                    self.fire_order.append(u)
            elif a[0] == "cwr":
                self.cwr()
            # "iter": nothing is pending in the reactor, spinning it changes nothing
        if tr["phase"] == "before" and tr["beh"] == "dfr":
            self.unfired.append(t)

    def cwr(self):
        """reactor.callWhenRunning(f): called at once if running, else f becomes the
        newest after-startup trigger."""
        if self.api != "startup":
            return
        self.cwr_calls += 1
        self.trig.append(dict(phase="after", beh="ret", action=None, cwr=True))
        t = len(self.trig) - 1
        if self.running:
            self.ran.append(t)
        else:
            self.alive.add(t)

    def _phase(self, phase):
        for t in range(len(self.trig)):
            if t in self.alive and self.trig[t]["phase"] == phase:
                self._run(t)

    def fire_event(self):
        if self.state == "waiting":
            raise AssertionError("model: re-fire while waiting is not generated")
        self._phase("before")
        self.state = "waiting"
        self._maybe_continue()

    def _maybe_continue(self):
        if self.state == "waiting" and not self.unfired:
            self.state = "done"
            self.running = self.api == "startup"
            self._phase("during")
            self._phase("after")

    def fire_deferred(self, t):
        self.unfired.remove(t)
        self.fire_order.append(t)
        self._maybe_continue()


# ---------------------------------------------------------------------------
# the real thing

_REACTOR_CLASS = []


def _owned_reactor_class():
    if not _REACTOR_CLASS:
        from twisted.internet import base

        class OwnedReactor(base.ReactorBase):
            def installWaker(self):
                pass

            verif_hook = None

            def doIteration(self, delay):
                if self.verif_hook is not None:
                    self.verif_hook()

            def removeAll(self):
                return []
        _REACTOR_CLASS.append(OwnedReactor)
    return _REACTOR_CLASS[0]


class World:
    def __init__(self, api):
        from twisted.internet import base, defer
        self.defer = defer
        self.api = api
        self.evname = api if api in ("startup", "shutdown") else "verif"
        self.in_trigger = 0
        if api == "event":
            self.event = base._ThreePhaseEvent()
        else:
            self.reactor = _owned_reactor_class()()
        self.trig = []
        self.handles = []
        self.deferreds = {}
        self.log = []
        self.remove_errors = 0
        self.all_deferreds = []

    def add(self, phase, beh, action):
        t = len(self.trig)
        self.trig.append(dict(phase=phase, beh=beh, action=action))
        if self.api == "event":
            h = self.event.addTrigger(phase, self.call, t)
        else:
            h = self.reactor.addSystemEventTrigger(phase, self.evname, self.call, t)
        self.handles.append(h)

    def remove(self, t):
        """Returns False if the implementation refused with ValueError."""
        if self.handles[t] is None:      # callWhenRunning called it at once: nothing registered
            return False
        try:
            if self.api == "event":
                self.event.removeTrigger(self.handles[t])
            else:
                self.reactor.removeSystemEventTrigger(self.handles[t])
        except ValueError:
            self.remove_errors += 1
            return False
        return True

    def fire_event(self):
        if self.api == "event":
            self.event.fireEvent()
        else:
            self.reactor.fireSystemEvent(self.evname)

    def cwr(self):
        if self.api != "startup":
            return
        t = len(self.trig)
        self.trig.append(dict(phase="after", beh="ret", action=None))
        self.handles.append(None)
        self.handles[t] = self.reactor.callWhenRunning(self.call, t)

    def fire_deferred(self, t, ok):
        d = self.deferreds[t]
        if ok:
            d.callback(("fired", t))
        else:
            d.errback(HarnessFault(t))

    def call(self, t):
        self.in_trigger += 1
        try:
            return self._call(t)
        finally:
            self.in_trigger -= 1

    def _call(self, t):
        self.log.append(t)
        tr = self.trig[t]
        a = tr["action"]
        if a is not None:
            if a[0] == "rm":
                self.remove(a[1] % len(self.trig))
            elif a[0] == "fire":
                u = a[1] % len(self.trig)
                d = self.deferreds.get(u)
                if d is not None and not d.called:
                    self.fire_deferred(u, a[2])
            elif a[0] == "iter":
                if self.api != "event":
                    self.reactor.iterate()
            elif a[0] == "cwr":
                self.cwr()
        beh = tr["beh"]
        if beh == "ret":
            return None
        if beh == "val":
            return ("value", t)
        if beh in RAISE_CLASS:
            raise RAISE_CLASS[beh](t)
        if beh == "dok":
            return self.defer.succeed(("value", t))
        if beh == "dbad":
            d = self.defer.fail(HarnessFault(t))
            self.all_deferreds.append(d)
            return d
        d = self.defer.Deferred()
        self.all_deferreds.append(d)
        if tr["phase"] == "before":
            self.deferreds[t] = d
        return d


def _diagnose(w, m, unfired_before_step):
    """Narrow signature for a log mismatch."""
    real, want = w.log, m.ran
    if len(set(real)) != len(real):
        return "trigger-ran-more-than-once"
    n = min(len(real), len(want))
    k = next((i for i in range(n) if real[i] != want[i]), n)
    if k < len(real):
        t = real[k]
        if m.trig[t].get("cwr"):
            return "callWhenRunning-callable-ran-before-the-reactor-was-running"
        ph = m.trig[t]["phase"]
        if t not in want:
            if t not in m.alive:
                return "removed-trigger-ran"
            if ph != "before" and m.unfired:
                return "continued-before-all-before-deferreds-fired"
            return "trigger-ran-unexpectedly"
        # t is expected, but later
        if k < len(want):
            wph = m.trig[want[k]]["phase"]
            if wph != ph:
                return "phase-order"
            return f"registration-order-{ph}"
    # real is a strict prefix of want: something did not run
    t = want[k]
    ph = m.trig[t]["phase"]
    prev = want[k - 1] if k else None
    if prev is not None and m.trig[prev]["beh"] in RAISE_CLASS:
        return "exception-stopped-later-triggers" + m.trig[prev]["beh"][5:]
    if ph != "before" and unfired_before_step:
        return "not-continued-after-last-before-deferred"
    return f"trigger-not-run-{ph}"


def run_case(ctx, case):
    api = case["api"]
    w = World(api)
    m = Model(api)
    verdicts = []          # (signature, detail) in the order noticed; raised by flush()
    flags = set()

    in_loop = [False]      # true while the script runs inside the reactor's main loop

    def flush():
        if verdicts:
            ctx.violation(verdicts[0][0], case, verdicts[0][1])

    def noticed(sig, detail):
        """A divergence: report it now, or (inside the main loop, whose catch-all
        would swallow the report) stop the script and the reactor first."""
        verdicts.append((sig, detail))
        if in_loop[0]:
            raise _StopScript()
        flush()

    def compare(where, unfired_before=()):
        if w.log != m.ran:
            noticed(_diagnose(w, m, unfired_before),
                    f"{where}: ran {w.log}, expected {m.ran}; triggers {m.trig}")

    def guarded_call(fn, *a, **kw):
        try:
            return fn(*a, **kw)
        except HARNESS_EXCEPTIONS as e:
            kind = next(k for k, c in RAISE_CLASS.items() if type(e) is c)
            if w.log == m.ran:
                # nothing was left to run: the statement only protects the *other* triggers
                flags.add("exception of the last trigger came out of the firing call (no other trigger affected)")
                return None
            noticed("trigger-exception-propagated" + kind[5:],
                    f"{type(e).__name__} of trigger {e.args} came out of {getattr(fn, '__name__', fn)}; "
                    f"ran {w.log}, expected {m.ran}; triggers {m.trig}")

    n_adds = sum(1 for op in case["ops"] if op[0] == "add")
    if n_adds == 0:
        return
    for op in case["ops"]:
        if op[0] == "add":
            _, phase, beh, action = op
            if action is not None:
                action = list(action)
            m.add(phase, beh, action)
            w.add(phase, beh, action)
        else:
            if not m.trig:
                continue
            t = op[1] % len(m.trig)
            eff = m.remove(t)
            ok = w.remove(t)
            flags.add("removal before firing" if eff else "repeated removal before firing")
            if eff and not ok:
                ctx.violation("remove-refused", case, f"removing registered trigger {t} raised ValueError")
    for tr in m.trig:
        if tr["action"] is not None:
            flags.add("in-trigger " + tr["action"][0] + f" ({tr['phase']})")
        if tr["beh"] in RAISE_CLASS:
            flags.add("raising trigger")
            if tr["beh"] != "raise":
                flags.add(f"trigger raises a non-Exception BaseException ({tr['beh'][6:]}, {tr['phase']})")
    rem0 = m.effective_removals

    def script():
        """Everything from firing the event to the closure.  In the life-cycle
        apis this runs inside the reactor's main loop; a `yield` hands control
        back to the loop for one turn."""
        if api == "shutdown":
            m.fire_event()
            w.reactor.stop()
            yield                       # the main loop notices the stop and fires 'shutdown'
        elif api != "startup":          # ("startup": run() has fired it already)
            m.fire_event()
            guarded_call(w.fire_event)
        compare("after fireEvent")
        if m.effective_removals > rem0:
            flags.add("in-trigger removal took effect")
        if m.state == "waiting":
            flags.add("waits for before-Deferreds")
        if m.cwr_calls:
            flags.add("callWhenRunning from inside a startup trigger")
        for step in case["post"]:
            if step[0] == "fire":
                if not m.unfired:
                    continue
                cand = sorted(m.unfired)
                t = cand[step[1] % len(cand)]
                before = list(m.unfired)
                m.fire_deferred(t)
                guarded_call(w.fire_deferred, t, bool(step[2]))
                if not step[2]:
                    flags.add("before-Deferred fails")
                compare(f"after firing the Deferred of trigger {t}", before)
            elif step[0] == "cwr":
                if api != "startup":
                    continue
                flags.add("callWhenRunning from outside while startup waits for before-Deferreds"
                          if m.state == "waiting" else "callWhenRunning from outside once running")
                m.cwr()
                guarded_call(w.cwr)
                compare("after callWhenRunning from outside")
            else:
                t = step[1] % len(m.trig)
                waiting = m.state == "waiting"
                eff = m.remove(t)
                ok = w.remove(t)
                if waiting:
                    flags.add("removal while Deferreds outstanding" + (" (effective)" if eff else ""))
                if eff and not ok:
                    noticed("remove-refused", f"removing pending trigger {t} raised ValueError")
                compare(f"after removing trigger {t}")
        # closure: fire what is still outstanding, in registration order
        while m.unfired:
            t = sorted(m.unfired)[0]
            before = list(m.unfired)
            m.fire_deferred(t)
            guarded_call(w.fire_deferred, t, True)
            compare(f"closure: after firing the Deferred of trigger {t}", before)
        if api == "startup":
            w.reactor.stop()

    gen = script()
    if api in ("startup", "shutdown"):
        stored = []
        turns = [0]

        def hook():
            if w.in_trigger:
                return                  # reactor.iterate() from inside a trigger
            turns[0] += 1
            if turns[0] > 60:
                if not verdicts:
                    verdicts.append(("reactor-did-not-finish-the-event",
                                     f"main loop still running after 60 turns; ran {w.log}, expected {m.ran}"))
                w.reactor.crash()
                return
            in_loop[0] = True
            try:
                next(gen)
            except StopIteration:
                pass
            except _StopScript:
                w.reactor.crash()
            except BaseException as e:      # noqa: re-raised below, outside the main loop's catch-all
                stored.append(e)
                w.reactor.crash()
            finally:
                in_loop[0] = False
        w.reactor.verif_hook = hook
        if api == "startup":
            m.fire_event()
        guarded_call(w.reactor.run, installSignalHandlers=False)
        w.reactor.verif_hook = None
        if stored:
            raise stored[0]
        flush()
    for _ in gen:                           # direct apis: everything; life cycle: what is left
        pass
    flush()
    if m.state != "done":
        raise AssertionError("model did not finish")
    # every registered trigger either ran exactly once or was removed before its turn
    n = len(w.log)
    guarded_call(w.fire_event)
    flush()
    if len(w.log) != n:
        ctx.violation("trigger-ran-again-on-second-fire", case,
                      f"second fireEvent ran {w.log[n:]} after {w.log[:n]}")
    for d in w.all_deferreds:
        d.addErrback(lambda f: None)
    # bookkeeping
    fo = m.fire_order
    out_of_order = len(fo) >= 2 and fo != sorted(fo)
    for f in flags:
        ctx.count(f)
    if len(fo) >= 2:
        ctx.count(">= 2 before-Deferreds")
    if out_of_order:
        ctx.count("before-Deferreds fired out of registration order")
    if m.effective_removals:
        ctx.count("a removal took effect")
    ctx.count(f"api={case['api']}")
    if out_of_order and m.effective_removals:
        ctx.count("nontrivial")
        ctx.nontrivial(case)
        if len(m.trig) <= 6:
            ctx.sample(case)


# ---------------------------------------------------------------------------
# complete small scope

APIS = ("event", "reactor", "startup", "shutdown")
KINDS = [("before", "ret"), ("before", "raise"), ("before", "dfr"), ("before", "dok"),
         ("during", "ret"), ("during", "raise"), ("after", "ret"), ("after", "raise")]


def _orders(k):
    """All firing orders of k outstanding Deferreds as selector sequences, each
    with all-ok and with exactly one failing."""
    for sel in itertools.product(*[range(k - i) for i in range(k)]):
        for failing in [None] + list(range(k)):
            yield [["fire", j, failing != i] for i, j in enumerate(sel)]


def _small_cases(arg):
    api, n, first = arg
    for rest in itertools.product(range(len(KINDS)), repeat=n - 1):
        kinds = [KINDS[first]] + [KINDS[i] for i in rest]
        base = [["add", ph, beh, None] for ph, beh in kinds]
        k = sum(1 for ph, beh in kinds if ph == "before" and beh == "dfr")
        variants = [(base, None)]
        for t in range(n):                      # one removal before firing
            variants.append((base + [["rm", t]], None))
        for a in range(n):                      # trigger a removes trigger b
            for b in range(n):
                ops = [list(o) for o in base]
                ops[a][3] = ["rm", b]
                variants.append((ops, None))
        for a in range(n):                      # before-trigger a fires an earlier Deferred
            if kinds[a][0] != "before":
                continue
            for b in range(a):
                if kinds[b] == ("before", "dfr"):
                    ops = [list(o) for o in base]
                    ops[a][3] = ["fire", b, True]
                    variants.append((ops, None))
        if k:
            for t in range(n):                  # removal from outside while waiting
                variants.append((base, ["rm", t]))
        if api != "event":
            for a in range(n):                  # trigger a spins the reactor re-entrantly
                ops = [list(o) for o in base]
                ops[a][3] = ["iter"]
                variants.append((ops, None))
        if api == "startup":
            for a in range(n):                  # trigger a calls reactor.callWhenRunning
                ops = [list(o) for o in base]
                ops[a][3] = ["cwr"]
                variants.append((ops, None))
            variants.append((base, ["cwr"]))    # callWhenRunning from outside, at every position
        if any(beh == "raise" for ph, beh in kinds):
            # the family of the raised exception, for the variant without removals
            for fam in RAISES[1:]:
                variants.append(([["add", ph, fam if beh == "raise" else beh, None] for ph, beh in kinds], None))
        for ops, mid_rm in variants:
            k_eff = k
            for order in _orders(k_eff):
                if mid_rm is None:
                    yield dict(api=api, ops=ops, post=order)
                else:
                    for pos in range(len(order) + 1):
                        yield dict(api=api, ops=ops, post=order[:pos] + [list(mid_rm)] + order[pos:])


def _small_shard(ctx, arg):
    enumerate_run(ctx, _small_cases(arg), run_case)


# ---------------------------------------------------------------------------
# random histories

def _case_strategy(max_adds):
    idx = st.integers(0, 19)
    action = st.one_of(
        st.none(), st.none(), st.none(),
        st.tuples(st.just("rm"), idx).map(list),
        st.tuples(st.just("fire"), idx, st.booleans()).map(list),
        st.just(["iter"]),
        st.just(["cwr"]),
    )
    add_before = st.tuples(st.just("add"), st.just("before"),
                           st.sampled_from(BEFORE_BEHS + ("dfr", "dfr", "dfr")), action).map(list)
    add_other = st.tuples(st.just("add"), st.sampled_from(["during", "after"]),
                          st.sampled_from(OTHER_BEHS + ("ret", "ret", "raise")), action).map(list)
    rm = st.tuples(st.just("rm"), idx).map(list)
    op = st.one_of(add_before, add_before, add_other, add_other, rm)
    post_step = st.one_of(
        st.tuples(st.just("fire"), st.integers(0, 7), st.booleans()).map(list),
        st.tuples(st.just("fire"), st.integers(0, 7), st.just(True)).map(list),
        st.tuples(st.just("fire"), st.integers(0, 7), st.just(True)).map(list),
        rm,
        st.just(["cwr"]),
    )
    return st.builds(
        dict,
        api=st.sampled_from(["event", "reactor", "startup", "shutdown"]),
        ops=st.lists(op, min_size=1, max_size=max_adds + 6).filter(
            lambda ops: 1 <= sum(1 for o in ops if o[0] == "add") <= max_adds),
        post=st.lists(post_step, max_size=12),
    )


def _random_shard(sub, i):
    hyp_run(sub, _case_strategy(20), run_case, 4000, label=f"shard{i}")


def run(ctx):
    nmax = ctx.pick(3, 4)
    shard_args = []
    for api in APIS:
        for n in range(1, nmax + 1):
            for first in range(len(KINDS)):
                shard_args.append((api, n, first))
    ctx.extra["exhaustive_scope"] = dict(
        triggers=f"1..{nmax}", kinds=[f"{p}/{b}" for p, b in KINDS],
        apis=list(APIS), variants="no removal (raising triggers also with every exception family: SystemExit, KeyboardInterrupt, GeneratorExit, asyncio.CancelledError, BaseException) | one removal before firing | trigger a removes trigger b | before-trigger fires an earlier Deferred | one removal from outside at every position while waiting | trigger a calls reactor.iterate() (reactor apis) | trigger a calls reactor.callWhenRunning / callWhenRunning from outside at every position (startup)",
        orders="every firing order of the outstanding Deferreds x (all succeed | exactly one fails)")
    if ctx.thorough:
        ctx.shards(_small_shard, shard_args)
    else:
        for a in shard_args:
            _small_shard(ctx, a)
            if ctx.has_violation():
                break
    ctx.exhaustive = False
    if ctx.has_violation():
        return
    if ctx.thorough:
        ctx.shards(_random_shard, list(range(16)))
    else:
        hyp_run(ctx, _case_strategy(20), run_case, 3000, label="random")
