"""C13 — reactor.callFromThread: exactly once, in the reactor thread, per-issuer order, woken when idle.

Two layers.

(a) deterministic: a ReactorBase subclass with a counting waker and no I/O.  A
    history is a list of "issuer i issues a call" / "iterate" operations; calls
    may raise and may themselves issue calls when they run.  Oracle: every call
    runs exactly once, per-issuer issue order is the execution order, every
    iteration with a non-empty queue makes progress, and whenever calls are
    queued wakeUp() has been invoked since the last drain began.

(b) real: SelectReactor / PollReactor / EPollReactor / AsyncioSelectorReactor
    run in the main thread, producer threads issue calls with generated pauses
    under a tiny switch interval.  Oracle (order-insensitive, no latency
    thresholds): multiset executed == issued, executing thread == reactor
    thread, per-issuer subsequence in order.  "Lost" is decided logically by
    counting iterations of a heartbeat timer after the issue, never by elapsed
    time.  Idle wake-up: with the heartbeat suspended and only an unrelated
    safety timer pending, a call issued from a thread must run in an iteration
    in which that timer is not yet due (3 attempts must all fail to count).
"""
import hashlib
import itertools
import os
import sys
import threading
import time

from hypothesis import strategies as st

from lib.core import hyp_run, enumerate_run, HarnessError, dumps

META = dict(
    property="C13",
    level="exploration",
    technique="(a) op-list histories on a ReactorBase with a counting waker (complete small scope + Hypothesis); (b) real select/poll/epoll/asyncio reactors with producer threads under OS scheduling, order-insensitive exactly-once / reactor-thread / per-issuer-order oracle and a logical idle wake-up probe",
    level_text="Deterministic layer: all histories to depth 5 over a 9-letter alphabet (call shapes positional / keyword / mixed / zero-argument, and stop() with the shutdown held open by a before-shutdown trigger, included) plus random histories (<=40 ops, calls that raise and calls that issue calls) against an exactly-once/FIFO-per-issuer/wake-up model. Real layer: every available reactor (select, poll, epoll, asyncio) runs workloads of 1..16 producer threads (quick: ~10^3 calls per run; thorough: 10^4 calls x 5 repetitions) with sys.setswitchinterval(1e-5); the OS schedule is not controlled, so this is exploration under scheduling noise.",
    level_note="The real layer cannot choose the interleaving; its oracles are invariants of any interleaving. Loss is declared only after >=4 further reactor iterations (heartbeat timer firings counted in the reactor thread) following two confirmed sentinel round trips. The idle wake-up probe compares, in the reactor's own clock, the moment the probed call runs with the due time of an unrelated 2 s timer and must fail three times in a row; a correct reactor could fail it only if its thread were not scheduled for 2 s three times in succession. The real workload is derived from VERIF_SEED with blake2b (no Hypothesis shrinking for thread runs).",
    design_ref="§5 C13",
    rule="every issued call has a generated shape (positional, keyword, mixed, zero-argument callable) on every reactor and in the deterministic layer; (a) case = op list; non-trivial = >=2 issuers interleaved in the executed order and >=1 call issued from inside a running call; (b) case = (reactor, per-thread lists of (pause, flags, shape)); non-trivial = >=2 producer threads whose calls alternate in the executed order more often than there are threads. Distinct by canonical JSON of the case.",
)

NEST, RAISE = 1, 2
# call shapes: how the arguments travel through callFromThread(f, *args, **kw)
POS, KW, MIXED, NOARGS = 0, 1, 2, 3
SHAPES = ["positional", "keyword", "mixed", "no-args"]


def _issue_shaped(reactor, shape, fn, a, b, c):
    """reactor.callFromThread(fn ...) delivering (a, b, c) in the given shape."""
    if shape == KW:
        reactor.callFromThread(fn, issuer=a, seq=b, extra=c)
    elif shape == MIXED:
        reactor.callFromThread(fn, a, b, extra=c)
    elif shape == NOARGS:
        reactor.callFromThread(lambda: fn(a, b, c))
    else:
        reactor.callFromThread(fn, a, b, c)


class ScriptError(Exception):
    pass


# ==========================================================================
# (a) deterministic layer

class _CountingWaker:
    def __init__(self):
        self.n = 0

    def wakeUp(self):
        self.n += 1


def _owned_reactor():
    from twisted.internet.base import ReactorBase

    class OwnedReactor(ReactorBase):
        _registerAsIOThread = False

        def installWaker(self):
            self.waker = _CountingWaker()

        def doIteration(self, delay):
            pass

    return OwnedReactor()


def run_det(ctx, case):
    """case = {"layer": "det", "ops": [["call", issuer, spec] | ["iterate"]]},
    spec = [raises, [child specs]] — children are issued (by the reactor thread)
    when the call runs."""
    from twisted.internet.defer import Deferred
    r = _owned_reactor()
    waker = r.waker
    if not isinstance(waker, _CountingWaker):
        raise HarnessError("counting waker not installed")
    # "While a reactor runs": put it into the running state.  A 'before
    # shutdown' trigger holds the shutdown open once ["stop"] has been executed,
    # so the reactor keeps running (reactor.running stays True) until closure.
    held = Deferred()
    r.addSystemEventTrigger("before", "shutdown", lambda: held)
    r.startRunning(installSignalHandlers=False)
    if not r.running:
        raise HarnessError("deterministic reactor did not reach the running state")
    stop_called = [False]
    issued = {}      # issuer -> [ids in issue order]
    executed = []    # (issuer, id)
    runs = {}        # id -> count
    nextid = [0]
    shapes = {}      # issuer -> set of call shapes used
    sent = {}        # id -> (issuer, id(spec)) as handed to callFromThread
    badargs = []
    state = dict(drain_mark=waker.n, in_drain=False, nested=0, during_shutdown=0)

    def issue(issuer, spec):
        if stop_called[0]:
            state["during_shutdown"] += 1
        i = nextid[0]
        nextid[0] += 1
        issued.setdefault(issuer, []).append(i)
        runs[i] = 0
        sent[i] = (issuer, id(spec))
        shape = spec[2] if len(spec) > 2 else POS
        shapes.setdefault(issuer, set()).add(shape)
        _issue_shaped(r, shape, fn, issuer, i, spec)

    def fn(issuer, seq, extra):
        i, spec = seq, extra
        if not (i in runs and sent.get(i) == (issuer, id(spec))):
            # (raising here would be swallowed by the reactor's failure handler)
            badargs.append(f"got ({issuer!r}, {i!r}, {spec!r})")
            return
        runs[i] += 1
        executed.append((issuer, i))
        for child in spec[1]:
            state["nested"] += 1
            issue("R", child)
        if spec[0]:
            raise ScriptError(f"call {i}")

    def pending():
        return [i for i, n in runs.items() if n == 0]

    def check(where):
        if badargs:
            ctx.violation("det-call-received-wrong-arguments", case, f"{badargs[0]} ({where})")
        for i, n in runs.items():
            if n > 1:
                ctx.violation("det-call-ran-twice", case, f"call {i} ran {n} times ({where})")
        for issuer, ids in issued.items():
            got = [i for (who, i) in executed if who == issuer]
            if got != ids[:len(got)]:
                ctx.violation("det-per-issuer-order", case,
                              f"issuer {issuer}: issued {ids}, executed {got} ({where})")
        if pending() and waker.n <= state["drain_mark"]:
            ctx.violation("det-enqueue-without-wakeup", case,
                          f"calls {pending()} are queued but wakeUp() was not invoked since the last drain began ({where})")

    def iterate(where):
        before = len(executed)
        had = len(pending())
        state["drain_mark"] = waker.n
        try:
            r.runUntilCurrent()
        except ScriptError as e:
            ctx.violation("det-call-exception-escaped-runUntilCurrent", case,
                          f"{e!r} raised by a call propagated out of runUntilCurrent ({where})")
        if had and len(executed) == before:
            ctx.violation("det-queued-calls-but-iteration-ran-none", case,
                          f"{had} calls queued, none ran in runUntilCurrent ({where})")
        check(where)

    niter = 0
    for k, op in enumerate(case["ops"]):
        if op[0] == "call":
            issue(op[1], op[2])
            check(f"after op {k}")
        elif op[0] == "stop":
            if not stop_called[0]:
                stop_called[0] = True
                r.stop()
        else:
            niter += 1
            iterate(f"op {k}")
    budget = len(runs) + 3
    while pending():
        budget -= 1
        if budget < 0:
            ctx.violation("det-call-never-ran", case, f"calls {pending()} still queued at closure")
        iterate("closure")
    # two more iterations: nothing may run again
    for _ in range(2):
        iterate("post-closure")
    if any(n != 1 for n in runs.values()):
        ctx.violation("det-not-exactly-once", case, f"{runs}")
    if not r.running:
        raise HarnessError("deterministic reactor stopped running although its shutdown is held open")
    # let the shutdown finish (harness hygiene)
    if not stop_called[0]:
        r.stop()
    r.runUntilCurrent()
    held.callback(None)
    if state["during_shutdown"]:
        ctx.count("det: call issued after stop() while a before-shutdown trigger holds the reactor running")
    switches = sum(1 for a, b in zip(executed, executed[1:]) if a[0] != b[0])
    ctx.count("det: histories")
    if state["nested"]:
        ctx.count("det: call issued from inside a running call")
    if any(op[0] == "call" and op[2][0] for op in case["ops"]):
        ctx.count("det: raising call")
    if any(len(v) >= 2 for v in shapes.values()):
        ctx.count("det: one issuer mixes call shapes (positional/keyword/mixed/no-args)")
    if len(issued) >= 2 and switches >= 2 and state["nested"]:
        ctx.nontrivial(dumps(case))
        ctx.count("det: nontrivial")
        if len(ctx.samples) < 2:
            ctx.sample(case)


def _spec_from_int(x):
    """small int -> [raises, children, shape]"""
    raises = x & 1
    nchild = (x >> 1) % 3
    shape = (x >> 7) & 3
    kids = []
    y = x >> 3
    for j in range(nchild):
        kids.append([y & 1, [[0, [], (shape + j) & 3]] if (y >> 1) & 1 else [], (shape + j + 1) & 3])
        y >>= 2
    return [raises, kids, shape]


def _det_histories():
    def dec(xs):
        ops = []
        for x in xs:
            if x % 3 == 0:
                ops.append(["stop"] if (x // 3) % 16 == 15 else ["iterate"])
            else:
                ops.append(["call", (x // 3) % 4, _spec_from_int(x // 12)])
        return dict(layer="det", ops=ops)
    return st.lists(st.integers(0, 12 * 512 - 1), max_size=40).map(dec)


_DET_ALPHABET = [
    ["iterate"],
    ["stop"],
    ["call", 0, [0, [], POS]],
    ["call", 0, [0, [], KW]],
    ["call", 1, [0, [], NOARGS]],
    ["call", 0, [0, [[0, [], KW]], MIXED]],
    ["call", 1, [1, [], KW]],
    ["call", 1, [1, [[0, [[0, [], POS]], KW], [1, [], POS]], POS]],
    ["call", 2, [0, [[1, [], NOARGS]], KW]],
]


def _det_small(depth):
    for d in range(1, depth + 1):
        for ops in itertools.product(_DET_ALPHABET, repeat=d):
            yield dict(layer="det", ops=[list(o) for o in ops])


# ==========================================================================
# (b) real reactors

HEART = 0.25      # heartbeat period (keeps a broken waker from hanging the run)
SAFETY = 2.0      # unrelated timer during the idle probe
IDLE_TRIES = 3
BAD_ROUNDS = 3     # repetitions of the bad-descriptor fault (which readers a reactor scans first is not controllable)
WATCHDOG = 600.0  # hard stop: harness error, never a violation


def _make_reactor(kind):
    if kind == "select":
        from twisted.internet.selectreactor import SelectReactor
        return SelectReactor()
    if kind == "poll":
        from twisted.internet.pollreactor import PollReactor
        return PollReactor()
    if kind == "epoll":
        from twisted.internet.epollreactor import EPollReactor
        return EPollReactor()
    if kind == "asyncio":
        import asyncio
        from twisted.internet.asyncioreactor import AsyncioSelectorReactor
        loop = asyncio.new_event_loop()
        # scripted calls raise on purpose; if a reactor hands them to the loop
        # directly, keep asyncio's default handler from printing tracebacks
        loop.set_exception_handler(lambda loop, context: None)
        return AsyncioSelectorReactor(loop)
    raise HarnessError("unknown reactor " + kind)


def _dispose(kind, r):
    """Release the fds of a finished reactor (harness hygiene only)."""
    try:
        w = getattr(r, "waker", None)
        if w is not None and hasattr(w, "connectionLost"):
            from twisted.python.failure import Failure
            w.connectionLost(Failure(Exception("harness cleanup")))
    except Exception:
        pass
    try:
        if kind == "epoll":
            r._poller.close()
        if kind == "asyncio":
            r._asyncioEventloop.close()
    except Exception:
        pass


def run_real(ctx, case):
    kind = case["reactor"]
    plan = case["threads"]           # [[ [pause, flags], ... ], ...]
    do_idle = bool(case.get("idle", True))
    do_shutdown = bool(case.get("shutdown", False))
    idle_when = case.get("idle_when", "running")
    r = _make_reactor(kind)
    main_ident = threading.get_ident()
    executed = []                    # (issuer, seq, thread ident); list.append is atomic
    issued = [0] * len(plan)         # per producer: number of calls whose callFromThread returned
    nested_issued = [0]
    n_io = int(case.get("io", 0))            # extra pipe readers registered with the reactor
    n_bad = int(case.get("badfd", 0))         # how many of them go bad behind the reactor's back
    restart = bool(case.get("restart", False))  # first run ended by crash() from an I/O callback, then run() again
    S = dict(beats=0, io_beats=0, stop=False, hb=None, safety=None, safety_fired=-1,
             idle_results=[], problems=[], harness=[], held=None, finished=False,
             force_crash=False, run_done=False, crash_requested=False, runs=1, readers=[],
             lost_readers=0, bad_before_waker=0)
    ev = dict(started=threading.Event(), armed=threading.Event(), probed=threading.Event(),
              shutting=threading.Event(), pong=threading.Event())

    def finish():
        # reactor thread: end the run (politely first, by crash() if asked again)
        if S["force_crash"] and r.running:
            r.crash()
            return
        if S["finished"]:
            return
        S["finished"] = True
        if S["held"] is not None:
            S["held"].callback(None)      # lets the held shutdown finish
        else:
            r.stop()

    class PipeReader:
        """A reader on a pipe.  Reader 0 is the harness's own I/O channel: 'p' =
        ping (an iteration clock that does not depend on timed calls), 'c' = call
        reactor.crash() from this I/O callback."""

        def __init__(self, idx):
            self.idx = idx
            self.rfd, self.wfd = os.pipe()
            os.set_blocking(self.rfd, False)
            self.bad = False

        def fileno(self):
            return -1 if self.bad else self.rfd

        def logPrefix(self):
            return f"c13-reader-{self.idx}"

        def doRead(self):
            try:
                data = os.read(self.rfd, 4096)
            except (BlockingIOError, OSError):
                return
            for b in data:
                if b == ord("c"):
                    S["crash_requested"] = True
                    r.crash()
                else:
                    S["io_beats"] += 1
            ev["pong"].set()
            if S["stop"]:
                finish()

        def connectionLost(self, reason):
            S["lost_readers"] += 1
            self.close()

        def go_bad(self):
            # the descriptor disappears behind the reactor's back (as a socket
            # closed elsewhere does): fileno() is -1 from now on
            self.close()

        def close(self):
            if not self.bad:
                self.bad = True
                for fd in (self.rfd, self.wfd):
                    try:
                        os.close(fd)
                    except OSError:
                        pass

    def ping(timeout=5.0):
        """One I/O round trip through reader 0; True if the reactor answered."""
        rd = S["readers"][0] if S["readers"] else None
        if rd is None or rd.bad:
            return False
        ev["pong"].clear()
        before = S["io_beats"]
        try:
            os.write(rd.wfd, b"p")
        except OSError:
            return False
        t0 = time.monotonic()
        while S["io_beats"] == before and time.monotonic() - t0 < timeout:
            ev["pong"].wait(0.05)
        return S["io_beats"] != before

    def fn(issuer, seq, extra):
        flags = extra
        executed.append((issuer, seq, threading.get_ident()))
        if flags & NEST:
            k = nested_issued[0]
            nested_issued[0] += 1
            _issue_shaped(r, (k + seq) & 3, fn, "R", k, 0)
        if flags & RAISE:
            raise ScriptError(f"{issuer}:{seq}")

    def beat():
        S["beats"] += 1
        if S["stop"]:
            S["hb"] = None
            finish()
            return
        S["hb"] = r.callLater(HEART, beat)

    def producer(i):
        try:
            for seq, call in enumerate(plan[i]):
                pause, flags = call[0], call[1]
                shape = call[2] if len(call) > 2 else POS
                if pause == 1:
                    time.sleep(0)
                elif pause == 2:
                    time.sleep(0.0002)
                elif pause == 3:
                    time.sleep(0.003)
                _issue_shaped(r, shape, fn, i, seq, flags)
                issued[i] = seq + 1
        except BaseException as e:          # twisted raised in a producer thread
            S["problems"].append(("producer-raised", f"thread {i}: {type(e).__name__}: {e}"))

    def clocks():
        return S["beats"], S["io_beats"]

    def elapsed(start):
        """Reactor iterations proven since `start`: heartbeat timer firings or
        answered I/O pings, whichever clock advanced more."""
        return max(S["beats"] - start[0], S["io_beats"] - start[1])

    def wait_beats(n):
        """Block until the reactor has iterated n more times (logical clocks)."""
        start = clocks()
        t0 = time.monotonic()
        i = 0
        while elapsed(start) < n:
            time.sleep(0.02)
            i += 1
            if i % 25 == 0:
                ping(1.0)
            if time.monotonic() - t0 > WATCHDOG / 2:
                S["harness"].append("reactor stopped iterating (no heartbeat, no I/O answer)")
                return False
        return True

    def sentinel(tag):
        """Issue a call and wait for it; lost if the reactor provably iterated
        >=4 more times (timer heartbeats or answered I/O pings) after the issue."""
        done = threading.Event()
        r.callFromThread(lambda: (executed.append(("S", tag, threading.get_ident())), done.set()))
        start = clocks()
        t0 = time.monotonic()
        i = 0
        while not done.wait(0.02):
            i += 1
            if i % 25 == 0:
                ping(1.0)       # also keeps a reactor whose timers died iterating
            if elapsed(start) >= 4:
                if done.wait(0.05):
                    break
                S["problems"].append(("real-call-lost",
                                      f"sentinel {tag} issued, reactor iterated {elapsed(start)} more times "
                                      f"(run {S['runs']}), call never ran"))
                return False
            if time.monotonic() - t0 > WATCHDOG / 2:
                S["harness"].append("sentinel wait: reactor stopped iterating")
                return False
        return True

    def make_bad(rnd):
        # reactor thread: n_bad freshly registered readers lose their descriptors
        victims = []
        for _ in range(n_bad):
            rd = PipeReader(len(S["readers"]))
            S["readers"].append(rd)
            r.addReader(rd)
            victims.append(rd)
        # where do they stand in the reactor's own listing of its readers?
        try:
            listing = r.getReaders()
            if r.waker in listing:
                w = listing.index(r.waker)
                if any(rd in listing and listing.index(rd) < w for rd in victims):
                    S["bad_before_waker"] += 1
        except Exception:
            pass
        for rd in victims:
            rd.go_bad()
        ev["armed"].set()

    # --- idle probe pieces (run in the reactor thread) -------------------
    def arm_idle(k):
        if S["hb"] is not None and S["hb"].active():
            S["hb"].cancel()
        S["hb"] = None
        S["safety"] = r.callLater(SAFETY, safety_fired, k)
        ev["armed"].set()

    def safety_fired(k):
        S["safety_fired"] = k
        # keep the reactor turning so that the run ends whatever happens
        S["hb"] = r.callLater(HEART, beat)

    def probe(k):
        sf = S["safety"]
        late = S["safety_fired"] == k or r.seconds() >= sf.getTime()
        if sf.active():
            sf.cancel()
        if S["hb"] is None or not S["hb"].active():
            S["hb"] = r.callLater(HEART, beat)
        S["idle_results"].append(late)
        executed.append(("P", k, threading.get_ident()))
        ev["probed"].set()

    def begin_shutdown():
        # reactor thread: stop(), with a 'before shutdown' trigger that keeps
        # the reactor running until the harness releases it
        from twisted.internet.defer import Deferred
        S["held"] = Deferred()
        r.addSystemEventTrigger("before", "shutdown", lambda: S["held"])
        r.stop()
        ev["shutting"].set()

    def idle_round(base):
        """IDLE_TRIES attempts; returns the list of 'late' verdicts."""
        res = []
        for k in range(base, base + IDLE_TRIES):
            ev["armed"].clear()
            ev["probed"].clear()
            r.callFromThread(arm_idle, k)
            if not ev["armed"].wait(WATCHDOG / 4):
                S["harness"].append("idle probe could not be armed")
                break
            # let the reactor reach its poll and let wake-ups left over from the
            # cancelled heartbeat pass (sensitivity only, not part of the oracle)
            time.sleep(HEART + 0.05)
            r.callFromThread(probe, k)
            if not ev["probed"].wait(WATCHDOG / 4):
                S["harness"].append("idle probe never ran")
                break
            res.append(S["idle_results"][-1])
            if not res[-1]:
                break
        return res

    def coordinator():
        try:
            ev["started"].wait()
            if restart:
                # lifecycle: the first run is ended by crash() called from an
                # I/O callback while a timed call is pending; everything else
                # happens in the second run() of the same reactor
                if sentinel("pre"):
                    ev["started"].clear()
                    os.write(S["readers"][0].wfd, b"c")
                    if not ev["started"].wait(WATCHDOG / 4):
                        S["harness"].append("reactor did not start a second time")
                        return
            threads = [threading.Thread(target=producer, args=(i,), name=f"c13-prod-{i}", daemon=True)
                       for i in range(len(plan))]
            for t in threads:
                t.start()
            for t in threads:
                t.join()
            ok = sentinel(0) and sentinel(1) and wait_beats(2)
            S["quiesced"] = ok
            # One idle-probe round per run, either before or after stop(): a
            # cancelled safety timer of an earlier round would still wake the
            # reactor once and could hide a missing wake-up in a later round.
            if ok and do_idle and idle_when == "running":
                S["idle_running"] = idle_round(0)
                wait_beats(1)
            if ok and n_bad and not S["harness"]:
                # fault: descriptors of registered readers go bad; the reactor
                # has to get rid of them and keep serving callFromThread
                good = True
                for rnd in range(BAD_ROUNDS):
                    ev["armed"].clear()
                    r.callFromThread(make_bad, rnd)
                    if not ev["armed"].wait(WATCHDOG / 4):
                        S["harness"].append("bad-descriptor fault could not be injected")
                        good = False
                        break
                    if not (sentinel(3 + rnd) and wait_beats(2)):
                        good = False
                        break
                if good and do_idle and idle_when == "after-bad-fd":
                    S["idle_badfd"] = idle_round(200)
                    wait_beats(1)
            if ok and do_shutdown and not S["harness"]:
                # the reactor is still running while its shutdown is held open:
                # the same guarantees apply
                r.callFromThread(begin_shutdown)
                if not ev["shutting"].wait(WATCHDOG / 4):
                    S["harness"].append("held shutdown could not be started")
                else:
                    wait_beats(1)
                    if not r.running:
                        S["harness"].append("reactor not running during held shutdown")
                    elif sentinel(2) and do_idle and idle_when == "shutdown":
                        S["idle_shutdown"] = idle_round(100)
                        wait_beats(1)
        except BaseException as e:
            S["problems"].append(("coordinator-raised", f"{type(e).__name__}: {e}"))
        finally:
            S["stop"] = True
            try:
                r.callFromThread(lambda: None)
            except BaseException:
                pass
            # make sure the run ends even if timed calls or wake-ups are broken:
            # I/O pings reach finish(); after a grace period it crash()es
            n = 0
            while not S["run_done"] and n < 400:
                n += 1
                if n == 30:
                    S["force_crash"] = True
                ping(0.2)
                time.sleep(0.05)

    def on_start():
        if not S["readers"]:
            for i in range(1 + n_io):
                rd = PipeReader(i)
                S["readers"].append(rd)
                r.addReader(rd)
        if S["hb"] is None or not S["hb"].active():
            S["hb"] = r.callLater(HEART, beat)
        ev["started"].set()

    def watchdog():
        sys.stderr.write(f"harness: C13 watchdog expired ({kind}); a reactor run hung (exit 2)\n")
        sys.stderr.flush()
        os._exit(2)

    wd = threading.Timer(WATCHDOG, watchdog)
    wd.daemon = True
    co = threading.Thread(target=coordinator, name="c13-coordinator", daemon=True)
    old_si = sys.getswitchinterval()
    sys.setswitchinterval(1e-5)
    try:
        wd.start()
        r.callWhenRunning(on_start)
        co.start()
        r.run(installSignalHandlers=False)
        if restart and S["crash_requested"] and not S["stop"]:
            S["runs"] = 2
            # (sensitivity only) let the due time of the pending timed call pass
            time.sleep(HEART + 0.1)
            r.callWhenRunning(on_start)
            r.run(installSignalHandlers=False)
        S["run_done"] = True
        co.join(WATCHDOG)
    finally:
        S["run_done"] = True
        sys.setswitchinterval(old_si)
        wd.cancel()
        for rd in S["readers"]:
            rd.close()
        _dispose(kind, r)
    if co.is_alive():
        raise HarnessError("C13 coordinator thread did not end")
    left = [t.name for t in threading.enumerate() if t.name.startswith("c13-")]
    if left:
        raise HarnessError(f"threads outlived the case: {left}")
    if S["harness"]:
        raise HarnessError("; ".join(S["harness"]))

    # ---- oracle ------------------------------------------------------------
    for sig, detail in S["problems"]:
        ctx.violation(sig, case, detail)
    wrong = [(who, seq) for who, seq, ident in executed if ident != main_ident]
    if wrong:
        ctx.violation("real-ran-outside-reactor-thread", case, f"{len(wrong)} calls, e.g. {wrong[:3]}")
    per = {}
    for who, seq, _ in executed:
        per.setdefault(who, []).append(seq)
    for i, n in enumerate(issued):
        got = per.get(i, [])
        want = list(range(n))
        if sorted(got) != want:
            dup = sorted({s for s in got if got.count(s) > 1})[:5] if len(got) < 5000 else "?"
            missing = sorted(set(want) - set(got))[:5]
            if len(got) > len(set(got)):
                ctx.violation("real-call-ran-twice", case, f"{kind}: producer {i}: duplicates {dup}")
            ctx.violation("real-call-lost", case,
                          f"{kind}: producer {i} issued {n}, executed {len(got)}; missing e.g. {missing}")
        if got != want:
            k = next(j for j, (a, b) in enumerate(zip(got, want)) if a != b)
            ctx.violation("real-per-thread-order", case,
                          f"{kind}: producer {i}: executed order diverges at position {k}: {got[max(0, k - 2):k + 3]}")
    gotR = per.get("R", [])
    if sorted(gotR) != list(range(nested_issued[0])):
        ctx.violation("real-nested-call-not-once", case, f"{kind}: issued {nested_issued[0]}, ran {len(gotR)}")
    if gotR != sorted(gotR):
        ctx.violation("real-per-thread-order", case, f"{kind}: calls issued by the reactor thread ran out of order")
    for key, sig, what in (("idle_running", "real-idle-call-waited-for-unrelated-timer", "the reactor idled"),
                           ("idle_shutdown", "real-idle-call-during-held-shutdown-waited-for-unrelated-timer",
                            "the reactor idled after stop() with its shutdown held open by a before-shutdown trigger"),
                           ("idle_badfd", "real-idle-call-after-bad-descriptor-waited-for-unrelated-timer",
                            "the reactor idled after descriptors of other registered readers had gone bad")):
        res = S.get(key)
        if res is None:
            continue
        if len(res) == IDLE_TRIES and all(res):
            ctx.violation(sig, case,
                          f"{kind}: in {IDLE_TRIES} attempts a call issued while {what} ran only once the unrelated {SAFETY}s timer was due")
        ctx.count(f"real: {key} probes", len(res))
        ctx.count(f"real: {key} probes late", sum(res))
    # ---- bookkeeping ------------------------------------------------------
    order = [who for who, _, _ in executed if isinstance(who, int)]
    switches = sum(1 for a, b in zip(order, order[1:]) if a != b)
    ctx.count(f"real[{kind}] runs")
    if S["runs"] == 2:
        ctx.count(f"real[{kind}] workload ran in the second run() after crash() from an I/O callback")
    if n_bad:
        ctx.count(f"real[{kind}] runs with descriptors of registered readers going bad")
        ctx.count("real: readers disconnected by the reactor after going bad", S["lost_readers"])
        ctx.count(f"real[{kind}] fault rounds in which a bad reader preceded the waker in getReaders()", S["bad_before_waker"])
    ctx.count("real: extra readers registered", n_io)
    ctx.count(f"real[{kind}] calls", len(executed))
    ctx.count(f"real[{kind}] issuer switches in executed order", switches)
    ctx.count("real: calls issued from the reactor thread", nested_issued[0])
    nshape = [0, 0, 0, 0]
    changes = 0
    for calls in plan:
        prev = None
        for call in calls:
            sh = call[2] if len(call) > 2 else POS
            nshape[sh] += 1
            if prev is not None and sh != prev:
                changes += 1
            prev = sh
    for k in range(4):
        ctx.count(f"real: {SHAPES[k]} calls", nshape[k])
    ctx.count(f"real[{kind}] same-thread consecutive calls of different shape", changes)
    if len(plan) >= 2 and switches > len(plan):
        ctx.nontrivial(dumps(case))
        ctx.count("real: nontrivial")
        if len(ctx.samples) < 4:
            ctx.sample(dict(reactor=kind, threads=[len(p) for p in plan], switches=switches,
                            note="sizes only; full case in replay files"))


def _workload(seed, kind, idx, nthreads, ncalls):
    """Deterministic pseudo-random workload from blake2b(seed, kind, idx)."""
    out = []
    for t in range(nthreads):
        h = b""
        ctr = 0
        while len(h) < 2 * ncalls:
            h += hashlib.blake2b(f"{seed}/{kind}/{idx}/{t}/{ctr}".encode(), digest_size=64).digest()
            ctr += 1
        calls = []
        for b, b2 in zip(h[:ncalls], h[ncalls:2 * ncalls]):
            p = b & 31
            pause = 1 if p in (1, 2, 3) else 2 if p in (4, 5) else 3 if p == 6 and (b >> 7) else 0
            f = (b >> 5) & 3
            flags = (NEST if f == 1 else 0) | (RAISE if f == 2 and (b & 1) else 0)
            # call shape: half positional, the rest keyword / mixed / no-args
            shape = POS if b2 & 1 else (KW, KW, MIXED, NOARGS)[(b2 >> 1) & 3]
            calls.append([pause, flags, shape])
        out.append(calls)
    j = idx % 10
    return dict(layer="real", reactor=kind, threads=out, idle=True, shutdown=True,
                io=6, badfd=12 if j == 2 else 0, restart=(j == 0),
                idle_when=("running", "shutdown", "after-bad-fd")[j % 3])


REACTORS = ["select", "poll", "epoll", "asyncio"]


def run_case(ctx, case):
    if case.get("layer") == "det":
        return run_det(ctx, case)
    return run_real(ctx, case)


def run(ctx):
    # (a) deterministic — single process, no threads yet
    enumerate_run(ctx, _det_small(ctx.pick(5, 6)), run_case)
    if ctx.has_violation():
        return
    hyp_run(ctx, _det_histories(), run_case, ctx.pick(1500, 30000), label="det")
    if ctx.has_violation():
        return
    ctx.extra["det_small_scope"] = dict(alphabet=len(_DET_ALPHABET), max_depth=ctx.pick(5, 6), complete=True)
    ctx.exhaustive = False
    # (b) real reactors — in this process (threads must not be mixed with forked workers)
    if ctx.tier == "quick":
        shapes = [(2, 300), (8, 150), (16, 60)]
        reps = 1
    else:
        shapes = [(1, 10000), (4, 2500), (16, 625)]
        reps = 5
    cases = []
    for rep in range(reps):
        for kind in REACTORS:
            for j, (nt, nc) in enumerate(shapes):
                cases.append(_workload(ctx.seed, kind, rep * 10 + j, nt, nc))
    ctx.extra["real_runs"] = len(cases)
    enumerate_run(ctx, cases, run_case)
