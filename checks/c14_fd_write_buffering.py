"""C14 — FileDescriptor write buffering vs an adversarial OS write and a byte-count model.

A real ``twisted.internet.abstract.FileDescriptor`` subclass is driven by a plain
list of operations (write, writeSequence, register/unregister a scripted push or
pull producer, pauseProducing/resumeProducing of the transport itself,
loseConnection, loseWriteConnection, doWrite with a generated acceptance count
or an OS error).  The harness plays the reactor (reader/writer sets, calls
doWrite only while the descriptor is a registered writer, turns a non-None
doWrite result into connectionLost like ``_disconnectSelectable`` does).

The oracle never looks at dataBuffer/offset/_tempDataBuffer: the n-th byte ever
written is PATTERN[n], so "exactly the bytes written, in order, each once" is a
comparison of everything offered to writeSomeData with a slice of PATTERN.
"""
import errno
import hashlib
import itertools

from hypothesis import strategies as st

from lib.core import hyp_run, enumerate_run

META = dict(
    property="C14",
    level="fault_enumeration",
    technique="op-list histories on a real FileDescriptor with a harness-owned reactor and an adversarial writeSomeData (zero / partial / full acceptance, OS error), checked against a byte-position model; complete enumeration of short histories over a 13-op alphabet with tiny bufferSize/SEND_LIMIT plus Hypothesis histories up to 1 MiB writes",
    level_text="Every history of length <= 5 (quick) / <= 6 (thorough) over a 13-operation alphabet with bufferSize=2, SEND_LIMIT=3 is executed, each followed by a fair drain; Hypothesis adds longer histories with five (bufferSize, SEND_LIMIT) configurations including the defaults and writes up to 1 MiB. The fault dimension is the acceptance count of every OS write (0, 1, all-but-one, all, limits +-1, random) and an OS error at any doWrite. Exhaustive only for the stated small scope; sampled beyond.",
    level_note="Trusted: the harness' reactor double (writer-set discipline and the disconnect path copied from posixbase._disconnectSelectable), the scripted producers, Python bytes. Liveness ('eventually closed') is checked as quiescence under a fair continuation (accept-everything doWrites while the descriptor asks to write).",
    design_ref="§5 C14",
    assumptions=["socket-level layers: the operating system is a scripted socket object (send/sendmsg return counts or raise EWOULDBLOCK / ENOBUFS / EINTR / EPIPE); the real tcp.Connection.writeSomeData and unix._SendmsgMixin.writeSomeData run on top of it"],
    rule="case = (bufferSize, SEND_LIMIT, op list). non-trivial = the history contains a zero-byte acceptance with data pending and a partial acceptance, at least one of them at a two-level moment (data left over from an earlier doWrite and newer writes queued behind it); distinct by the whole case.",
)

PATTERN = hashlib.shake_256(b"verif C14 pattern").digest(8 * 1024 * 1024)
PLEN = len(PATTERN)

ACCEPT_ALL = -1
ACCEPT_ALL_BUT_ONE = -2
ACCEPT_ERR = -3
# socket-level layers only: how the OS says "nothing accepted now" / gets interrupted
ACCEPT_EWOULDBLOCK = -4
ACCEPT_ENOBUFS = -5
ACCEPT_EINTR_THEN_ALL = -6
TRANSIENT = (ACCEPT_EWOULDBLOCK, ACCEPT_ENOBUFS)
ONESHOT = "writesequence-oneshot-iterable-dropped"


class _Reactor:
    def __init__(self):
        self.readers = set()
        self.writers = set()

    def addReader(self, x):
        self.readers.add(x)

    def addWriter(self, x):
        self.writers.add(x)

    def removeReader(self, x):
        self.readers.discard(x)

    def removeWriter(self, x):
        self.writers.discard(x)


class _OneShot:
    """A one-shot iterable (like a generator): iterating it consumes it."""

    def __init__(self, items):
        self._it = iter(items)

    def __iter__(self):
        return self._it


class _Producer:
    def __init__(self, h, streaming, script):
        self.h = h
        self.streaming = streaming
        self.script = list(script)
        self.paused = False
        self.resumes = 0
        self.pauses = 0
        self.stops = 0

    def pauseProducing(self):
        h = self.h
        self.pauses += 1
        h.ctx.count("producer paused")
        if not self.streaming:
            h.fail("pull-producer-paused", "pauseProducing called on a non-streaming producer")
        if h.prod is not self:
            h.fail("pause-unregistered-producer", "pauseProducing on a producer that is not registered")
        # necessary condition that holds for any correct accounting: whatever
        # the transport counts as buffered was written since the buffer was
        # last empty.
        if h.unsent() + h.acc_since_empty <= h.bs:
            h.fail("paused-below-buffer-size",
                   f"pauseProducing with {h.unsent()} unsent bytes (+{h.acc_since_empty} already handed over since "
                   f"the buffer was last empty), bufferSize={h.bs}")
        self.paused = True

    def resumeProducing(self):
        h = self.h
        self.resumes += 1
        h.ctx.count("producer resumed")
        if h.prod is not self:
            h.fail("resume-unregistered-producer", "resumeProducing on a producer that is not registered")
        if h.in_register is self:
            if self.streaming:
                h.fail("streaming-resumed-on-register", "registerProducer resumed a streaming producer")
        elif h.in_dowrite and h.drained:
            if self.streaming and not self.paused:
                # happens on the unchanged tree (producerPaused survives
                # unregisterProducer); an extra resumeProducing at drain time is
                # not excluded by the statement, so it is only counted.
                h.ctx.count("resumeProducing at drain on a streaming producer that was not paused")
        else:
            h.fail("resume-without-drain",
                   f"resumeProducing outside registration/drain (unsent={h.unsent()}, in_dowrite={h.in_dowrite})")
        self.paused = False
        if self.script:
            sizes, then = self.script.pop(0)
            for n in sizes:
                h.op_write(n)
            if then in ("unreg", "unreg+lose"):
                h.op_unreg()
            if then in ("lose", "unreg+lose"):
                h.op_lose()

    def stopProducing(self):
        self.stops += 1


_FD = []


def _fd_class():
    if not _FD:
        from twisted.internet import abstract

        class FD(abstract.FileDescriptor):
            connected = 1

            def writeSomeData(self, data):
                return self.h.os_write(data)

            def _closeWriteConnection(self):
                self.h.on_write_closed()

            def connectionLost(self, reason):
                self.h.on_connection_lost(reason)
                abstract.FileDescriptor.connectionLost(self, reason)
                self.h.after_connection_lost()

        _FD.append(FD)
    return _FD[0]


class _Sock:
    """The operating system at the socket API: every send()/sendmsg() is decided by the case."""

    def __init__(self, h):
        self.h = h
        self.closed = False
        self.shut = []

    def setblocking(self, flag):
        pass

    def fileno(self):
        return -1 if self.closed else 9

    def send(self, data):
        return self.h.sock_send(data)

    def sendmsg(self, buffers, ancdata=(), flags=0):
        return self.h.sock_sendmsg(buffers, ancdata)

    def shutdown(self, how):
        self.shut.append(how)

    def close(self):
        self.closed = True

    def setsockopt(self, *a):
        pass

    def getsockopt(self, *a):
        return 0


_SOCK_T = {}


def _sock_transport_class(layer):
    """tcp.Connection (layer 'tcp') or unix._SendmsgMixin + tcp.Connection (layer 'unix',
    composed like unix.Server) with the same observation hooks as the plain descriptor."""
    if layer not in _SOCK_T:
        from twisted.internet import tcp, unix

        class Hooks:
            def _closeWriteConnection(self):
                self.h.on_write_closed()
                tcp.Connection._closeWriteConnection(self)

            def connectionLost(self, reason):
                if not hasattr(self, "socket"):
                    return
                self.h.on_connection_lost(reason)
                tcp.Connection.connectionLost(self, reason)
                self.h.after_connection_lost()

        if layer == "tcp":
            class T(Hooks, tcp.Connection):
                pass
        else:
            class T(Hooks, unix._SendmsgMixin, tcp.Connection):
                _writeSomeDataBase = tcp.Connection

                def __init__(self, skt, protocol, reactor):
                    unix._SendmsgMixin.__init__(self)
                    tcp.Connection.__init__(self, skt, protocol, reactor)
        _SOCK_T[layer] = T
    return _SOCK_T[layer]


class _H:
    """One history: the real descriptor, the reactor double and the model."""

    def __init__(self, ctx, case):
        from twisted.internet import main, error
        self.ctx = ctx
        self.case = case
        self.main = main
        self.error = error
        self.bs = case["bs"]
        self.sl = case["sl"]
        self.reactor = _Reactor()
        self.layer = case.get("layer", "fd")
        if self.layer == "fd":
            self.fd = _fd_class()(self.reactor)
        else:
            from twisted.internet.protocol import Protocol
            self.sock = _Sock(self)
            self.fd = _sock_transport_class(self.layer)(self.sock, Protocol(), self.reactor)
            self.fd.connected = 1
        self.fd.h = self
        self.fdq = []             # descriptors queued with sendFileDescriptor (unix layer), not yet sent
        self.fds_sent = []
        self.next_fileno = 100
        self.fd_budget = -1
        self.eintr_done = False
        self.refused_midway = False
        self.fd.bufferSize = self.bs
        self.fd.SEND_LIMIT = self.sl
        self.fd.startReading()
        # model
        self.total = 0            # bytes written while connected and write side open
        self.acc = 0              # bytes accepted by the OS
        self.spans = []           # (start, end, op index, kind) for blame
        self.opi = -1
        self.connected = True
        self.write_closed = False
        self.lose_req = False
        self.losew_req = False
        self.lost = []            # reasons of connectionLost
        self.prod = None
        self.all_prods = []
        self.acc_since_empty = 0
        self.in_dowrite = False
        self.in_register = None
        self.drained = False
        self.accept = None
        self.os_calls = 0
        self.err_returned = None
        self.expect_lost = False
        # non-triviality
        self.leftover_from_prev = 0
        self.written_since_dw = 0
        self.saw_zero = self.saw_partial = self.saw_two_level = False

    # -- helpers ----------------------------------------------------------
    def fail(self, sig, detail):
        # bytes passed through a one-shot iterable never reach the buffer (known
        # finding); whatever is noticed afterwards in such a history is blamed on it.
        lost = [i for s, e, i, kind in self.spans if kind == "iter" and e > self.acc]
        if lost and sig != ONESHOT:
            sig, detail = ONESHOT, (f"bytes of writeSequence(<one-shot iterable>) at op#{lost[0]} never reached "
                                    f"the OS; noticed as: {sig}: {detail}")
        self.ctx.violation(sig, self.case, f"op#{self.opi}: {detail}")

    def unsent(self):
        return self.total - self.acc

    def blame(self, pos):
        for s, e, i, kind in self.spans:
            if s <= pos < e:
                return i, kind
        return None, None

    def data_for(self, n):
        n = max(0, min(n, PLEN - self.total))   # total per case is capped by the pattern length
        return PATTERN[self.total:self.total + n]

    # -- the OS -----------------------------------------------------------
    def os_write(self, data):
        self.os_calls += 1
        if not self.in_dowrite:
            self.fail("os-write-outside-dowrite", "writeSomeData called outside doWrite")
        data = bytes(data)
        n = len(data)
        if not self.connected:
            if n:
                self.fail("os-write-after-close", f"{n} bytes offered to the OS after connectionLost")
        if self.acc + n > self.total or data != PATTERN[self.acc:self.acc + n]:
            # find the first diverging position for the blame
            want = PATTERN[self.acc:self.total]
            p = 0
            m = min(len(want), n)
            while p < m and want[p] == data[p]:
                p += 1
            i, kind = self.blame(self.acc + p)
            if kind == "iter":
                self.fail("writesequence-oneshot-iterable-dropped",
                          f"bytes of writeSequence(<one-shot iterable>) at op#{i} never reached the OS: offered data "
                          f"diverges from the written stream at stream offset {self.acc + p}")
            self.fail("os-bytes-not-the-written-stream",
                      f"data offered to the OS ({n} bytes) is not the written stream continuing at offset {self.acc} "
                      f"(written so far {self.total}); first difference at +{p} (bytes written by op#{i})")
        k = self.accept
        if k == ACCEPT_ERR:
            self.err_returned = self.main.CONNECTION_LOST
            if self.layer != "fd":
                raise OSError(errno.EPIPE, "Broken pipe")
            return self.err_returned
        if k == ACCEPT_EINTR_THEN_ALL:
            if self.layer != "fd" and not self.eintr_done:
                self.eintr_done = True
                self.os_calls -= 1
                self.ctx.count("send() interrupted (EINTR), retried")
                raise OSError(errno.EINTR, "Interrupted system call")
            k = ACCEPT_ALL
        if k == ACCEPT_ALL:
            a = n
        elif k in TRANSIENT:
            a = 0
        elif k == ACCEPT_ALL_BUT_ONE:
            a = max(0, n - 1)
        else:
            a = min(k, n)
        # bookkeeping for the non-triviality rule
        two_level = self.leftover_from_prev > 0 and self.written_since_dw > 0
        if n and a == 0:
            self.saw_zero = True
            self.ctx.count("os accepted zero with data pending")
            if two_level:
                self.saw_two_level = True
                self.ctx.count("os accepted zero at a two-level moment")
        elif 0 < a < self.unsent():
            self.saw_partial = True
            self.ctx.count("os accepted partially")
            if two_level:
                self.saw_two_level = True
                self.ctx.count("os accepted partially at a two-level moment")
        elif n:
            self.ctx.count("os accepted everything pending")
        self.acc += a
        self.acc_since_empty += a
        if self.acc == self.total:
            self.drained = True
            self.acc_since_empty = 0
        if k in TRANSIENT and self.layer != "fd":
            self.ctx.count("send() refused with " + ("EWOULDBLOCK" if k == ACCEPT_EWOULDBLOCK else "ENOBUFS"))
            raise OSError(errno.EWOULDBLOCK if k == ACCEPT_EWOULDBLOCK else errno.ENOBUFS, "no room now")
        return a

    def sock_send(self, data):
        return self.os_write(data)

    def sock_sendmsg(self, buffers, ancdata):
        """One descriptor travelling with one byte of the stream (unix layer)."""
        import struct
        if not self.in_dowrite:
            self.fail("os-write-outside-dowrite", "sendmsg called outside doWrite")
        data = b"".join(bytes(b) for b in buffers)
        fileno = struct.unpack("i", ancdata[0][2])[0]
        if self.fd_budget == 0:
            # the kernel buffer fills up part-way through the descriptor queue
            self.ctx.count("sendmsg() refused" + (" after earlier descriptors of the same doWrite went out"
                                                  if self.fds_this_dowrite else " on the first descriptor"))
            if self.fds_this_dowrite:
                self.refused_midway = True
            raise OSError(errno.ENOBUFS if self.accept == ACCEPT_ENOBUFS else errno.EWOULDBLOCK, "no room now")
        if self.fd_budget > 0:
            self.fd_budget -= 1
        if len(data) != 1 or self.acc + 1 > self.total or data != PATTERN[self.acc:self.acc + 1]:
            self.fail("os-bytes-not-the-written-stream",
                      f"sendmsg carried {data!r} with descriptor {fileno}; the stream continues at offset {self.acc} "
                      f"with {PATTERN[self.acc:self.acc + 1]!r} (written so far {self.total})")
        if not self.fdq or self.fdq[0] != fileno:
            self.fail("descriptor-sent-twice-or-out-of-order", f"descriptor {fileno} sent, queue is {self.fdq}")
        self.fdq.pop(0)
        self.fds_sent.append(fileno)
        self.fds_this_dowrite += 1
        self.ctx.count("descriptor sent with one stream byte")
        self.acc += 1
        self.acc_since_empty += 1
        if self.acc == self.total:
            self.drained = True
            self.acc_since_empty = 0
        return 1

    def op_sendfd(self):
        """sendFileDescriptor: only legal with at least as many unsent bytes as queued descriptors."""
        if self.layer != "unix" or not self.connected or self.write_closed or len(self.fdq) >= 20 \
                or len(self.fdq) + 1 > self.unsent():
            self.ctx.count("sendFileDescriptor skipped (not legal here)")
            return
        self.fdq.append(self.next_fileno)
        self.fd.sendFileDescriptor(self.next_fileno)
        self.next_fileno += 1
        self.ctx.count("sendFileDescriptor")
        self._writer_obligation()

    # -- observed events ----------------------------------------------------
    def on_write_closed(self):
        self.ctx.count("write side closed (half-close)")
        if not self.losew_req:
            self.fail("half-close-not-requested", "_closeWriteConnection without loseWriteConnection")
        if self.unsent():
            self.fail("half-close-with-data-pending", f"write side closed with {self.unsent()} bytes not handed over")
        p = self.prod
        if p is not None and (not p.streaming or p.paused):
            self.fail("half-close-with-producer-waiting", "write side closed while a pull / paused producer is registered")
        self.write_closed = True

    def on_connection_lost(self, reason):
        self.lost.append(reason)
        if len(self.lost) > 1:
            self.fail("connection-lost-twice", "connectionLost called twice")
        if not self.expect_lost:
            # the descriptor closed itself: only legal for loseConnection after a finished half-close
            if not (self.lose_req and self.write_closed):
                self.fail("self-close-unexpected", f"descriptor called its own connectionLost({reason.value!r})")
            if not reason.check(self.error.ConnectionDone):
                self.fail("self-close-wrong-reason", repr(reason.value))
            if self.unsent():
                self.fail("closed-with-data-pending", f"closed with {self.unsent()} bytes not handed over")
            self.ctx.count("closed by loseConnection after half-close")
        self.connected = False

    # -- operations -------------------------------------------------------
    def _account_write(self, n, kind):
        """Model side of one chunk; returns the bytes to write."""
        data = self.data_for(n)
        if self.connected and not self.write_closed and data:
            self.spans.append((self.total, self.total + len(data), self.opi, kind))
            self.total += len(data)
            self.written_since_dw += len(data)
            return data, len(data)
        return data, 0

    def _pause_obligation(self, added):
        p = self.prod
        if added and p is not None and p.streaming and self.unsent() > self.bs and not p.paused:
            self.fail("streaming-producer-not-paused",
                      f"{self.unsent()} unsent bytes > bufferSize {self.bs} after a write, streaming producer not paused")

    def op_write(self, n):
        data, added = self._account_write(n, "w")
        self.fd.write(data)
        self._pause_obligation(added)
        self._writer_obligation()

    def op_writeseq(self, sizes, kind):
        chunks, added = [], 0
        for n in sizes:
            d, a = self._account_write(n, kind)
            chunks.append(d)
            added += a
        if kind == "tuple":
            arg = tuple(chunks)
        elif kind == "iter":
            arg = _OneShot(chunks)
            self.ctx.count("writeSequence(one-shot iterable)")
        else:
            arg = chunks
        self.fd.writeSequence(arg)
        if kind != "iter":
            self._pause_obligation(added)
            self._writer_obligation()

    def _writer_obligation(self):
        if self.connected and self.unsent() and self.fd not in self.reactor.writers:
            if self.blame(self.acc)[1] == "iter":
                self.fail("writesequence-oneshot-iterable-dropped",
                          "bytes of writeSequence(<one-shot iterable>) pending but the descriptor does not ask to write")
            self.fail("data-pending-but-not-writing",
                      f"{self.unsent()} bytes pending but the descriptor is not a registered writer")

    def op_reg(self, streaming, script):
        p = _Producer(self, bool(streaming), script)
        self.all_prods.append(p)
        if self.prod is not None:
            try:
                self.fd.registerProducer(p, streaming)
            except RuntimeError:
                self.ctx.count("second registerProducer refused")
                return
            self.fail("second-producer-accepted", "registerProducer with a producer already registered did not raise")
        if not self.connected:
            self.fd.registerProducer(p, streaming)
            if p.stops != 1 or p.resumes or self.fd.producer is not None:
                self.fail("register-after-disconnect", f"stops={p.stops} resumes={p.resumes}")
            self.ctx.count("registerProducer after disconnect -> stopProducing")
            return
        self.prod = p
        self.in_register = p
        try:
            self.fd.registerProducer(p, streaming)
        finally:
            self.in_register = None
        self.ctx.count("registered streaming producer" if streaming else "registered pull producer")
        if not streaming and p.resumes < 1:
            self.fail("pull-producer-not-resumed-on-register", "registerProducer(streaming=False) did not call resumeProducing")
        self._writer_obligation()

    def op_unreg(self):
        self.prod = None
        self.fd.unregisterProducer()

    def op_lose(self):
        if self.connected:
            self.lose_req = True
        self.fd.loseConnection()

    def op_losew(self):
        if not self.connected:
            self.ctx.count("skipped loseWriteConnection after disconnect")
            return
        self.losew_req = True
        self.fd.loseWriteConnection()

    def op_dowrite(self, k, fd_budget=-1):
        if not self.connected or self.fd not in self.reactor.writers:
            self.ctx.count("doWrite skipped (not a registered writer)")
            return
        self.accept = k
        self.fd_budget = fd_budget
        self.fds_this_dowrite = 0
        self.eintr_done = False
        refused_fd = False
        self.drained = False
        self.err_returned = None
        p0 = self.prod
        before = (p0.resumes, p0.paused) if p0 is not None else None
        calls0 = self.os_calls
        self.in_dowrite = True
        try:
            r = self.fd.doWrite()
        finally:
            self.in_dowrite = False
        self.ctx.count("doWrite")
        self.leftover_from_prev = self.unsent()
        self.written_since_dw = 0
        refused_fd = self.layer == "unix" and self.fd_budget == 0 and self.fdq and self.os_calls == calls0
        if self.os_calls != calls0 + 1 and not refused_fd:
            self.fail("dowrite-os-call-count", f"doWrite made {self.os_calls - calls0} OS writes")
        if (k in TRANSIENT or refused_fd) and self.err_returned is None and r is not None \
                and not isinstance(r, self.error.ConnectionDone):
            self.fail("transient-os-refusal-treated-as-error",
                      f"the OS accepted nothing for now ({'ENOBUFS' if k == ACCEPT_ENOBUFS else 'EWOULDBLOCK'}); "
                      f"doWrite returned {r!r} instead of keeping the data for the next attempt")
        if self.err_returned is not None:
            if r is not self.err_returned:
                self.fail("os-error-swallowed", f"writeSomeData returned {self.err_returned!r}, doWrite returned {r!r}")
            self.ctx.count("OS error -> connection lost")
            self.disconnect(r)
            return
        if isinstance(r, self.error.ConnectionDone):
            if not self.lose_req:
                self.fail("closed-without-loseconnection", "doWrite returned CONNECTION_DONE, loseConnection never called")
            if self.unsent():
                self.fail("closed-with-data-pending",
                          f"doWrite returned CONNECTION_DONE with {self.unsent()} written bytes not handed to the OS")
            p = self.prod
            if p is not None and not p.streaming:
                self.fail("closed-with-pull-producer", "CONNECTION_DONE while a non-streaming producer is registered")
            if p is not None and p.paused:
                self.fail("closed-with-paused-producer", "CONNECTION_DONE while a paused streaming producer is registered")
            self.ctx.count("orderly close")
            self.disconnect(r)
            return
        if r is not None:
            self.fail("dowrite-unexpected-result", f"doWrite returned {r!r}")
        if self.drained and self.connected and p0 is not None:
            # the buffer emptied during this doWrite: a pull producer, or a
            # streaming producer that was paused, must have been resumed.
            if (not p0.streaming or before[1]) and p0.resumes == before[0]:
                self.fail("producer-not-resumed-on-drain",
                          f"buffer drained, {'paused streaming' if p0.streaming else 'pull'} producer not resumed")
        self._writer_obligation()

    def disconnect(self, why):
        """posixbase._disconnectSelectable, write side."""
        from twisted.python import failure
        self.reactor.removeReader(self.fd)
        self.reactor.removeWriter(self.fd)
        self.expect_lost = True
        try:
            self.fd.connectionLost(failure.Failure(why))
        finally:
            self.expect_lost = False

    def after_connection_lost(self):
        self.connected = False
        p = self.prod
        if p is not None:
            if p.stops != 1:
                self.fail("producer-not-stopped-at-close", f"stopProducing called {p.stops} times at connectionLost")
            self.prod = None
        if self.fd in self.reactor.writers or self.fd in self.reactor.readers:
            self.fail("still-registered-after-close", "descriptor in the reactor's reader/writer set after connectionLost")

    def drain(self):
        for _ in range(400):
            if not self.connected or self.fd not in self.reactor.writers:
                return
            self.op_dowrite(ACCEPT_ALL)
        self.fail("drain-does-not-terminate", "descriptor still asks to write after 400 accept-everything doWrites")

    # -- whole history ------------------------------------------------------
    def run(self):
        ctx = self.ctx
        for i, op in enumerate(self.case["ops"]):
            self.opi = i
            k = op[0]
            if k == "w":
                self.op_write(op[1])
            elif k == "ws":
                self.op_writeseq(op[1], op[2])
            elif k == "reg":
                self.op_reg(op[1], op[2])
            elif k == "unreg":
                self.op_unreg()
            elif k == "lose":
                self.op_lose()
            elif k == "losew":
                self.op_losew()
            elif k == "dw":
                self.op_dowrite(op[1], op[2] if len(op) > 2 else -1)
            elif k == "fd":
                self.op_sendfd()
            elif k == "pause":
                self.fd.pauseProducing()
            elif k == "resume":
                self.fd.resumeProducing()
            else:
                raise ValueError(op)
        # fair continuation
        self.opi = len(self.case["ops"])
        errored = any(not r.check(self.error.ConnectionDone) for r in self.lost)
        self.drain()
        if self.connected and self.unsent():
            self.fail("data-left-at-quiescence", f"{self.unsent()} bytes never handed to the OS")
        if self.connected and self.prod is not None:
            self.op_unreg()
            self.drain()
        if self.connected and self.losew_req and not self.lose_req and not self.write_closed:
            # seen on the unchanged tree: unregisterProducer restarts writing for a
            # pending loseConnection but not for a pending loseWriteConnection.  The
            # statement makes no liveness claim for the half-close: counted only.
            self.ctx.count("half-close still pending at quiescence (after unregisterProducer)")
        if self.connected and not self.lose_req:
            self.op_lose()
            self.drain()
        if self.connected:
            self.fail("never-closed", "loseConnection requested, everything handed over, no producer registered: still connected")
        if len(self.lost) != 1:
            self.fail("connection-lost-count", f"connectionLost called {len(self.lost)} times")
        if not errored and not any(not r.check(self.error.ConnectionDone) for r in self.lost):
            if self.acc != self.total:
                i, kind = self.blame(self.acc)
                if kind == "iter":
                    self.fail("writesequence-oneshot-iterable-dropped", "one-shot iterable bytes missing at orderly close")
                self.fail("orderly-close-incomplete", f"handed over {self.acc} of {self.total} bytes at orderly close")
            ctx.count("history ended in orderly close with all bytes handed over")
        for p in self.all_prods:
            if p.stops > 1:
                self.fail("producer-stopped-twice", f"stopProducing called {p.stops} times")
        if self.saw_zero and self.saw_partial and self.saw_two_level:
            ctx.nontrivial(self.case)
            ctx.count("nontrivial")
            if self.total > 20:
                ctx.sample(self.case)


def run_case(ctx, case):
    _H(ctx, case).run()


# ---------------------------------------------------------------------------
# complete small scope

SMALL_BS, SMALL_SL = 2, 3
ALPHABET = [
    ["w", 1], ["w", 3], ["ws", [1, 2], "list"],
    ["reg", True, [[[3], None], [[1], "unreg"]]],
    ["reg", False, [[[1], None], [[2], "unreg+lose"]]],
    ["unreg"], ["lose"], ["losew"],
    ["dw", 0], ["dw", 1], ["dw", ACCEPT_ALL_BUT_ONE], ["dw", ACCEPT_ALL], ["dw", ACCEPT_ERR],
]


# a history that starts with unregisterProducer or a doWrite (nothing registered,
# not a writer yet) is the same history without that first operation
FIRST_OPS = [i for i, op in enumerate(ALPHABET) if op[0] not in ("unreg", "dw")]


def _enum_shard(ctx, arg):
    prefix, length = arg

    def cases():
        for rest in itertools.product(range(len(ALPHABET)), repeat=length - len(prefix)):
            yield dict(bs=SMALL_BS, sl=SMALL_SL, ops=[ALPHABET[i] for i in prefix + rest])
    enumerate_run(ctx, cases(), run_case)


# ---------------------------------------------------------------------------
# random histories

CONFIGS = [(2, 3), (8, 16), (16, 8), (64, 32), (65536, 131072)]


import functools


@functools.lru_cache(maxsize=None)
def _ops_strategy(bs, sl, oneshot, maxlen):
    """Built once per configuration (building strategies per example is what costs)."""
    edge = sorted({0, 1, 2, bs - 1, bs, bs + 1, sl - 1, sl, sl + 1, bs + sl, 2 * sl})
    if bs >= 65536:
        size = st.one_of(
            st.sampled_from(edge),
            st.integers(0, 20).flatmap(lambda e: st.integers(0, 1 << e)))
    else:
        size = st.one_of(st.sampled_from(edge), st.integers(0, 3 * max(bs, sl)))
    kinds = st.sampled_from(["list", "tuple", "iter"] if oneshot else ["list", "tuple"])
    accept = st.one_of(
        st.just(0), st.just(ACCEPT_ALL),
        st.sampled_from([1, ACCEPT_ALL_BUT_ONE, sl - 1, sl, sl + 1, bs]),
        size,
        st.integers(0, 30).map(lambda i: ACCEPT_ERR if i == 0 else i))
    step = st.tuples(st.lists(size, max_size=3),
                     st.sampled_from([None, None, None, "unreg", "lose", "unreg+lose"])).map(list)
    script = st.lists(step, max_size=4)
    op = st.one_of(
        st.tuples(st.just("w"), size),
        st.tuples(st.just("w"), size),
        st.tuples(st.just("ws"), st.lists(size, max_size=4), kinds),
        st.tuples(st.just("reg"), st.booleans(), script),
        st.just(("unreg",)),
        st.just(("lose",)),
        st.just(("losew",)),
        st.tuples(st.just("dw"), accept),
        st.tuples(st.just("dw"), accept),
        st.tuples(st.just("dw"), accept),
        st.sampled_from([("pause",), ("resume",)]),
    ).map(list)
    return st.lists(op, min_size=1, max_size=maxlen).map(lambda ops: dict(bs=bs, sl=sl, ops=ops))


# ---------------------------------------------------------------------------
# the same buffering under the real socket-level writeSomeData implementations

TCP_ALPHABET = [
    ["w", 1], ["w", 3], ["lose"], ["losew"],
    ["dw", 1], ["dw", ACCEPT_ALL], ["dw", ACCEPT_EWOULDBLOCK], ["dw", ACCEPT_ENOBUFS],
    ["dw", ACCEPT_EINTR_THEN_ALL], ["dw", ACCEPT_ERR],
]
UNIX_ALPHABET = [
    ["w", 1], ["w", 3], ["fd"], ["lose"],
    ["dw", ACCEPT_ALL], ["dw", 1],
    ["dw", ACCEPT_ALL, 0], ["dw", ACCEPT_ALL, 1], ["dw", ACCEPT_ENOBUFS, 1], ["dw", ACCEPT_ENOBUFS, 2],
]
DEFAULT_BS, DEFAULT_SL = 65536, 131072


def _enum_sock_shard(ctx, arg):
    layer, first, length = arg
    alphabet = TCP_ALPHABET if layer == "tcp" else UNIX_ALPHABET
    bs, sl = (SMALL_BS, SMALL_SL) if layer == "tcp" else (DEFAULT_BS, DEFAULT_SL)

    def cases():
        for rest in itertools.product(range(len(alphabet)), repeat=length - 1):
            yield dict(layer=layer, bs=bs, sl=sl, ops=[alphabet[first]] + [alphabet[i] for i in rest])
    enumerate_run(ctx, cases(), run_case)


@functools.lru_cache(maxsize=None)
def _sock_strategy(layer, bs, sl, maxlen):
    edge = sorted({0, 1, 2, bs - 1, bs, bs + 1, sl - 1, sl, sl + 1})
    if layer == "unix":
        size = st.integers(0, 40)        # unsent data stays far below SEND_LIMIT (see op_sendfd)
    elif bs >= 65536:
        size = st.one_of(st.sampled_from(edge), st.integers(0, 18).flatmap(lambda e: st.integers(0, 1 << e)))
    else:
        size = st.one_of(st.sampled_from(edge), st.integers(0, 3 * max(bs, sl)))
    accept = st.one_of(
        st.just(ACCEPT_ALL), st.just(ACCEPT_EWOULDBLOCK), st.just(ACCEPT_ENOBUFS), st.just(ACCEPT_EINTR_THEN_ALL),
        st.sampled_from([1, ACCEPT_ALL_BUT_ONE, 0]), size,
        st.integers(0, 25).map(lambda i: ACCEPT_ERR if i == 0 else i))
    step = st.tuples(st.lists(size, max_size=3),
                     st.sampled_from([None, None, None, "unreg", "lose", "unreg+lose"])).map(list)
    ops = [
        st.tuples(st.just("w"), size), st.tuples(st.just("w"), size),
        st.tuples(st.just("ws"), st.lists(size, max_size=4), st.sampled_from(["list", "tuple"])),
        st.tuples(st.just("reg"), st.booleans(), st.lists(step, max_size=3)),
        st.just(("unreg",)), st.just(("lose",)), st.just(("losew",)),
        st.sampled_from([("pause",), ("resume",)]),
    ]
    if layer == "unix":
        fdk = st.one_of(st.just(-1), st.integers(0, 4))
        ops += [st.just(("fd",))] * 3 + [st.tuples(st.just("dw"), accept, fdk)] * 4
    else:
        ops += [st.tuples(st.just("dw"), accept)] * 4
    return st.lists(st.one_of(ops).map(list), min_size=1, max_size=maxlen).map(
        lambda o: dict(layer=layer, bs=bs, sl=sl, ops=o))


def sock_histories():
    return st.one_of([_sock_strategy("tcp", bs, sl, n) for bs, sl in [(2, 3), (8, 16), (DEFAULT_BS, DEFAULT_SL)]
                      for n in (8, 20)] + [_sock_strategy("unix", DEFAULT_BS, DEFAULT_SL, n) for n in (8, 20, 30)])


def histories(big=False):
    if big:
        return st.one_of([_ops_strategy(CONFIGS[-1][0], CONFIGS[-1][1], False, n) for n in (8, 16, 30)])
    alts = [_ops_strategy(bs, sl, False, n) for bs, sl in CONFIGS[:-1] for n in (8, 16, 30)]
    # about one history in 13 may pass one-shot iterables to writeSequence (known finding)
    alts.append(_ops_strategy(8, 16, True, 16))
    return st.one_of(alts)


def _hyp_shard(ctx, i):
    hyp_run(ctx, histories(), run_case, 8000, label=f"shard{i}")
    hyp_run(ctx, sock_histories(), run_case, 3000, label=f"sockshard{i}")
    hyp_run(ctx, histories(big=True), run_case, 400, label=f"bigshard{i}")


def run(ctx):
    length = ctx.pick(5, 6)
    shards = [((f,), n) for n in (1, 2, 3) for f in FIRST_OPS]
    shards += [((f, g), n) for n in range(4, length + 1) for f in FIRST_OPS for g in range(len(ALPHABET))]
    shards.sort(key=lambda t: -t[1])
    # quick: in-process (forking costs more than it saves on a loaded machine)
    ctx.shards(_enum_shard, shards, procs=ctx.pick(1, None))
    ctx.extra["exhaustive_scope"] = (f"all histories of length 1..{length} over {len(ALPHABET)} operations, "
                                     f"bufferSize={SMALL_BS}, SEND_LIMIT={SMALL_SL}")
    ctx.exhaustive = False
    if ctx.has_violation():
        return
    # socket level: tcp.Connection.writeSomeData / unix._SendmsgMixin.writeSomeData over a scripted socket
    slen = ctx.pick(4, 5)
    sshards = [(layer, f, n) for layer, alpha in (("tcp", TCP_ALPHABET), ("unix", UNIX_ALPHABET))
               for n in range(1, slen + 1 + (layer == "unix")) for f in range(len(alpha)) if alpha[f][0] != "dw"]
    ctx.shards(_enum_sock_shard, sshards, procs=ctx.pick(1, None))
    ctx.extra["exhaustive_scope_socket_level"] = (
        f"all histories of length 1..{slen} over {len(TCP_ALPHABET)} operations on tcp.Connection (bufferSize={SMALL_BS}, "
        f"SEND_LIMIT={SMALL_SL}) and of length 1..{slen + 1} over {len(UNIX_ALPHABET)} operations on unix._SendmsgMixin+tcp.Connection (defaults), "
        "send()/sendmsg() scripted: count, EWOULDBLOCK, ENOBUFS, EINTR, EPIPE")
    if ctx.has_violation():
        return
    if ctx.thorough:
        ctx.shards(_hyp_shard, list(range(16)))
    else:
        hyp_run(ctx, histories(), run_case, 1500, label="histories")
        hyp_run(ctx, histories(big=True), run_case, 150, label="big")
        hyp_run(ctx, sock_histories(), run_case, 500, label="socket-level")
