"""C15 — real loopback TCP on every reactor: bytes intact, connectionLost once.

Every case creates a *fresh* reactor instance (select / poll / epoll / asyncio),
listens on 127.0.0.1:0, connects, lets one side (the sender) perform a generated
write schedule (write / writeSequence / delayed continuation) through shrunken
socket buffers, and ends the connection in one of seven ways (sender or receiver,
loseConnection / half-close / abortConnection, or both sides streaming and
half-closing).  The protocols only record
events; the oracle runs after the reactor has stopped and is insensitive to the
order in which the OS scheduled anything.

A hang is a harness error (exit 2), never a violation: a reactor-level watchdog
stops the reactor, and a SIGALRM backstop ends the process with status 2.
"""
import hashlib
import os
import signal
import fcntl
import socket
import struct
import sys
import termios

from hypothesis import strategies as st

from lib.core import hyp_run, enumerate_run, HarnessError

META = dict(
    property="C15",
    level="exploration",
    technique="generated write schedules over real loopback TCP connections on fresh SelectReactor / PollReactor / EPollReactor / AsyncioSelectorReactor instances with shrunken SO_SNDBUF/SO_RCVBUF, nine close scenarios, order-insensitive event-log oracle plus an idle-state stall probe",
    level_text="A fixed matrix (4 reactors x 9 close scenarios x 6 traffic shapes) and a lifecycle matrix (4 reactors x 5 scenarios x push/pull producer x 3 orders of close/unregister, plus read-side pause/resume on both sides) plus Hypothesis schedules per reactor (writes 0..4 MiB in thorough, 0..1 MiB in quick; bursts, writeSequence, delayed writes, receiver pauses). The OS schedules the sockets; only invariants that hold under every schedule are asserted. Sampled; the weakest kind of claim in this suite.",
    level_note="Trusted: the Linux loopback TCP stack, the event-recording protocols. Timing is not controlled: cases are not bit-for-bit reproducible, the oracle is. Hangs are reported as harness errors, so a defect whose only symptom is a stall is not detected as a violation.",
    design_ref="§5 C15",
    rule="case = (reactor, who sends, socket buffer sizes, write schedule, close scenario, receiver pause, half-close interface flags). non-trivial = the sender wrote more than its (shrunken) socket send buffer in one burst, so user-space buffering and partial writes were needed; distinct by the whole case.",
)

REACTORS = ["select", "poll", "epoll", "asyncio"]
SCENARIOS = ["sender-lose", "sender-half", "sender-abort",
             "receiver-lose-after-all", "receiver-lose-early", "receiver-abort-early", "duplex-half",
             "sender-half-lose", "receiver-echo-lose"]
SEND_LIMIT = 128 * 1024      # tcp.Connection sends at most this much per doWrite pass

PLEN = 5 * 1024 * 1024
_PAT = []


def _patterns():
    if not _PAT:
        _PAT.append(hashlib.shake_256(b"verif C15 stream").digest(PLEN))
        _PAT.append(hashlib.shake_256(b"verif C15 reply").digest(2 * 1024 * 1024))
    return _PAT


def _new_reactor(kind):
    if kind == "select":
        from twisted.internet.selectreactor import SelectReactor
        return SelectReactor(), None
    if kind == "poll":
        from twisted.internet.pollreactor import PollReactor
        return PollReactor(), None
    if kind == "epoll":
        from twisted.internet.epollreactor import EPollReactor
        return EPollReactor(), None
    if kind == "asyncio":
        import asyncio
        from twisted.internet.asyncioreactor import AsyncioSelectorReactor
        loop = asyncio.new_event_loop()
        return AsyncioSelectorReactor(loop), loop
    raise ValueError(kind)


def _dispose(reactor, loop):
    """Nothing of a case may stay behind: readers, waker pipes, pollers, loops."""
    from twisted.python.failure import Failure
    for c in reactor.getDelayedCalls():
        if c.active():
            c.cancel()
    leftovers = []
    try:
        leftovers = reactor.removeAll()
    except Exception:
        pass
    for x in leftovers:
        try:
            x.connectionLost(Failure(RuntimeError("C15 harness cleanup")))
        except Exception:
            pass
    w = getattr(reactor, "waker", None)
    if w is not None:
        try:
            w.connectionLost(Failure(RuntimeError("C15 harness cleanup")))
        except Exception:
            pass
    p = getattr(reactor, "_poller", None)
    if p is not None and hasattr(p, "close"):
        try:
            p.close()
        except Exception:
            pass
    if loop is not None:
        try:
            loop.close()
        except Exception:
            pass
    return len(leftovers)


class _Log:
    """What one protocol saw."""

    def __init__(self):
        self.made = 0
        self.got = 0               # bytes received
        self.bad_at = None         # stream offset of the first byte that is not the pattern
        self.lost = []             # reason classes
        self.data_after_lost = 0
        self.rcl = 0               # readConnectionLost calls
        self.wcl = 0               # writeConnectionLost calls
        self.rcl_at = None         # bytes received when readConnectionLost came
        self.events_after_lost = []


def _make_protocols(h):
    from twisted.internet.protocol import Protocol
    from twisted.internet.interfaces import IHalfCloseableProtocol
    from zope.interface import implementer

    class Base(Protocol):
        role = None

        def __init__(self, role):
            self.role = role
            self.log = h.logs[role]

        def connectionMade(self):
            self.log.made += 1
            h.protos[self.role] = self
            h.on_made(self)

        def dataReceived(self, data):
            L = self.log
            if L.lost:
                L.data_after_lost += 1
                return
            pat = h.pat[0] if self.role == "receiver" else h.pat[1]
            n = len(data)
            if L.bad_at is None and data != pat[L.got:L.got + n]:
                p = 0
                want = pat[L.got:L.got + n]
                while p < len(want) and want[p] == data[p]:
                    p += 1
                L.bad_at = L.got + p
            L.got += n
            h.on_data(self)

        def connectionLost(self, reason):
            self.log.lost.append(reason.type)
            h.on_lost(self)

    @implementer(IHalfCloseableProtocol)
    class Half(Base):
        def readConnectionLost(self):
            L = self.log
            if L.lost:
                L.events_after_lost.append("readConnectionLost")
            L.rcl += 1
            L.rcl_at = L.got
            h.on_read_closed(self)

        def writeConnectionLost(self):
            L = self.log
            if L.lost:
                L.events_after_lost.append("writeConnectionLost")
            L.wcl += 1
            h.on_write_closed(self)

    return Base, Half


class _Producer:
    """The sender's schedule driven through the producer API (push or pull)."""

    def __init__(self, h, streaming):
        self.h, self.streaming = h, streaming
        self.paused = False
        self.stopped = False
        self.pauses = self.resumes = 0

    def pauseProducing(self):
        self.paused = True
        self.pauses += 1

    def resumeProducing(self):
        h = self.h
        self.paused = False
        self.resumes += 1
        if self.stopped or not h.prod_registered:
            return
        if h.unreg_in_resume:
            # finishes from inside resumeProducing, without writing anything more
            h.unreg_in_resume = False
            h.unreg_reentrant += 1
            h.unregister()
            return
        if self.streaming:
            h.run_steps()
        else:
            h.pull_step()

    def stopProducing(self):
        self.stopped = True
        self.h.prod_registered = False


class _H:
    def __init__(self, ctx, case):
        self.ctx, self.case = ctx, case
        self.pat = _patterns()
        self.logs = {"sender": _Log(), "receiver": _Log()}
        self.protos = {}
        self.written = 0          # stream bytes the sender has passed to write()
        self.reply_written = 0
        self.schedule_done = False
        self.closed_by_receiver = False
        self.hung = False
        self.total = sum(sum(s[1]) if s[0] == "ws" else s[1] for s in case["steps"] if s[0] in ("w", "ws"))
        self.total = min(self.total, PLEN)
        self.max_burst = 0
        self.sndbuf_actual = None
        self.n_lost = 0
        self.aborted = set()      # roles that called abortConnection
        self.closers = set()      # roles that called loseConnection / loseWriteConnection / abortConnection
        self.lose_called = set()  # roles that called loseConnection
        self.half_called = set()  # roles that called loseWriteConnection
        self.unreg_after_half = False
        self.unreg_after_half_performed = False
        self.echoed = 0
        self.prod = None
        self.prod_registered = False
        self.unreg_in_resume = False
        self.unreg_reentrant = 0
        self.closed_while_registered_paused = False
        self.harness_paused = {"sender": False, "receiver": False}
        self.pause_cycles = {"sender": 0, "receiver": 0}
        self.pause_after_half = 0
        self.lose_with_output_pending = False
        self.stall = None         # set by the idle probe
        self.probes = 0
        self.queued_behind_aligned = 0

    # -- callbacks from the protocols (inside the reactor: record, never raise) --
    def on_made(self, p):
        case = self.case
        sk = p.transport.getHandle()
        if p.role == "sender":
            if case["sndbuf"]:
                sk.setsockopt(socket.SOL_SOCKET, socket.SO_SNDBUF, case["sndbuf"])
            self.sndbuf_actual = sk.getsockopt(socket.SOL_SOCKET, socket.SO_SNDBUF)
            if case["nodelay"]:
                p.transport.setTcpNoDelay(True)
            self.steps = list(case["steps"])
            self.burst = 0
            kind = case.get("producer")
            if kind:
                self.prod = _Producer(self, kind == "push")
                self.prod_registered = True
                p.transport.registerProducer(self.prod, kind == "push")   # a pull producer is resumed right here
                if kind == "push":
                    self.run_steps()
            else:
                self.run_steps()
        else:
            if case["rcvbuf"]:
                sk.setsockopt(socket.SOL_SOCKET, socket.SO_RCVBUF, case["rcvbuf"])
            if case["scenario"] in ("receiver-lose-early", "receiver-abort-early", "receiver-lose-after-all",
                                    "receiver-echo-lose"):
                self.maybe_receiver_close(p)
            if case["scenario"] == "duplex-half":
                # the receiver has a stream of its own: queue it all, then finish its sending direction
                self.write_reply(p)
                self.half(p)

    def run_steps(self):
        p = self.protos["sender"]
        if self.schedule_done or getattr(self, "in_steps", False):
            return
        self.in_steps = True
        try:
            while self.steps:
                if self.logs["sender"].lost:
                    return
                if self.prod is not None and self.prod.paused:
                    return              # a push producer waits for resumeProducing
                s = self.steps.pop(0)
                if s[0] == "delay":
                    self.max_burst = max(self.max_burst, self.burst)
                    self.burst = 0
                    self.reactor.callLater(s[1] / 1000.0, self.run_steps)
                    return
                self.do_write_step(p, s)
        finally:
            self.in_steps = False
        self.end_of_schedule(p)

    def do_write_step(self, p, s):
        self.note_alignment(p.transport)
        if s[0] == "w":
            n = min(s[1], PLEN - self.written)
            p.transport.write(self.pat[0][self.written:self.written + n])
            self.written += n
            self.burst += n
            return n
        chunks, total = [], 0
        for k in s[1]:
            k = min(k, PLEN - self.written)
            chunks.append(self.pat[0][self.written:self.written + k])
            self.written += k
            self.burst += k
            total += k
        p.transport.writeSequence(chunks)
        return total

    def pull_step(self):
        """resumeProducing of a pull producer: write the next non-empty piece, or finish."""
        p = self.protos["sender"]
        while self.steps and not self.logs["sender"].lost:
            s = self.steps.pop(0)
            if s[0] != "delay" and self.do_write_step(p, s):
                return
        if not self.logs["sender"].lost:
            self.end_of_schedule(p)

    def unregister(self):
        p = self.protos.get("sender")
        if self.prod_registered and p is not None and not p.log.lost:
            self.prod_registered = False
            if "sender" in self.half_called and "sender" not in self.lose_called:
                self.unreg_after_half = True
                try:
                    state = p.transport.getHandle().getsockopt(socket.IPPROTO_TCP, socket.TCP_INFO, 1)[0]
                except (OSError, AttributeError):
                    state = 1
                if state not in (1, 8):
                    # our FIN is out: the half-close was performed while the producer was still registered
                    self.unreg_after_half_performed = True
            p.transport.unregisterProducer()

    def end_of_schedule(self, p):
        if self.schedule_done:
            return
        self.max_burst = max(self.max_burst, self.burst)
        self.schedule_done = True
        fin = self.case.get("fin", "unreg-close")
        if self.prod is not None and fin == "unreg-close":
            self.unregister()
        self.close_by_scenario(p)
        if self.prod is not None and self.prod_registered and fin != "unreg-close":
            if self.prod.paused and "sender" in self.lose_called:
                self.closed_while_registered_paused = True
            if fin == "close-unreg-resume":
                self.unreg_in_resume = True       # at the next resumeProducing, re-entrantly
            else:
                self.reactor.callLater(self.case.get("unreg_delay", 0) / 1000.0, self.unregister)

    def close_by_scenario(self, p):
        sc = self.case["scenario"]
        if sc == "sender-lose":
            self.lose(p)
        elif sc in ("sender-half", "duplex-half"):
            self.half(p)
        elif sc == "sender-half-lose":
            # half-close requested, then a full close before (or after) the half-close has happened
            self.half(p)
            d = self.case["abort_delay"]
            if d < 0:
                self.lose(p)
            else:
                self.reactor.callLater(d / 1000.0, self.half_then_lose)
        elif sc == "sender-abort":
            d = self.case["abort_delay"]
            if d < 0:
                self.abort("sender")
            else:
                self.reactor.callLater(d / 1000.0, self.abort, "sender")

    def on_data(self, p):
        case = self.case
        spec = case["rx_pause"] if p.role == "receiver" else case.get("tx_pause")
        if spec and not self.pause_cycles[p.role] and p.log.got >= spec[0] and p.role not in self.lose_called \
                and p.role not in self.aborted:
            # read-side flow control: a slow consumer pauses inside dataReceived and resumes later
            self.pause_cycles[p.role] += 1
            self.harness_paused[p.role] = True
            if p.log.wcl or (p.role == "sender" and self.case["scenario"] in ("sender-half", "duplex-half")
                             and self.schedule_done):
                self.pause_after_half += 1
            p.transport.pauseProducing()
            self.reactor.callLater(spec[1] / 1000.0, self.resume_reading, p.role)
        if p.role == "receiver":
            if case["scenario"] == "receiver-echo-lose" and not self.closed_by_receiver:
                # acknowledge every delivery with a few bytes; they are flushed by a later
                # doWrite, so output is usually pending when the next delivery arrives
                n = min(case.get("echo", 3), len(self.pat[1]) - self.reply_written)
                p.transport.write(self.pat[1][self.reply_written:self.reply_written + n])
                self.reply_written += n
                self.echoed += 1
            self.maybe_receiver_close(p)

    def resume_reading(self, role):
        p = self.protos.get(role)
        self.harness_paused[role] = False
        if p is not None and not p.log.lost:
            p.transport.resumeProducing()

    def maybe_receiver_close(self, p):
        if self.closed_by_receiver or p.log.lost:
            return
        sc = self.case["scenario"]
        if sc == "receiver-lose-after-all" and p.log.got >= self.total:
            self.closed_by_receiver = True
            self.lose(p)
        elif sc in ("receiver-lose-early", "receiver-echo-lose") and p.log.got >= min(self.case["early"], self.total):
            self.closed_by_receiver = True
            if self.reply_written > self.logs["sender"].got:
                self.lose_with_output_pending = True
            self.lose(p)
        elif sc == "receiver-abort-early" and p.log.got >= min(self.case["early"], self.total):
            self.closed_by_receiver = True
            self.abort("receiver")

    def abort(self, role):
        p = self.protos.get(role)
        if p is not None and not p.log.lost:
            self.aborted.add(role)
            self.closers.add(role)
            p.transport.abortConnection()

    def lose(self, p):
        if not p.log.lost:
            self.closers.add(p.role)
            self.lose_called.add(p.role)
            p.transport.loseConnection()

    def half(self, p):
        if not p.log.lost:
            self.closers.add(p.role)
            self.half_called.add(p.role)
            p.transport.loseWriteConnection()

    def half_then_lose(self):
        p = self.protos.get("sender")
        if p is not None:
            self.lose(p)

    def note_alignment(self, t):
        """Bookkeeping only (never part of the oracle): is this write queued behind an
        unsent remainder that is a whole number of SEND_LIMIT-sized passes?"""
        try:
            rest = len(t.dataBuffer) - t.offset
        except AttributeError:
            return
        if rest >= SEND_LIMIT and rest % SEND_LIMIT == 0:
            self.queued_behind_aligned += 1

    def write_reply(self, p):
        for n in self.case["reply"]:
            n = min(n, len(self.pat[1]) - self.reply_written)
            p.transport.write(self.pat[1][self.reply_written:self.reply_written + n])
            self.reply_written += n

    def on_read_closed(self, p):
        """IHalfCloseableProtocol.readConnectionLost."""
        peer = "receiver" if p.role == "sender" else "sender"
        if peer not in self.closers and not self.logs[peer].lost and self.stall is None:
            # readConnectionLost means "the peer's FIN was read"; the peer has neither
            # closed anything nor lost its connection
            self.stall = dict(kind="spurious-rcl", role=p.role)
            self.reactor.stop()
            return
        if self.case["scenario"] == "duplex-half":
            # nothing is written or closed here: whatever this side still has queued must
            # go out by itself.  Close only when both directions are finished.
            if p.log.wcl:
                self.lose(p)
            return
        if p.role == "receiver":
            # the peer finished sending.  After a half-close it still listens: answer, then close
            if self.case["scenario"] == "sender-half":
                self.write_reply(p)
            self.lose(p)
        else:
            # sender: both directions are finished now
            self.lose(p)

    def on_write_closed(self, p):
        """IHalfCloseableProtocol.writeConnectionLost."""
        if self.case["scenario"] == "duplex-half" and p.log.rcl and not p.log.lost:
            self.lose(p)

    # -- idle probe: a stall is a *state*, not a duration -----------------------
    def probe(self):
        """Runs as a timed call, i.e. between reactor iterations.  A direction is
        stalled when: both protocols are connected; the application has no action
        pending for it; bytes written have not been received; nothing of them is in
        the kernel (send queue of the writer and receive queue of the reader are
        empty, so they sit in the writer's user-space buffer); the reader is
        registered for reading (not paused / closing); and the writer is NOT
        registered for writing and did not abort.  Nothing can ever move those
        bytes: the state is permanent, however long one waits."""
        if getattr(self, "finishing", False) or self.stall is not None:
            return
        self.probes += 1
        S, R = self.protos.get("sender"), self.protos.get("receiver")
        for x in (S, R):
            # A transport whose application called loseConnection (no abort, no
            # producers in this harness) stays a registered writer until the close
            # completes.  Neither reader nor writer and still not lost = nothing
            # can ever finish the close.
            if x is not None and not x.log.lost and x.role not in self.lose_called and x.role not in self.aborted \
                    and not x.log.rcl and not self.harness_paused[x.role]:
                # connected, never asked for a full close, its peer's EOF not seen, not paused by the
                # application (or resumed since): it must be waiting for input
                try:
                    reading = x.transport in self.reactor.getReaders()
                except AttributeError:
                    reading = True
                if not reading:
                    self.stall = dict(kind="not-reading", role=x.role)
                    self.reactor.stop()
                    return
            if x is not None and not x.log.lost and x.role in self.lose_called and x.role not in self.aborted \
                    and not (x.role == "sender" and self.prod_registered):
                try:
                    idle = x.transport not in self.reactor.getWriters() and x.transport not in self.reactor.getReaders()
                except AttributeError:
                    idle = False
                if idle:
                    self.stall = dict(kind="close-limbo", role=x.role)
                    self.reactor.stop()
                    return
        for x in (S, R):
            # Same for a requested half-close: until it is performed the transport
            # stays a registered writer.  TCP state ESTABLISHED / CLOSE_WAIT = this
            # end has not sent a FIN.
            if x is not None and not x.log.lost and x.role in self.half_called and x.role not in self.lose_called \
                    and x.role not in self.aborted and not x.log.wcl and not (x.role == "sender" and self.prod_registered):
                try:
                    idle = x.transport not in self.reactor.getWriters()
                    state = x.transport.getHandle().getsockopt(socket.IPPROTO_TCP, socket.TCP_INFO, 1)[0]
                except (OSError, AttributeError):
                    continue
                if idle and state in (1, 8):
                    self.stall = dict(kind="half-limbo", role=x.role,
                                      after_unreg=(x.role == "sender" and self.unreg_after_half))
                    self.reactor.stop()
                    return
        if S is not None and R is not None and not S.log.lost and not R.log.lost:
            for w, r, wrote, ready in ((S, R, self.written, self.schedule_done),
                                       (R, S, self.reply_written, True)):
                if not ready or wrote <= r.log.got or w.role in self.aborted:
                    continue
                try:
                    wt, rt = w.transport, r.transport
                    if wt in self.reactor.getWriters() or rt not in self.reactor.getReaders():
                        continue
                    outq = _ioctl_int(wt.getHandle(), termios.TIOCOUTQ)
                    inq = _ioctl_int(rt.getHandle(), termios.FIONREAD)
                except (OSError, AttributeError):
                    continue
                if outq == 0 and inq == 0:
                    self.stall = dict(kind="no-writer", writer=w.role, written=wrote, received=r.log.got)
                    self.reactor.stop()
                    return
        self.reactor.callLater(0.004, self.probe)

    def on_lost(self, p):
        self.n_lost += 1
        if self.n_lost >= 2:
            self.reactor.callLater(0, self.finish)

    def finish(self):
        if getattr(self, "finishing", False):
            return
        self.finishing = True
        d = self.port.stopListening()
        if d is not None:
            d.addBoth(lambda _: self.reactor.callLater(self.case["linger"] / 1000.0, self.reactor.stop))
        else:
            self.reactor.callLater(self.case["linger"] / 1000.0, self.reactor.stop)

    def watchdog(self):
        self.hung = True
        self.reactor.stop()

    # ------------------------------------------------------------------
    def run(self):
        from twisted.internet.protocol import Factory, ClientFactory
        case = self.case
        Base, Half = _make_protocols(self)
        self.reactor, loop = _new_reactor(case["reactor"])
        reactor = self.reactor
        roles = ("sender", "receiver") if case["sender_is_client"] else ("receiver", "sender")

        def cls_for(role):
            half = case["tx_half_iface"] if role == "sender" else case["rx_half_iface"]
            return Half if half else Base

        sf = Factory()
        sf.buildProtocol = lambda addr: cls_for(roles[1])(roles[1])
        cf = ClientFactory()
        cf.noisy = sf.noisy = False
        cf.buildProtocol = lambda addr: cls_for(roles[0])(roles[0])
        self.connect_failed = None
        cf.clientConnectionFailed = lambda conn, reason: (setattr(self, "connect_failed", reason), reactor.stop())
        wd_s = _watchdog_seconds(self.ctx)
        old = signal.signal(signal.SIGALRM, _alarm)
        signal.alarm(int(wd_s * 2) + 30)
        try:
            self.port = reactor.listenTCP(0, sf, interface="127.0.0.1", backlog=5)
            reactor.connectTCP("127.0.0.1", self.port.getHost().port, cf, timeout=wd_s)
            wd = reactor.callLater(wd_s, self.watchdog)
            reactor.callLater(0.004, self.probe)
            reactor.run(installSignalHandlers=False)
            if wd.active():
                wd.cancel()
        finally:
            signal.alarm(0)
            signal.signal(signal.SIGALRM, old)
            left = _dispose(reactor, loop)
        if self.connect_failed is not None:
            raise HarnessError(f"C15: loopback connect failed: {self.connect_failed.value!r}")
        if self.hung:
            raise HarnessError(
                "C15: watchdog: case did not finish within %.0f s (hang or overloaded machine); case=%r; "
                "sender=%r receiver=%r" % (wd_s, case, vars(self.logs["sender"]), vars(self.logs["receiver"])))
        self.oracle(left)

    # ------------------------------------------------------------------
    def oracle(self, leftovers):
        from twisted.internet import error
        ctx, case = self.ctx, self.case
        S, R = self.logs["sender"], self.logs["receiver"]
        sc = case["scenario"]
        rk = case["reactor"]

        def fail(sig, detail):
            ctx.violation(sig, case, f"[{rk}/{sc}] {detail}; sender={vars(S)} receiver={vars(R)} written={self.written}")

        if self.stall is not None and self.stall["kind"] == "spurious-rcl":
            fail("readconnectionlost-without-peer-close",
                 f"{self.stall['role']}: readConnectionLost although its peer has not called loseConnection / "
                 "loseWriteConnection / abortConnection and is still connected")
        if self.stall is not None and self.stall["kind"] == "not-reading":
            fail("connected-transport-not-reading",
                 f"{self.stall['role']} is connected, has not asked for a full close, has not seen its peer's EOF and is not paused by the "
                 "application (any pauseProducing was followed by resumeProducing), yet its transport is not registered for "
                 "reading: it can never receive the rest of the stream nor the end of the connection")
        if self.stall is not None and self.stall["kind"] == "half-limbo":
            if self.stall["after_unreg"]:
                fail("half-close-pending-at-unregisterproducer-never-performed",
                     "the sender called loseWriteConnection while its producer was registered; the producer has been "
                     "unregistered since, the transport is not registered for writing and no FIN was sent (TCP state "
                     "ESTABLISHED/CLOSE_WAIT): the half-close can never happen, the peer never sees EOF")
            fail("half-close-requested-but-transport-idle",
                 f"{self.stall['role']} called loseWriteConnection, no FIN was sent (TCP state ESTABLISHED/CLOSE_WAIT) and its "
                 "transport is not registered for writing: the half-close can never happen")
        if self.stall is not None and self.stall["kind"] == "close-limbo":
            fail("close-requested-but-transport-idle",
                 f"{self.stall['role']} called loseConnection, has not had connectionLost, and its transport is registered "
                 "with the reactor neither for reading nor for writing: the close can never complete")
        if self.stall is not None:
            fail("stalled-with-undelivered-bytes-and-no-writer",
                 f"the {self.stall['writer']} wrote {self.stall['written']} bytes, its peer has received {self.stall['received']}; "
                 "both protocols are connected, no application action is pending, both kernel queues of that direction are "
                 "empty, the reader is registered with the reactor but the writer is not: the rest can never be sent")
        for name, L in (("sender", S), ("receiver", R)):
            if L.made != 1:
                fail("connectionmade-count", f"{name}: connectionMade called {L.made} times")
            if len(L.lost) != 1:
                fail("connectionlost-count", f"{name}: connectionLost called {len(L.lost)} times")
            if L.data_after_lost:
                fail("data-after-connectionlost", f"{name}: {L.data_after_lost} dataReceived calls after connectionLost")
            if L.events_after_lost:
                fail("halfclose-event-after-connectionlost", f"{name}: {L.events_after_lost}")
            if L.bad_at is not None:
                fail("received-bytes-differ", f"{name}: received stream differs from the written one at offset {L.bad_at}")
        if R.got > self.written:
            fail("received-more-than-written", f"receiver got {R.got}, sender wrote {self.written}")
        if S.got > self.reply_written:
            fail("received-more-than-written", f"sender got {S.got} reply bytes, receiver wrote {self.reply_written}")
        if leftovers:
            # not part of the statement; visible in the evidence
            ctx.count("selectables still registered with the reactor at the end of a case", leftovers)

        done = error.ConnectionDone
        if sc == "sender-lose":
            if R.got != self.written or not self.schedule_done:
                fail("orderly-close-truncated", f"receiver got {R.got} of {self.written} bytes before the orderly close")
            if S.lost[0] is not done or R.lost[0] is not done:
                fail("orderly-close-not-connectiondone", f"reasons sender={S.lost[0].__name__} receiver={R.lost[0].__name__}")
            if case["rx_half_iface"] and R.rcl > 1:
                fail("readconnectionlost-twice", f"receiver readConnectionLost {R.rcl} times")
        elif sc == "sender-half":
            if R.got != self.written:
                fail("half-close-truncated", f"receiver got {R.got} of {self.written} bytes")
            if case["rx_half_iface"]:
                if R.rcl != 1:
                    fail("readconnectionlost-count", f"receiver (IHalfCloseableProtocol) readConnectionLost called {R.rcl} times")
                if R.rcl_at != self.written:
                    fail("readconnectionlost-before-all-data", f"readConnectionLost after {R.rcl_at} of {self.written} bytes")
                if S.got != self.reply_written:
                    fail("reply-after-half-close-truncated", f"sender got {S.got} of {self.reply_written} reply bytes")
            if case["tx_half_iface"] and S.wcl != 1:
                fail("writeconnectionlost-count", f"sender (IHalfCloseableProtocol) writeConnectionLost called {S.wcl} times")
            if S.lost[0] is not done or R.lost[0] is not done:
                fail("orderly-close-not-connectiondone", f"reasons sender={S.lost[0].__name__} receiver={R.lost[0].__name__}")
        elif sc == "duplex-half":
            if case["tx_half_iface"] and case["rx_half_iface"]:
                # both keep their sending direction open after the peer's FIN: both streams complete
                if R.got != self.written:
                    fail("half-close-truncated", f"receiver got {R.got} of {self.written} bytes")
                if S.got != self.reply_written:
                    fail("duplex-stream-truncated-after-peer-fin",
                         f"sender got {S.got} of the {self.reply_written} bytes the receiver had queued before it saw the sender's FIN")
                for name, L, all_ in (("sender", S, self.reply_written), ("receiver", R, self.written)):
                    if L.rcl != 1 or L.wcl != 1:
                        fail("halfclose-notification-count", f"{name}: readConnectionLost x{L.rcl}, writeConnectionLost x{L.wcl}")
                    if L.rcl_at != all_:
                        fail("readconnectionlost-before-all-data", f"{name}: readConnectionLost after {L.rcl_at} of {all_} bytes")
                if S.lost[0] is not done or R.lost[0] is not done:
                    fail("orderly-close-not-connectiondone", f"reasons sender={S.lost[0].__name__} receiver={R.lost[0].__name__}")
                ctx.count("duplex half-close with both streams complete")
                if min(self.written, self.reply_written) > 200000:
                    ctx.count("duplex half-close with both streams > 200 kB")
        elif sc == "sender-half-lose":
            # an orderly close, whichever of the two requests wins
            if R.got != self.written or not self.schedule_done:
                fail("orderly-close-truncated", f"receiver got {R.got} of {self.written} bytes (loseWriteConnection then loseConnection)")
            if S.lost[0] is not done or R.lost[0] is not done:
                fail("orderly-close-not-connectiondone", f"reasons sender={S.lost[0].__name__} receiver={R.lost[0].__name__}")
            if S.wcl > 1 or R.rcl > 1:
                fail("halfclose-notification-count", f"sender writeConnectionLost x{S.wcl}, receiver readConnectionLost x{R.rcl}")
            ctx.count("half-close then close: " + ("same turn" if case["abort_delay"] < 0 else "close delayed"))
        elif sc == "receiver-echo-lose":
            if R.lost[0] is not done:
                fail("closer-reason", f"closing side got {R.lost[0].__name__}")
            if R.rcl:
                fail("readconnectionlost-without-peer-close", f"receiver readConnectionLost x{R.rcl}; the sender never closed first")
            if R.got < min(case["early"], self.total):
                fail("closed-before-threshold", f"receiver closed at {R.got} bytes")
            if self.lose_with_output_pending:
                ctx.count("loseConnection inside dataReceived with earlier output not yet received by the peer")
        elif sc == "sender-abort":
            if S.lost[0] is not error.ConnectionAborted:
                fail("abort-reason", f"aborting side got {S.lost[0].__name__}")
        elif sc == "receiver-lose-after-all":
            if R.got != self.written or R.got != self.total:
                fail("orderly-close-truncated", f"receiver got {R.got} of {self.written} (schedule total {self.total})")
            if S.lost[0] is not done or R.lost[0] is not done:
                fail("orderly-close-not-connectiondone", f"reasons sender={S.lost[0].__name__} receiver={R.lost[0].__name__}")
        elif sc == "receiver-lose-early":
            if R.lost[0] is not done:
                fail("closer-reason", f"closing side (nothing to flush) got {R.lost[0].__name__}")
            if R.got < min(case["early"], self.total):
                fail("closed-before-threshold", f"receiver closed at {R.got} bytes")
        elif sc == "receiver-abort-early":
            if R.lost[0] is not error.ConnectionAborted:
                fail("abort-reason", f"aborting side got {R.lost[0].__name__}")
        # bookkeeping
        ctx.count(f"reactor={rk}")
        ctx.count("idle probes", self.probes)
        if self.prod is not None:
            ctx.count(f"schedule driven by a {'push' if self.prod.streaming else 'pull'} producer")
            if self.prod.pauses:
                ctx.count("producer paused by back-pressure")
            if self.unreg_reentrant:
                ctx.count("producer unregistered from inside resumeProducing")
            if self.unreg_after_half_performed:
                ctx.count("producer unregistered after the half-close had already been performed (connection still open)")
            if self.closed_while_registered_paused:
                ctx.count("loseConnection while a paused push producer is registered")
                if self.unreg_reentrant:
                    ctx.count("... which then unregistered from inside resumeProducing")
        for role in ("sender", "receiver"):
            if self.pause_cycles[role]:
                ctx.count(f"{role} paused and resumed reading")
        if self.pause_after_half:
            ctx.count("read-side pause/resume on a transport whose own write side is half-closed")
        if self.queued_behind_aligned:
            ctx.count("write queued behind an unsent remainder of k x SEND_LIMIT (white-box bookkeeping)")
            if sc in ("sender-lose", "sender-half", "duplex-half"):
                ctx.count("... with a close / half-close following")
        ctx.count(f"scenario={sc}")
        ctx.count(f"reason sender={S.lost[0].__name__}")
        ctx.count(f"reason receiver={R.lost[0].__name__}")
        if self.sndbuf_actual is not None and self.max_burst > self.sndbuf_actual:
            ctx.nontrivial(case)
            ctx.count("nontrivial (burst larger than the socket send buffer)")
            ctx.count(f"nontrivial reactor={rk}")
            if self.written > 100000:
                ctx.sample(case)
        if sc in ("sender-abort", "receiver-lose-early", "receiver-abort-early", "receiver-echo-lose") and R.got < self.written:
            ctx.count("receiver got a proper prefix")
        ctx.extra["bytes_transferred"] = ctx.extra.get("bytes_transferred", 0) + R.got + S.got


def _ioctl_int(sock, req):
    return struct.unpack("i", fcntl.ioctl(sock.fileno(), req, b"\0\0\0\0"))[0]


def _watchdog_seconds(ctx):
    return 120.0


def _alarm(signum, frame):
    # the reactor swallows exceptions raised inside its loop, so the backstop
    # cannot raise: report and leave with the harness-error status.
    sys.stderr.write("harness error in check C15 (exit 2): SIGALRM backstop: a case hung beyond the reactor watchdog\n")
    sys.stderr.flush()
    os._exit(2)


def run_case(ctx, case):
    _H(ctx, case).run()


# ---------------------------------------------------------------------------

def _case(**kw):
    d = dict(reactor="select", sender_is_client=True, sndbuf=4096, rcvbuf=65536, nodelay=False,
             steps=[], scenario="sender-lose", abort_delay=-1, early=1, rx_pause=None,
             reply=[10], tx_half_iface=True, rx_half_iface=True, linger=0, echo=3,
             tx_pause=None, producer=None, fin="unreg-close", unreg_delay=0)
    d.update(kw)
    return d


def _matrix():
    shapes = [
        dict(steps=[]),
        dict(steps=[["w", 1000]], sender_is_client=False),
        dict(steps=[["w", 300000], ["ws", [1, 70000, 0, 5]], ["delay", 2], ["w", 40000]], rx_pause=[1, 5], early=50000),
        dict(steps=[["ws", [200000, 200000]], ["w", 1]], sender_is_client=False, sndbuf=0, rcvbuf=0,
             tx_half_iface=False, rx_half_iface=False, early=100, abort_delay=3, reply=[]),
        # whole SEND_LIMIT passes through a roomy socket buffer, a later write lands
        # between two passes (each zero delay = one reactor iteration)
        dict(steps=[["w", 3 * SEND_LIMIT], ["delay", 0], ["delay", 0], ["w", 1000]], sndbuf=1 << 20, rcvbuf=1 << 20,
             early=SEND_LIMIT, reply=[SEND_LIMIT, 77]),
        # the other side has far more queued than one pass can send
        dict(steps=[["w", 10]], sndbuf=8192, rcvbuf=65536, reply=[700000, 5], sender_is_client=False),
    ]
    for rk in REACTORS:
        for sc in SCENARIOS:
            for sh in shapes:
                yield _case(reactor=rk, scenario=sc, **sh)


def _matrix2():
    """Lifecycle matrix: the schedule driven by a push / pull producer with every order of
    (close, unregister, re-entrant unregister), and read-side flow control on either side."""
    for rk in REACTORS:
        for sc in ("sender-lose", "sender-half", "sender-half-lose", "duplex-half", "receiver-lose-after-all"):
            for prod in ("push", "pull"):
                for fin in ("unreg-close", "close-unreg-resume", "close-unreg-later"):
                    yield _case(reactor=rk, scenario=sc, producer=prod, fin=fin, sndbuf=4096,
                                steps=[["w", 200000], ["delay", 0], ["w", 100000]], reply=[50000])
        for sc in ("sender-half", "duplex-half", "sender-lose"):
            yield _case(reactor=rk, scenario=sc, steps=[["w", 100000]], reply=[150000, 10],
                        tx_pause=[0, 2], rx_pause=[1, 2])
        # small writes: the producer is never paused, so a half-close is performed while it is
        # still registered; it unregisters a little later, the peer (paused) keeps the connection open
        for sc in ("sender-half", "duplex-half"):
            for prod in ("push", "pull"):
                for iface in (True, False):
                    for client in (True, False):
                        yield _case(reactor=rk, scenario=sc, producer=prod, fin="close-unreg-later", unreg_delay=2,
                                    steps=[["w", 1000]], rx_pause=[0, 8], reply=[10], sender_is_client=client,
                                    tx_half_iface=iface, rx_half_iface=iface)


def _strategy(rk, max_exp):
    size = st.one_of(st.sampled_from([0, 1, 2, 4095, 4096, 4097, 65535, 65536, 65537, 131071, 131072, 131073]),
                     st.integers(1, 4).map(lambda k: k * SEND_LIMIT),
                     st.integers(0, max_exp).flatmap(lambda e: st.integers(0, 1 << e)))
    step = st.one_of(
        st.tuples(st.just("w"), size),
        st.tuples(st.just("w"), size),
        st.tuples(st.just("ws"), st.lists(size, max_size=4)),
        st.tuples(st.just("delay"), st.sampled_from([0, 0, 0, 0, 1, 3])),
    ).map(list)
    sndbuf = st.sampled_from([0, 2048, 4096, 4096, 16384, 65536, 1 << 20, 1 << 20])
    # a receive buffer below ~16 KiB makes Linux loopback fall back on persist
    # timers (seconds per case); partial writes come from the small SO_SNDBUF
    rcvbuf = st.sampled_from([0, 0, 65536, 32768, 16384])
    return st.builds(
        dict,
        reactor=st.just(rk),
        sender_is_client=st.booleans(),
        sndbuf=sndbuf, rcvbuf=rcvbuf,
        nodelay=st.booleans(),
        steps=st.lists(step, max_size=8),
        scenario=st.sampled_from(SCENARIOS),
        abort_delay=st.sampled_from([-1, 0, 1, 5]),
        early=st.integers(0, 200000),
        rx_pause=st.one_of(st.none(), st.tuples(st.integers(0, 100000), st.sampled_from([0, 1, 5])).map(list)),
        reply=st.lists(st.one_of(st.integers(0, 20000), size), max_size=3),
        tx_half_iface=st.booleans(), rx_half_iface=st.booleans(),
        linger=st.sampled_from([0, 0, 2]),
        echo=st.sampled_from([1, 3, 100, 5000]),
        tx_pause=st.one_of(st.none(), st.tuples(st.integers(0, 20000), st.sampled_from([0, 1, 5])).map(list)),
        producer=st.sampled_from([None, None, "push", "push", "pull"]),
        fin=st.sampled_from(["unreg-close", "close-unreg-resume", "close-unreg-later"]),
        unreg_delay=st.sampled_from([0, 1, 2, 5]),
    )


def run(ctx):
    enumerate_run(ctx, _matrix(), run_case)
    if ctx.has_violation():
        return
    enumerate_run(ctx, _matrix2(), run_case)
    if ctx.has_violation():
        return
    n = ctx.pick(60, 1200)
    max_exp = ctx.pick(20, 22)
    for rk in REACTORS:
        hyp_run(ctx, _strategy(rk, max_exp), run_case, n, label=f"tcp-{rk}")
        if ctx.has_violation():
            return
    ctx.exhaustive = False
