"""C16 — framed receivers (line / line-only / netstring / int8/16/32) are
segmentation-invariant, match a reference framing, and have exact limits.

One case = receiver configuration + a byte stream (given literally, or produced
by the protocol's own send method from a list of messages) + an application
policy that is itself independent of segmentation (raw sections driven by the
index of the line, pauses driven by the index of the event) + a segmentation.
The real receiver is fed the stream whole and split; both transcripts, cut at the
first ``transport.loseConnection``, are compared with a reference framing
written from the documentation of the wire formats.
"""
import struct

from hypothesis import strategies as st

from lib.core import hyp_run, enumerate_run
from lib import harness

META = dict(
    property="C16",
    level="exploration",
    technique="segmentation metamorphic test (whole vs every 1-/2-cut split of short streams, random/bytewise/in-delimiter cuts of long ones) + independent reference framers + send/receive round trip",
    level_text="Grammar-built streams with message lengths clustered at MAX_LENGTH-1..MAX_LENGTH+len(delimiter)+1 and small MAX_LENGTH (1..40) for LineReceiver (with raw sections and pause/resume), LineOnlyReceiver, NetstringReceiver (valid and invalid) and Int8/16/32StringReceiver (with pause/resume). Every 1- and 2-cut split of streams up to 32 (thorough 48) bytes, plus a deterministic boundary grid that is enumerated completely; random cuts beyond. Sampled, not exhaustive over streams.",
    level_note="Reference framers (ref_lines/ref_netstring/ref_intn) written from the format descriptions are trusted. Default oversize handlers only (they close; what follows a close is unspecified and not compared). A notification for an unterminated tail that can no longer become a legal message is accepted but not demanded; for netstrings a malformed byte that is the very last byte of the stream may be reported late (the real parser's `$` accepts a trailing newline until the next byte arrives). MAX_LENGTH >= 1. A LineReceiver application may change self.delimiter / self.MAX_LENGTH and an IntNStringReceiver application self.MAX_LENGTH from inside the message callback, driven by the message index (LineReceiver and IntNStringReceiver read them per message and AMP relies on it; LineOnlyReceiver and the netstring parser do not, so they are not re-configured). A NetstringReceiver object may have served an earlier connection (its makeConnection re-initializes the parser); the other receivers keep their buffer in the instance and are only used fresh. The deprecated `recvd` attribute of IntNStringReceiver is not exercised.",
    design_ref="§5 C16",
    rule="case = (receiver, MAX_LENGTH, delimiter, stream or messages-to-send, raw/pause/re-configuration policy, earlier connection of a reused netstring object, segmentation). non-trivial = a cut falls inside (or, for 1-byte framing, next to) a delimiter / length prefix / netstring header or terminator whose message has a length within len(delimiter) (at least 1) of MAX_LENGTH; distinct by the whole tuple with the concrete cut list.",
)

DELIMS = [b"\r\n", b"\n", b"\x00", b"--", b"abc", b"\r\n\r\n"]
PREFIX = {"int8": ("!B", 1), "int16": ("!H", 2), "int32": ("!I", 4)}
LINEKINDS = ("line", "lineonly")


# --------------------------------------------------------------------------
# reference framers: (events, tail, starts, marks, badpos)
#   events : list of event tuples; ends with ("close",) when the stream is
#            definitely illegal at some point
#   tail   : "final" (definite error reported), "clean" (what is left can still
#            become a legal message: no notification allowed) or "doomed"
#            (what is left can never be legal: a notification is optional)
#   starts : stream offset at which the frame of event i begins (plus one entry
#            for the unfinished tail)
#   marks  : (lo, hi, msglen) — a cut at lo <= p <= hi is "inside framing"
#   badpos : offset of the byte that made the stream illegal (or None)

def ref_lines(s, delim, mx, raw_after, reconf=None):
    reconf = reconf or {}
    ev, starts, marks = [], [], []
    dl = len(delim)
    pos = 0
    i = 0
    while True:
        j = s.find(delim, pos)
        if j < 0:
            tail = s[pos:]
            ok = any(tail.endswith(delim[:k]) and len(tail) - k <= mx for k in range(dl))
            starts.append(pos)
            return ev, ("clean" if ok else "doomed"), starts, marks, None
        n = j - pos
        if dl > 1:
            marks.append((j + 1, j + dl - 1, n - mx))
        else:
            marks.append((j, j + 1, n - mx))
        starts.append(pos)
        if n > mx:
            ev += [("oversize",), ("close",)]
            starts.append(pos)
            return ev, "final", starts, marks, j + dl - 1
        ev.append(("line", s[pos:j]))
        pos = j + dl
        if i in reconf:       # the application re-configures the framing from lineReceived
            nd, nm = reconf[i]
            if nd is not None:
                delim, dl = nd, len(nd)
            if nm is not None:
                mx = nm
        if i in raw_after:
            need = raw_after[i]
            chunk = s[pos:pos + need]
            starts.append(pos)
            if len(chunk) < need:
                ev.append(("rawpart", chunk))
                starts.append(pos)
                return ev, "clean", starts, marks, None
            ev.append(("raw", chunk))
            pos += need
        i += 1


def ref_netstring(s, mx):
    ev, starts, marks = [], [], []
    pos = 0
    n = len(s)

    def bad(at):
        ev.append(("close",))
        starts.append(pos)
        return ev, "final", starts, marks, at

    while pos < n:
        starts.append(pos)
        j = pos
        while j < n and 48 <= s[j] <= 57:
            j += 1
            digits = s[pos:j]
            if len(digits) > 1 and digits[:1] == b"0":
                return bad(j - 1)
            if int(digits) > mx:
                return bad(j - 1)
        if j == pos:
            return bad(pos)
        if j == n:
            return ev, "clean", starts, marks, None
        if s[j] != 58:
            return bad(j)
        need = int(s[pos:j])
        marks.append((pos + 1, j + 1, need - mx))
        end = j + 1 + need
        if n < end + 1:
            return ev, "clean", starts, marks, None
        marks.append((end, end, need - mx))
        if s[end] != 44:
            return bad(end)
        ev.append(("str", s[j + 1:end]))
        pos = end + 1
    starts.append(pos)
    return ev, "clean", starts, marks, None


def ref_intn(s, kind, mx, reconf=None):
    reconf = reconf or {}
    fmt, pl = PREFIX[kind]
    ev, starts, marks = [], [], []
    pos = 0
    i = 0
    while True:
        starts.append(pos)
        if len(s) - pos < pl:
            return ev, "clean", starts, marks, None
        v = 0
        for b in s[pos:pos + pl]:
            v = v * 256 + b
        if pl > 1:
            marks.append((pos + 1, pos + pl, v - mx))
        else:
            marks.append((pos, pos + 1, v - mx))
        if v > mx:
            ev += [("oversize", v), ("close",)]
            starts.append(pos)
            return ev, "final", starts, marks, pos + pl - 1
        if len(s) - pos - pl < v:
            return ev, "clean", starts, marks, None
        ev.append(("str", s[pos + pl:pos + pl + v]))
        pos += pl + v
        if i in reconf and reconf[i][1] is not None:
            mx = reconf[i][1]
        i += 1


def reference(case, stream):
    kind = case["recv"]
    if kind in LINEKINDS:
        return ref_lines(stream, case["delim"], case["max"], _raw_after(case), _reconf(case))
    if kind == "netstring":
        return ref_netstring(stream, case["max"])
    return ref_intn(stream, kind, case["max"], _reconf(case))


def _reconf(case):
    """{message index: (new delimiter or None, new MAX_LENGTH or None)} — set by the application from
    inside lineReceived / stringReceived (LineReceiver and IntNStringReceiver read their
    configuration per message; AMP changes MAX_LENGTH this way)."""
    if case["recv"] == "lineonly" or case["recv"] == "netstring" or "send" in case:
        return {}
    out = {}
    for i, d, m in case.get("policy", {}).get("reconf", []):
        out[int(i)] = (d if case["recv"] == "line" else None, m)
    return out


def _raw_after(case):
    if case["recv"] != "line" or "send" in case:
        return {}   # raw sections only for literal streams: sent messages are expected back as lines
    return {int(i): int(n) for i, n in case.get("policy", {}).get("raw", [])}


# --------------------------------------------------------------------------
# the real receivers under a recording transport

class _Transport:
    def __init__(self, log):
        self.log = log
        self.disconnecting = False
        self.out = []

    def write(self, data):
        self.out.append(bytes(data))

    def writeSequence(self, seq):
        for x in seq:
            self.out.append(bytes(x))

    def loseConnection(self):
        if not self.disconnecting:
            self.log.append(("close",))
            self.disconnecting = True

    def pauseProducing(self):
        pass

    def resumeProducing(self):
        pass

    def stopProducing(self):
        pass


def _make(case):
    """-> (protocol, transport, log, finish())"""
    from twisted.protocols import basic
    kind = case["recv"]
    log = []
    tr = _Transport(log)
    pol = case.get("policy", {})
    raw_after = _raw_after(case)
    reconf = _reconf(case)
    pause_at = set(pol.get("pause", [])) if kind in ("line", "int8", "int16", "int32") else set()
    state = {"lines": 0, "need": 0, "acc": [], "inraw": False, "dropped": 0}
    holder = {}

    def rec(ev):
        if tr.disconnecting:
            state["dropped"] += 1
            return
        log.append(ev)
        if (len(log) - 1) in pause_at:
            holder["p"].pauseProducing()

    if kind == "line":
        class P(basic.LineReceiver):
            def lineReceived(self, line):
                i = state["lines"]
                state["lines"] += 1
                rec(("line", line))
                if i in reconf:
                    nd, nm = reconf[i]
                    if nd is not None:
                        self.delimiter = nd
                    if nm is not None:
                        self.MAX_LENGTH = nm
                if i in raw_after and not tr.disconnecting:
                    state["need"] = raw_after[i]
                    state["acc"] = []
                    state["inraw"] = True
                    self.setRawMode()

            def rawDataReceived(self, data):
                take = data[:state["need"]]
                state["acc"].append(take)
                state["need"] -= len(take)
                if state["need"] == 0:
                    state["inraw"] = False
                    rec(("raw", b"".join(state["acc"])))
                    self.setLineMode(data[len(take):])

            def lineLengthExceeded(self, line):
                rec(("oversize",))
                return basic.LineReceiver.lineLengthExceeded(self, line)
    elif kind == "lineonly":
        class P(basic.LineOnlyReceiver):
            def lineReceived(self, line):
                rec(("line", line))

            def lineLengthExceeded(self, line):
                rec(("oversize",))
                return basic.LineOnlyReceiver.lineLengthExceeded(self, line)
    elif kind == "netstring":
        class P(basic.NetstringReceiver):
            def stringReceived(self, s):
                rec(("str", s))
    else:
        base = {"int8": basic.Int8StringReceiver, "int16": basic.Int16StringReceiver,
                "int32": basic.Int32StringReceiver}[kind]

        class P(base):
            def stringReceived(self, s):
                i = state["lines"]
                state["lines"] += 1
                rec(("str", s))
                if i in reconf and reconf[i][1] is not None:
                    self.MAX_LENGTH = reconf[i][1]

            def lengthLimitExceeded(self, length):
                rec(("oversize", length))
                return base.lengthLimitExceeded(self, length)

    p = P()
    p.MAX_LENGTH = case["max"]
    if kind in LINEKINDS:
        p.delimiter = case["delim"]
    holder["p"] = p

    def finish():
        if state["inraw"] and not tr.disconnecting:
            log.append(("rawpart", b"".join(state["acc"])))

    return p, tr, log, finish


class _HarnessLoop(Exception):
    pass


def feed(case, segs):
    """Deliver segs; -> (events up to first close, fed[i] = bytes delivered when
    event i was recorded)."""
    p, tr, log, finish = _make(case)
    p.makeConnection(tr)
    if case.get("prior") is not None and case["recv"] == "netstring":
        # the same protocol object served an earlier connection (NetstringReceiver.makeConnection
        # "initializes the protocol"); whatever that connection left behind must not leak
        from twisted.python.failure import Failure
        from twisted.internet.error import ConnectionDone
        if case["prior"]:
            p.dataReceived(case["prior"])
        p.connectionLost(Failure(ConnectionDone()))
        del log[:]
        tr.disconnecting = False
        p.makeConnection(tr)
    pausable = hasattr(p, "resumeProducing")
    lag = int(case.get("policy", {}).get("lag", 0))
    fedat = []
    fed = 0
    waiting = None
    for seg in segs:
        if tr.disconnecting:
            break
        fed += len(seg)
        p.dataReceived(seg)
        fedat += [fed] * (len(log) - len(fedat))
        guard = 0
        while pausable and p.paused and not tr.disconnecting:
            if waiting is None:
                waiting = lag
            if waiting > 0:
                waiting -= 1
                break
            waiting = None
            p.resumeProducing()
            fedat += [fed] * (len(log) - len(fedat))
            guard += 1
            if guard > 100000:
                raise _HarnessLoop()
    guard = 0
    while pausable and p.paused and not tr.disconnecting:
        p.resumeProducing()
        guard += 1
        if guard > 100000:
            raise _HarnessLoop()
    finish()
    fedat += [fed] * (len(log) - len(fedat))
    return list(log), fedat


# --------------------------------------------------------------------------
# comparison

def _is_msg(e):
    return e[0] in ("line", "str")


def mismatch(case, stream, ref, got, fedat):
    """None, or (signature-suffix, detail)."""
    kind = case["recv"]
    mx = case["max"]
    rev, tail, starts, _marks, badpos = ref
    static = not _reconf(case)
    # (3) direct limit check
    for e in got:
        if static and _is_msg(e) and len(e[1]) > mx:
            return "delivered-overlong", f"delivered a {len(e[1])}-byte message with MAX_LENGTH={mx}"
    want = list(rev)
    if got == want:
        return None
    if tail == "doomed":
        closing = [("oversize",), ("close",)] if kind in LINEKINDS else [("close",)]
        if got == want + closing:
            return None
    if kind == "netstring" and tail == "final" and badpos == len(stream) - 1 and got == want[:-1]:
        return None  # malformed last byte of the stream, reported late: tolerated (see level_note)
    # classify the first difference
    i = 0
    while i < len(got) and i < len(want) and got[i] == want[i]:
        i += 1
    g = got[i] if i < len(got) else None
    w = want[i] if i < len(want) else None
    d = f"event {i}: real {g!r}, reference {w!r}; real={got!r} reference={want!r} tail={tail}"
    if g is not None and g[0] == "oversize" and (w is None or w[0] != "oversize"):
        if kind in LINEKINDS and static:
            delim = case["delim"]
            start = starts[i] if i < len(starts) else starts[-1]
            pend = stream[start:fedat[i]]
            if delim not in pend and len(pend) > mx and any(
                    pend.endswith(delim[:k]) and len(pend) - k <= mx for k in range(1, len(delim))):
                return "maxlen-split-delimiter", (
                    f"buffer {pend!r} = legal line + first part of the delimiter {delim!r}, "
                    f"rejected with MAX_LENGTH={mx}; " + d)
        return "spurious-oversize", d
    if g is not None and g[0] == "oversize" and w is not None and w[0] == "oversize":
        return "oversize-argument", d
    if g is not None and g[0] == "close" and (w is None or w[0] != "close"):
        return "spurious-close", d
    if w is not None and w[0] in ("oversize", "close") and (g is None or g[0] != w[0]):
        if g is not None and _is_msg(g):
            return "message-instead-of-rejection", d
        return "missing-rejection", d
    if g is None:
        return "missing-events", d
    if w is None:
        return "extra-events", d
    if g[0] in ("raw", "rawpart") or w[0] in ("raw", "rawpart"):
        return "raw-section-differs", d
    return "wrong-message", d


# --------------------------------------------------------------------------
# building the stream with the protocol's own send method

def sendable(case, m):
    if case["recv"] in LINEKINDS:
        d = case["delim"]
        return (m + d).find(d) == len(m)
    return True


def build_stream(ctx, case):
    """-> (stream, expected events or None)"""
    if "send" not in case:
        return case["stream"], None
    from twisted.protocols import basic
    p, tr, _log, _fin = _make(case)
    p.makeConnection(tr)
    kind = case["recv"]
    mx = case["max"]
    exp = []
    closed = False
    for m in case["send"]:
        before = len(tr.out)
        if kind in LINEKINDS:
            p.sendLine(m)
        elif kind == "netstring":
            p.sendString(m)
        else:
            limit = 2 ** (8 * PREFIX[kind][1])
            try:
                p.sendString(m)
            except basic.StringTooLongError:
                if len(m) < limit:
                    ctx.violation(f"{kind}:send-refused-legal", case, f"sendString refused {len(m)} bytes")
                if len(tr.out) != before:
                    ctx.violation(f"{kind}:send-partial-on-refusal", case, "bytes written although refused")
                ctx.count("send: StringTooLongError")
                continue
            if len(m) >= limit:
                ctx.violation(f"{kind}:send-accepted-unrepresentable", case, f"{len(m)} bytes accepted")
        if closed:
            continue
        if len(m) > mx:
            exp += [("oversize",) if kind in LINEKINDS else ("oversize", len(m)), ("close",)]
            if kind == "netstring":
                exp = exp[:-2] + [("close",)]
            closed = True
        else:
            exp.append(("line" if kind in LINEKINDS else "str", m))
    return b"".join(tr.out), exp


# --------------------------------------------------------------------------

def expand_cuts(case, stream, ref):
    c = case["cuts"]
    n = len(stream)
    if c == "all12":
        for i in range(1, n):
            yield [i]
        for i in range(1, n):
            for j in range(i + 1, n):
                yield [i, j]
    elif c == "bytewise":
        yield list(range(1, n))
    elif c == "framing":
        # a cut at every position inside / next to framing
        pts = sorted({p for lo, hi, _ in ref[3] for p in range(lo, hi + 1) if 0 < p < n})
        yield pts
        for p in pts[:64]:
            yield [p]
    else:
        yield sorted({int(x) for x in c if 0 < int(x) < n})


def run_case(ctx, case):
    kind = case["recv"]
    mx = case["max"]
    if "send" in case and not all(sendable(case, m) for m in case["send"]):
        ctx.count("skipped: message contains the delimiter")
        return
    stream, direct = build_stream(ctx, case)
    ref = reference(case, stream)
    rev, tail, _starts, marks, _bad = ref
    if direct is not None and rev != direct:
        ctx.violation(f"{kind}:send-encoding", case,
                      f"wire {stream!r} frames as {rev!r}, sent {direct!r}")
    dl = len(case["delim"]) if kind in LINEKINDS else 1
    hot = [(lo, hi) for lo, hi, delta in marks if abs(delta) <= max(1, dl)]

    problems = []   # (sig, detail, cuts)
    whole, fw = feed(case, [stream] if stream else [])
    m = mismatch(case, stream, ref, whole, fw)
    if m:
        problems.append((m[0], "whole delivery: " + m[1], []))
    nseg = 0
    for cuts in expand_cuts(case, stream, ref):
        nseg += 1
        segs = harness.split_at(stream, cuts) if stream else []
        got, fa = feed(case, segs)
        m = mismatch(case, stream, ref, got, fa)
        if m:
            problems.append((m[0], f"cuts {cuts}: " + m[1], cuts))
        elif got != whole:
            problems.append(("segmentation-dependent",
                             f"cuts {cuts}: {got!r} but whole delivery gives {whole!r}", cuts))
        if any(lo <= c <= hi for c in cuts for lo, hi in hot):
            ctx.nontrivial((kind, mx, case.get("delim"), stream, case.get("policy"), case.get("prior"), tuple(cuts)))
            ctx.count("nontrivial segmentations")
    if nseg > 1:
        ctx.case(nseg - 1)
    ctx.count("segmentations", nseg)
    ctx.count(f"recv={kind}")
    ctx.count("mode=" + ("send" if "send" in case else "stream"))
    ctx.count("tail=" + tail)
    if any(e[0] == "oversize" for e in rev):
        ctx.count("reference: oversize message")
    if kind == "netstring" and tail == "final":
        ctx.count("reference: illegal netstring")
    if any(e[0] in ("raw", "rawpart") for e in rev):
        ctx.count("has raw section")
    rc = _reconf(case)
    nmsgs = sum(1 for e in rev if _is_msg(e))
    if any(i < nmsgs - 1 and d is not None for i, (d, m) in rc.items()):
        ctx.count("delimiter changed from lineReceived with lines following")
    if any(i < nmsgs - 1 and m is not None for i, (d, m) in rc.items()):
        ctx.count("MAX_LENGTH changed from a callback with messages following")
    if case.get("prior") is not None and kind == "netstring":
        ctx.count("netstring: protocol object reused for a second connection")
        pr = ref_netstring(case["prior"], mx)
        if pr[1] == "final" or (case["prior"] and (not pr[2] or pr[2][-1] < len(case["prior"]))):
            ctx.count("netstring: reused after a connection that ended mid-message or in a parse error")
    if case.get("policy", {}).get("pause") and kind not in ("lineonly", "netstring"):
        ctx.count("has pause")
    if sum(1 for e in rev if _is_msg(e) and len(e[1]) == mx):
        ctx.count("has message of exactly MAX_LENGTH")
    if hot and len(ctx.samples) < 5 and len(stream) % 5 == 2:
        ctx.sample(case)
    if problems:
        # unknown root causes first, so a listed finding cannot hide another one
        problems.sort(key=lambda t: (f"{kind}:{t[0]}" in ctx.known_sigs, len(t[2]), t[2]))
        sig, detail, cuts = problems[0]
        small = dict(case)
        small["cuts"] = cuts
        ctx.violation(f"{kind}:{sig}", small, f"MAX_LENGTH={mx} stream={stream!r} " + detail)


# --------------------------------------------------------------------------
# generators

def _lens(mx, dl):
    near = [0, 1, mx - 1, mx, mx + 1, mx + dl - 1, mx + dl, mx + dl + 1]
    return st.one_of(st.sampled_from([x for x in near if x >= 0]), st.integers(0, mx + dl + 2))


def _cuts(limit):
    return st.one_of(st.just("bytewise"), st.just("framing"),
                     st.lists(st.integers(1, limit), max_size=8))


def _policy(kind, nmsg):
    if kind == "line":
        return st.fixed_dictionaries(dict(
            raw=st.lists(st.tuples(st.integers(0, max(0, nmsg)), st.integers(1, 7)).map(list),
                         max_size=2, unique_by=lambda t: t[0]),
            pause=st.lists(st.integers(0, nmsg + 2), max_size=3, unique=True),
            lag=st.integers(0, 2)))
    if kind in PREFIX:
        return st.fixed_dictionaries(dict(
            pause=st.lists(st.integers(0, nmsg + 2), max_size=3, unique=True),
            reconf=st.lists(st.tuples(st.integers(0, max(0, nmsg - 1)), st.none(),
                                      st.one_of(st.integers(1, 6), st.integers(1, 40))).map(list),
                            max_size=1),
            lag=st.integers(0, 2)))
    return st.just({})


@st.composite
def line_cases(draw, all_limit):
    kind = draw(st.sampled_from(LINEKINDS))
    delim = draw(st.sampled_from(DELIMS))
    dl = len(delim)
    mx = draw(st.one_of(st.integers(1, 5), st.integers(1, 40)))
    alpha = sorted(set(b"ab" + delim + b"\r\n"))
    text = lambda n: st.lists(st.sampled_from(alpha), min_size=n, max_size=n).map(bytes)
    send = draw(st.integers(0, 4)) == 0
    nmsg = draw(st.integers(0, 4))
    reconf = []
    if kind == "line" and not send and nmsg >= 2 and draw(st.integers(0, 2)) == 0:
        for idx in sorted(draw(st.lists(st.integers(0, nmsg - 2), min_size=1, max_size=2, unique=True))):
            nd = draw(st.one_of(st.none(), st.sampled_from(DELIMS)))
            nm = draw(st.one_of(st.none(), st.integers(1, 6), st.integers(1, 40)))
            if nd is not None or nm is not None:
                reconf.append([idx, nd, nm])
    if send:
        msgs = []
        for _ in range(nmsg):
            m = draw(_lens(mx, dl).flatmap(text))
            if (m + delim).find(delim) != len(m):
                m = b"b" * len(m)   # keep the length, drop the delimiter
            msgs.append(m)
        case = dict(recv=kind, max=mx, delim=delim, send=msgs)
        total = sum(len(m) + dl for m in msgs)
    else:
        parts = []
        cd, cm = delim, mx      # the framing in force while the stream is being composed
        changes = {r[0]: r for r in reconf}
        for k in range(nmsg):
            parts.append(draw(_lens(cm, len(cd)).flatmap(text)))
            parts.append(draw(st.sampled_from([cd, cd, cd, cd[:-1], cd + cd[:1]])))
            if k in changes:
                cd = changes[k][1] if changes[k][1] is not None else cd
                cm = changes[k][2] if changes[k][2] is not None else cm
        stream = b"".join(parts)
        trunc = draw(st.sampled_from([0, 0, 0, 1, 2, dl]))
        if trunc:
            stream = stream[:max(0, len(stream) - trunc)]
        case = dict(recv=kind, max=mx, delim=delim, stream=stream)
        total = len(stream)
    case["policy"] = draw(_policy(kind, nmsg))
    if reconf:
        case["policy"]["reconf"] = reconf
    if total <= all_limit and draw(st.integers(0, 2)) > 0:
        case["cuts"] = "all12"
    else:
        case["cuts"] = draw(_cuts(max(1, total)))
    return case


@st.composite
def netstring_cases(draw, all_limit):
    mx = draw(st.one_of(st.integers(1, 12), st.sampled_from([9, 10, 11, 99, 100, 101])))
    payload = lambda n: st.lists(st.sampled_from(list(b"a,:019\n")), min_size=n, max_size=n).map(bytes)
    small = st.one_of(st.sampled_from([0, 1, max(0, mx - 1), mx, mx + 1]), st.integers(0, mx + 2))
    small = small.filter(lambda n: n <= 24)
    nmsg = draw(st.integers(0, 4))
    send = draw(st.integers(0, 4)) == 0
    if send:
        msgs = [draw(small.flatmap(payload)) for _ in range(nmsg)]
        case = dict(recv="netstring", max=mx, send=msgs)
        total = sum(len(m) + 4 for m in msgs)
    else:
        parts = []
        for _ in range(nmsg):
            n = draw(small)
            body = draw(payload(n))
            flavour = draw(st.sampled_from(["ok"] * 6 + ["zero", "nocomma", "short", "long", "nocolon",
                                                         "huge", "junk", "newline"]))
            head = str(n).encode()
            if flavour == "ok":
                parts.append(head + b":" + body + b",")
            elif flavour == "zero":
                parts.append(b"0" + head + b":" + body + b",")
            elif flavour == "nocomma":
                parts.append(head + b":" + body + draw(st.sampled_from([b"", b";", b"a"])))
            elif flavour == "short":
                parts.append(str(n + 1).encode() + b":" + body + b",")
            elif flavour == "long":
                parts.append(str(max(0, n - 1)).encode() + b":" + body + b",")
            elif flavour == "nocolon":
                parts.append(head + draw(st.sampled_from([b"", b";", b",", b"a"])) + body + b",")
            elif flavour == "huge":
                parts.append(draw(st.sampled_from([str(mx + 1), str(mx * 10), "9" * 7, "1" + "0" * 30])).encode()
                             + draw(st.sampled_from([b"", b":"])) + body)
            elif flavour == "newline":
                parts.append(head + b"\n" + draw(st.sampled_from([b"", b":", b"\n"])))
            else:
                parts.append(draw(payload(draw(st.integers(1, 3)))))
        stream = b"".join(parts)
        trunc = draw(st.sampled_from([0, 0, 0, 1, 2, 3]))
        if trunc:
            stream = stream[:max(0, len(stream) - trunc)]
        case = dict(recv="netstring", max=mx, stream=stream)
        total = len(stream)
        if draw(st.integers(0, 3)) == 0:
            # the protocol object already served a connection that ended like this
            case["prior"] = draw(st.one_of(
                st.sampled_from([b"", b"1", b"1:", b"2:a", b"1:a", b"x", b"1:ab", b"0:,", b"01", str(mx).encode()]),
                st.tuples(small, st.integers(0, 3)).map(
                    lambda t: (str(t[0]).encode() + b":" + b"z" * t[0] + b",")[:max(0, t[0] + 3 - t[1])])))
    case["policy"] = {}
    if total <= all_limit and draw(st.integers(0, 2)) > 0:
        case["cuts"] = "all12"
    else:
        case["cuts"] = draw(_cuts(max(1, total)))
    return case


@st.composite
def intn_cases(draw, all_limit):
    kind = draw(st.sampled_from(["int8", "int16", "int32"]))
    fmt, pl = PREFIX[kind]
    send = draw(st.integers(0, 4)) == 0
    nmsg = draw(st.integers(0, 4))
    body = lambda n: st.lists(st.sampled_from([0, 1, 2, 255, 97]), min_size=n, max_size=n).map(bytes)
    if send and kind == "int8" and draw(st.booleans()):
        # the representable limit of the one-byte prefix
        mx = draw(st.sampled_from([254, 255, 256, 300]))
        msgs = [draw(st.sampled_from([0, 1, 254, 255, 256, 257]).flatmap(body))
                for _ in range(draw(st.integers(1, 3)))]
        case = dict(recv=kind, max=mx, send=msgs, policy=draw(_policy(kind, len(msgs))))
        case["cuts"] = draw(_cuts(600))
        return case
    mx = draw(st.one_of(st.integers(1, 5), st.integers(1, 40)))
    lens = st.one_of(st.sampled_from([0, 1, mx - 1, mx, mx + 1]), st.integers(0, mx + 2))
    if send:
        msgs = [draw(lens.flatmap(body)) for _ in range(nmsg)]
        case = dict(recv=kind, max=mx, send=msgs)
        total = sum(len(m) + pl for m in msgs)
    else:
        parts = []
        top = 256 ** pl - 1
        for _ in range(nmsg):
            n = draw(lens)
            claim = draw(st.sampled_from([n] * 8 + [n + 1, min(top, mx + 1), top, min(top, 256), min(top, 65536)]))
            parts.append(struct.pack(fmt, min(claim, top)) + draw(body(n)))
        stream = b"".join(parts)
        trunc = draw(st.sampled_from([0, 0, 0, 1, 2, pl]))
        if trunc:
            stream = stream[:max(0, len(stream) - trunc)]
        case = dict(recv=kind, max=mx, stream=stream)
        total = len(stream)
    case["policy"] = draw(_policy(kind, nmsg))
    if total <= all_limit and draw(st.integers(0, 2)) > 0:
        case["cuts"] = "all12"
    else:
        case["cuts"] = draw(_cuts(max(1, total)))
    return case


def grid_cases():
    """Deterministic boundary grid: one message of every length around the limit,
    followed by a second short one, every 1- and 2-cut split."""
    for kind in LINEKINDS:
        for delim in DELIMS:
            dl = len(delim)
            for mx in (1, 2, 3, 5):
                for n in range(max(0, mx - 2), mx + dl + 2):
                    for nxt in (b"", b"x" + delim, b"x"):
                        yield dict(recv=kind, max=mx, delim=delim, stream=b"a" * n + delim + nxt,
                                   policy={}, cuts="all12")
                if kind == "line":
                    for n in (mx - 1, mx):
                        yield dict(recv=kind, max=mx, delim=delim,
                                   stream=b"a" * n + delim + b"\x01\x02\x03" + b"b" * mx + delim + b"c",
                                   policy=dict(raw=[[0, 3]], pause=[0, 1], lag=1), cuts="all12")
    # framing renegotiated from lineReceived: the command line and what follows in one stream
    for d1, d2 in ((b"\r\n", b"\n"), (b"\n", b"\r\n"), (b"\r\n", b"--"), (b"\x00", b"abc")):
        for m1, m2 in ((2, 2), (2, 4), (4, 2)):
            for n in (m2 - 1, m2, m2 + 1):
                yield dict(recv="line", max=m1, delim=d1,
                           stream=b"c" + d1 + b"b" * n + d2 + b"a" + d2 + b"a" + d1,
                           policy=dict(reconf=[[0, d2 if d2 != d1 else None, m2 if m2 != m1 else None]]), cuts="all12")
    for kind in sorted(PREFIX):
        fmt = PREFIX[kind][0]
        for m1, m2 in ((1, 3), (3, 1)):
            for n in (m2 - 1, m2, m2 + 1):
                yield dict(recv=kind, max=m1, stream=struct.pack(fmt, 1) + b"c" + struct.pack(fmt, n) + b"p" * n
                           + struct.pack(fmt, 0), policy=dict(reconf=[[0, None, m2]], pause=[], lag=0), cuts="all12")
    # a NetstringReceiver object reused for a second connection
    for prior in (b"", b"5:ab", b"12", b"x", b"3:abc", b"2:ab,", b"1:a;", b"3"):
        for mx in (3, 12):
            yield dict(recv="netstring", max=mx, prior=prior, stream=b"1:q,2:rs,", policy={}, cuts="all12")
    for mx in (1, 2, 9, 10, 11):
        for n in (mx - 1, mx, mx + 1):
            for tailb in (b",", b";", b""):
                yield dict(recv="netstring", max=mx, stream=str(n).encode() + b":" + b"p" * n + tailb + b"1:q,",
                           policy={}, cuts="all12")
    for kind, (fmt, pl) in sorted(PREFIX.items()):
        for mx in (1, 2, 3):
            for n in (mx - 1, mx, mx + 1):
                for pause in ([], [0]):
                    yield dict(recv=kind, max=mx,
                               stream=struct.pack(fmt, n) + b"p" * n + struct.pack(fmt, 1) + b"q" + struct.pack(fmt, 0),
                               policy=dict(pause=pause, lag=1), cuts="all12")


def _thorough_shard(sub, i):
    lim = 48
    hyp_run(sub, line_cases(lim), run_case, 1700, label=f"line{i}")
    hyp_run(sub, netstring_cases(lim), run_case, 1000, label=f"netstring{i}")
    hyp_run(sub, intn_cases(lim), run_case, 1000, label=f"intn{i}")


def run(ctx):
    enumerate_run(ctx, grid_cases(), run_case)
    if ctx.has_violation():
        return
    lim = ctx.pick(32, 48)
    if ctx.thorough:
        ctx.shards(_thorough_shard, list(range(16)))
        return
    hyp_run(ctx, line_cases(lim), run_case, 700, label="line")
    if ctx.has_violation():
        return
    hyp_run(ctx, netstring_cases(lim), run_case, 400, label="netstring")
    if ctx.has_violation():
        return
    hyp_run(ctx, intn_cases(lim), run_case, 400, label="intn")
