"""C17 — TLSMemoryBIOProtocol client <-> server over a harness-owned wire and clock.

Two real TLS protocol instances (``BufferingTLSTransport`` or plain
``TLSMemoryBIOProtocol``) are joined by a wire whose delivery schedule,
segmentation, close timing and back-pressure are values of the case; the clock
is harness-owned and iterates like a reactor (only calls that were pending when
the iteration started run).  The n-th application byte a side ever writes is
PATTERN[side][n], so "exactly the bytes the peer wrote, in order" is a slice
comparison.

pyOpenSSL is vendored in /verif/vendor/OpenSSL (see VENDORED.txt there); the
certificate is built from a committed P-256 private scalar.
"""
import datetime
import hashlib
import itertools

from hypothesis import strategies as st

from lib.core import hyp_run, enumerate_run

META = dict(
    property="C17",
    level="exploration",
    technique="op-list histories (application writes / writeSequence, push and pull producers, loseConnection, k-byte deliveries of either encrypted stream, clock iterations, transport back-pressure, transport close completion) over two real TLS memory-BIO protocols joined by a generated wire; byte-position model of the two application streams",
    level_text="Hypothesis histories of up to 40 operations over TLS 1.3 and TLS 1.2, buffering and non-buffering TLS transports, two legal underlying-transport behaviours for writes after loseConnection and for abort; plus every history of length <= 3 (quick: two of the four version/transport combinations at length 3) / <= 4 (thorough) over a 12-operation alphabet. After each history a fair continuation (tick, deliver everything, complete requested closes) runs to quiescence. Sampled, not exhaustive.",
    level_note="Trusted: OpenSSL, cryptography's bindings, the vendored pyOpenSSL 23.0.0 with its _LibProxy shim, the harness wire/clock/producers. No faults are injected into the encrypted streams (no corruption, no loss other than what a closed transport legally discards). 'Eventually closed' is checked as quiescence under the fair continuation.",
    design_ref="§5 C17",
    rule="case = (tls version, transport classes, wire behaviour flags, op list). non-trivial = some application write was issued before that side's handshake completed AND a loseConnection happened while application or encrypted bytes were still in flight; distinct by the whole case.",
)

PLEN = 4 * 1024 * 1024
OVERTAKE = "write-in-handshakecompleted-overtakes-buffered-writes"
_PAT = []


def _patterns():
    if not _PAT:
        _PAT.append(hashlib.shake_256(b"verif C17 client").digest(PLEN))
        _PAT.append(hashlib.shake_256(b"verif C17 server").digest(PLEN))
        _PAT.append(hashlib.shake_256(b"verif C17 poison").digest(1 << 17))
    return _PAT


# committed key material: a P-256 private scalar (test key, no secret)
_KEY_SCALAR = 0x1C17C17C17C17C17C17C17C17C17C17C17C17C17C17C17C17C17C17C17C17C17
_TLS = {}


def _tls_objects():
    """(SSL module, server creator, client creator) per tls12 flag; built once."""
    if not _TLS:
        from OpenSSL import SSL, crypto
        from cryptography import x509
        from cryptography.x509.oid import NameOID
        from cryptography.hazmat.primitives import hashes
        from cryptography.hazmat.primitives.asymmetric import ec
        from zope.interface import implementer
        from twisted.internet.interfaces import (IOpenSSLClientConnectionCreator,
                                                 IOpenSSLServerConnectionCreator)
        priv = ec.derive_private_key(_KEY_SCALAR, ec.SECP256R1())
        name = x509.Name([x509.NameAttribute(NameOID.COMMON_NAME, "c17.verif.invalid")])
        cert = (x509.CertificateBuilder().subject_name(name).issuer_name(name)
                .public_key(priv.public_key()).serial_number(17)
                .not_valid_before(datetime.datetime(2020, 1, 1))
                .not_valid_after(datetime.datetime(2099, 1, 1))
                .sign(priv, hashes.SHA256()))
        X = crypto.X509.from_cryptography(cert)
        K = crypto.PKey.from_cryptography_key(priv)

        def mkctx(server, tls12):
            c = SSL.Context(SSL.TLS_METHOD)
            if server:
                c.use_certificate(X)
                c.use_privatekey(K)
            if tls12:
                c.set_max_proto_version(SSL.TLS1_2_VERSION)
            return c

        @implementer(IOpenSSLServerConnectionCreator)
        class ServerCreator:
            def __init__(self, tls12):
                self.c = mkctx(True, tls12)

            def serverConnectionForTLS(self, proto):
                return SSL.Connection(self.c, None)

        @implementer(IOpenSSLClientConnectionCreator)
        class ClientCreator:
            def __init__(self, tls12):
                self.c = mkctx(False, tls12)

            def clientConnectionForTLS(self, proto):
                return SSL.Connection(self.c, None)

        _TLS["SSL"] = SSL
        for t in (False, True):
            _TLS[t] = (ServerCreator(t), ClientCreator(t))
    return _TLS


# ---------------------------------------------------------------------------
# harness-owned clock with reactor-iteration semantics

class _Call:
    def __init__(self, clock, t, f, a, kw):
        self.clock, self.t, self.f, self.a, self.kw = clock, t, f, a, kw
        self.cancelled = self.called = False

    def cancel(self):
        self.cancelled = True
        if self in self.clock.calls:
            self.clock.calls.remove(self)

    def active(self):
        return not (self.cancelled or self.called)

    def getTime(self):
        return self.t

    def reset(self, delay):
        self.t = self.clock.now + delay

    def delay(self, d):
        self.t += d


class _IterClock:
    def __init__(self):
        self.now = 0.0
        self.calls = []

    def seconds(self):
        return self.now

    def callLater(self, delay, f, *a, **kw):
        c = _Call(self, self.now + delay, f, a, kw)
        self.calls.append(c)
        return c

    def getDelayedCalls(self):
        return list(self.calls)

    def iterate(self):
        """Run the calls that are due now and were scheduled before this iteration."""
        due = [c for c in self.calls if c.t <= self.now]
        for c in due:
            if c in self.calls:
                self.calls.remove(c)
                c.called = True
                c.f(*c.a, **c.kw)
        return bool(due)


# ---------------------------------------------------------------------------

class _Addr:
    type = "TCP"
    host = "127.0.0.1"
    port = 1


class _Transport:
    """The underlying (plain) transport of one TLS protocol."""

    disconnecting = False

    def __init__(self, h, side):
        self.h = h
        self.side = side
        self.out = bytearray()      # written, not yet delivered to the peer
        self.sent = 0               # wire offset: bytes ever accepted into `out`
        self.gone = 0               # wire offset: bytes delivered to the peer or discarded
        self.closing = False        # loseConnection / abortConnection requested
        self.aborted = False
        self.lost = False
        self.producer = None
        self.paused = False

    def write(self, data):
        if not isinstance(data, bytes):
            self.h.fail("non-bytes-to-transport", f"transport.write({type(data).__name__})")
        if self.lost or self.aborted:
            return
        if self.closing and self.h.case["late"] == "drop":
            self.h.ctx.count("encrypted bytes written after transport.loseConnection (dropped by this transport)")
            return
        self.out += data
        self.sent += len(data)

    def writeSequence(self, iov):
        self.write(b"".join(iov))

    def loseConnection(self):
        self.closing = True
        self.disconnecting = True

    def abortConnection(self):
        if not self.aborted and not self.lost:
            self.h.ctx.count("transport.abortConnection")
            if self.h.case["abort_drops"]:
                self.gone += len(self.out)
                del self.out[:]
        self.closing = True
        self.aborted = True
        self.disconnecting = True

    def registerProducer(self, producer, streaming):
        if self.producer is not None:
            raise RuntimeError("producer already registered")
        if self.lost:
            producer.stopProducing()
            return
        self.producer = producer

    def unregisterProducer(self):
        self.producer = None

    def getPeer(self):
        return _Addr()

    def getHost(self):
        return _Addr()

    def pauseProducing(self):
        pass

    def resumeProducing(self):
        pass

    def stopProducing(self):
        self.loseConnection()


class _AppProducer:
    def __init__(self, h, side, streaming, script):
        self.h, self.side, self.streaming = h, side, streaming
        self.script = [list(s) for s in script]
        self.paused = False
        self.stopped = False

    def _step(self):
        S = self.h.sides[self.side]
        if not self.script:
            if not self.streaming:
                # a pull producer with nothing left says so
                self.h.app_unreg(self.side)
            return
        sizes, then = self.script.pop(0)
        for n in sizes:
            self.h.app_write(self.side, n)
        if then in ("unreg", "unreg+lose") and S.producer is self:
            self.h.app_unreg(self.side)
        if then in ("lose", "unreg+lose"):
            self.h.app_lose(self.side)

    def resumeProducing(self):
        self.h.ctx.count("producer resumeProducing")
        self.paused = False
        if self.stopped or self.h.sides[self.side].producer is not self:
            return
        self._step()

    def pauseProducing(self):
        self.h.ctx.count("producer pauseProducing")
        self.paused = True

    def stopProducing(self):
        self.stopped = True


class _Side:
    pass


class _H:
    def __init__(self, ctx, case):
        from twisted.internet.protocol import Protocol, Factory
        from twisted.internet.interfaces import IHandshakeListener
        from twisted.protocols import tls
        from zope.interface import implementer
        self.ctx, self.case = ctx, case
        self.tlsmod = tls
        objs = _tls_objects()
        self.SSL = objs["SSL"]
        creators = objs[bool(case["tls12"])]
        self.pat = _patterns()
        self.clock = _IterClock()
        self.opi = -1
        self.sides = []
        self.saw_early_write = False
        self.ndeliveries = 0
        self.saw_close_in_flight = False
        h = self

        @implementer(IHandshakeListener)
        class App(Protocol):
            def __init__(self, side):
                self.side = side

            def connectionMade(self):
                n = h.case["cm_write"][self.side]
                if n:
                    h.app_write(self.side, n)

            def handshakeCompleted(self):
                S = h.sides[self.side]
                S.hs_done = True
                n = h.case["hs_write"][self.side]
                if n:
                    # at least 4 bytes, so that the known overtaking defect cannot
                    # hide behind a coincidental 1-byte match
                    n = max(n, 4)
                    S.hs_pos = S.wrote
                    h.ctx.count("application write inside handshakeCompleted()")
                    h.app_write(self.side, n)
                    S.hs_len = S.wrote - S.hs_pos
                if h.case.get("hs_lose", [False, False])[self.side]:
                    h.ctx.count("loseConnection inside handshakeCompleted()")
                    if S.wrote > h.sides[1 - self.side].recv:
                        h.ctx.count("loseConnection inside handshakeCompleted() with earlier writes undelivered")
                    h.app_lose(self.side)

            def dataReceived(self, data):
                h.on_data(self.side, data)

            def connectionLost(self, reason):
                S = h.sides[self.side]
                S.app_lost += 1
                S.lost_reason = reason
                if S.app_lost > 1:
                    h.fail("connectionlost-twice", f"side {self.side}: application connectionLost called again ({reason.value!r})")

        for side in (0, 1):
            S = _Side()
            S.side = side
            S.wrote = 0          # stream bytes the application wrote (model position)
            S.owed = None        # S.wrote at the first loseConnection
            S.lose_called = False
            S.recv = 0           # bytes received from the peer
            S.app_lost = 0
            S.lost_reason = None
            S.hs_done = False
            S.reacted = False
            S.ticked = 0         # stream position up to which writes have seen a clock iteration
            S.close_mark = None  # peer-bound wire offset at this side's first loseConnection
            S.before_peer_close = None   # see note_possible_close()
            S.hs_pos = None      # stream position of the write made inside handshakeCompleted()
            S.hs_len = 0
            S.producer = None
            S.made = False
            S.transport = _Transport(self, side)
            wf = Factory()
            S.app = App(side)
            wf.buildProtocol = (lambda addr, app=S.app: app)
            f = tls.TLSMemoryBIOFactory(creators[1] if side == 0 else creators[0], side == 0, wf, clock=self.clock)
            if not case["buf"][side]:
                f.protocol = tls.TLSMemoryBIOProtocol
            S.tls = f.buildProtocol(_Addr())
            self.sides.append(S)

    # ------------------------------------------------------------------
    def fail(self, sig, detail):
        self.ctx.violation(sig, self.case, f"op#{self.opi}: {detail}")

    def call(self, f, *a):
        """Call into twisted; an OpenSSL error that escapes is a defect of the TLS layer."""
        try:
            return f(*a)
        except self.SSL.Error as e:
            self.fail("openssl-error-escaped", f"{type(e).__name__}{e.args!r} escaped from {getattr(f, '__qualname__', f)}")

    def in_flight(self):
        a, b = self.sides
        return bool(a.transport.out or b.transport.out or a.recv < b.wrote or b.recv < a.wrote)

    # -- application events ------------------------------------------------
    def on_data(self, side, data):
        S, P = self.sides[side], self.sides[1 - side]
        if S.app_lost:
            self.fail("data-after-connectionlost", f"side {side}: dataReceived({len(data)} bytes) after connectionLost")
        if not data:
            self.ctx.count("empty dataReceived")
        n = len(data)
        if S.recv + n > P.wrote or data != self.pat[1 - side][S.recv:S.recv + n]:
            want = self.pat[1 - side][S.recv:P.wrote]
            p = 0
            m = min(n, len(want))
            while p < m and want[p] == data[p]:
                p += 1
            if P.hs_pos is not None and S.recv + p < P.hs_pos and P.hs_len:
                # Known finding: a write made inside handshakeCompleted() (or the
                # aggregated writes it flushes) goes out before bytes that are
                # still waiting for the handshake.  Recognised by: the diverging
                # bytes are a later piece of the same stream, starting at or
                # before the handshakeCompleted() write.
                window = self.pat[1 - side][S.recv:P.hs_pos + P.hs_len]
                j = window.find(data[:16])
                if j > 0 and S.recv + j <= P.hs_pos:
                    self.fail(OVERTAKE,
                              f"side {side} expected stream offset {S.recv} but received the bytes from offset {S.recv + j} "
                              f"on: what its peer wrote in / flushed from handshakeCompleted() (stream offset {P.hs_pos}) "
                              f"overtook {j} bytes written earlier, which were still waiting for the handshake")
            self.fail("received-bytes-not-a-prefix-of-written",
                      f"side {side} received {n} bytes at stream offset {S.recv} (peer wrote {P.wrote}); "
                      f"first difference at +{p}")
        S.recv += n
        if not S.reacted:
            # the application reacts from inside its first dataReceived (echo / close)
            S.reacted = True
            k = self.case.get("dr_write", [0, 0])[side]
            if k:
                self.ctx.count("application write inside dataReceived()")
                self.app_write(side, k)
            if self.case.get("dr_lose", [False, False])[side]:
                self.ctx.count("loseConnection inside dataReceived()")
                self.app_lose(side)

    def app_write(self, side, n, seq=None):
        S = self.sides[side]
        if S.app_lost or not S.made:
            self.ctx.count("write skipped (application not connected)")
            return
        sizes = [n] if seq is None else seq
        chunks = []
        for k in sizes:
            accepted = (not S.lose_called) or S.producer is not None
            if accepted:
                k = min(k, PLEN - S.wrote)
                chunks.append(self.pat[side][S.wrote:S.wrote + k])
                S.wrote += k
                if k and S.producer is not None:
                    self.ctx.count("application write while a producer is registered")
                if k and not S.hs_done:
                    self.saw_early_write = True
                    self.ctx.count("application write before its handshake completed")
                elif k:
                    self.ctx.count("application write after its handshake completed")
            else:
                # written after loseConnection with no producer: documented as dropped
                chunks.append(self.pat[2][:min(k, len(self.pat[2]))])
                self.ctx.count("application write after its own loseConnection (must be dropped)")
        if seq is None:
            self.call(S.tls.write, chunks[0])
        else:
            self.call(S.tls.writeSequence, chunks)

    def app_lose(self, side):
        S = self.sides[side]
        if S.app_lost or not S.made:
            return
        if not S.lose_called:
            S.lose_called = True
            S.owed = S.wrote
            S.ticked = S.wrote           # loseConnection flushes aggregated small writes
            # its close_notify (and anything else it still sends) lies at or after this wire offset
            S.close_mark = S.transport.sent
            if self.in_flight():
                self.saw_close_in_flight = True
                self.ctx.count("loseConnection with bytes in flight")
            self.ctx.count("loseConnection before handshake completed" if not S.hs_done
                           else "loseConnection after handshake completed")
        self.call(S.tls.loseConnection)

    def app_reg(self, side, streaming, script):
        S = self.sides[side]
        if S.app_lost or not S.made or S.producer is not None or S.lose_called:
            self.ctx.count("registerProducer skipped")
            return
        p = _AppProducer(self, side, bool(streaming), script)
        S.producer = p
        self.ctx.count("registered push producer" if streaming else "registered pull producer")
        self.call(S.tls.registerProducer, p, bool(streaming))
        if p.stopped:
            S.producer = None

    def app_unreg(self, side):
        S = self.sides[side]
        if S.producer is None:
            return
        S.producer = None
        if S.app_lost:
            # Not exercised: on the unchanged tree unregisterProducer() after
            # connectionLost raises AttributeError (_tlsConnection is None) when
            # loseConnection had been called; the statement does not cover
            # calls made after connectionLost.
            self.ctx.count("unregisterProducer after connectionLost skipped")
            return
        self.call(S.tls.unregisterProducer)

    def producer_write(self, side, n):
        S = self.sides[side]
        p = S.producer
        if p is None or not p.streaming or p.paused or p.stopped or S.app_lost:
            self.ctx.count("push-producer write skipped (paused / none)")
            return
        self.ctx.count("push-producer write")
        self.app_write(side, n)

    # -- the wire ------------------------------------------------------------
    def make(self, side):
        S = self.sides[side]
        if not S.made:
            S.made = True
            self.call(S.tls.makeConnection, S.transport)

    def deliver(self, d, k):
        X, Y = self.sides[d], self.sides[1 - d]
        if Y.transport.lost or not Y.made:
            return False
        q = X.transport.out
        if not q:
            if X.transport.lost:
                self.lose_transport(1 - d, eof=True)
                return True
            return False
        if k < 0:
            # generated segment size, for the first 5000 deliveries of a history
            # (bounds the cost of a 1-byte dribble through megabytes)
            self.ndeliveries += 1
            k = self.case["seg"] if self.case["seg"] > 0 and self.ndeliveries <= 5000 else len(q)
        n = min(k, len(q))
        if n == 0:
            return False
        chunk = bytes(q[:n])
        del q[:n]
        X.transport.gone += n
        if X.close_mark is not None and Y.before_peer_close is None and X.transport.gone > X.close_mark:
            # This segment is the first that can tell Y that X is closing.
            # Everything Y wrote up to now (and, for the aggregating transport,
            # handed over by a clock iteration) was written before Y could know.
            Y.before_peer_close = Y.wrote if not self.case["buf"][Y.side] else Y.ticked
            if Y.before_peer_close > X.recv:
                self.ctx.count("first segment that may carry the peer's close arrives while own earlier writes are undelivered")
                if not Y.hs_done:
                    self.ctx.count("... and the same segment completes the handshake (coalesced)")
        self.ctx.count("delivery (partial)" if q else "delivery (all pending)")
        self.call(Y.tls.dataReceived, chunk)
        return True

    def lose_transport(self, side, eof=False):
        """The underlying transport of `side` goes away (requested close completed, or EOF/reset from the peer)."""
        from twisted.python.failure import Failure
        from twisted.internet import error
        S, P = self.sides[side], self.sides[1 - side]
        T = S.transport
        if T.lost or not S.made:
            return False
        if not eof and not T.closing:
            return False
        T.lost = True
        if eof:
            why = error.ConnectionLost() if P.transport.aborted else error.ConnectionDone()
            self.ctx.count("transport lost by EOF/reset from the peer")
        else:
            why = error.ConnectionAborted() if T.aborted else error.ConnectionDone()
            self.ctx.count("transport close completed")
        # whatever the peer still had in flight towards this side is gone
        if P.transport.out:
            self.ctx.count("bytes in flight towards a closed transport discarded")
            P.transport.gone += len(P.transport.out)
            del P.transport.out[:]
        if T.producer is not None:
            p, T.producer = T.producer, None
            self.call(p.stopProducing)
        self.call(S.tls.connectionLost, Failure(why))
        if S.app_lost != 1:
            self.fail("connectionlost-not-forwarded", f"side {side}: TLS connectionLost did not reach the application")
        return True

    def backpressure(self, side, pause):
        T = self.sides[side].transport
        if T.producer is None or T.lost:
            return
        if pause and not T.paused:
            T.paused = True
            self.call(T.producer.pauseProducing)
        elif not pause and T.paused:
            T.paused = False
            self.call(T.producer.resumeProducing)

    def tick(self):
        marks = [S.wrote for S in self.sides]
        r = self.call(self.clock.iterate)
        for S, m in zip(self.sides, marks):
            S.ticked = max(S.ticked, m)
        return r

    def drain(self):
        for _ in range(600):
            progress = False
            if self.tick():
                progress = True
            for d in (0, 1):
                while self.deliver(d, -1):
                    progress = True
            for side in (0, 1):
                if self.lose_transport(side):
                    progress = True
            if not progress:
                return
        self.fail("no-quiescence", "the two TLS layers still exchange traffic / schedule calls after 600 fair rounds")

    # ------------------------------------------------------------------
    def run(self):
        import twisted.internet._producer_helpers as ph
        from twisted.internet import task
        coop = task.Cooperator(terminationPredicateFactory=lambda: (lambda: True),
                               scheduler=lambda f: self.clock.callLater(0, f))
        saved = ph.cooperate
        ph.cooperate = coop.cooperate
        try:
            self._run()
        finally:
            ph.cooperate = saved

    def _run(self):
        ctx, case = self.ctx, self.case
        first = case["first"]
        self.make(first)
        self.make(1 - first)
        for i, op in enumerate(case["ops"]):
            self.opi = i
            k = op[0]
            if k == "w":
                self.app_write(op[1], op[2])
            elif k == "ws":
                self.app_write(op[1], None, seq=list(op[2]))
            elif k == "reg":
                self.app_reg(op[1], op[2], op[3])
            elif k == "unreg":
                self.app_unreg(op[1])
            elif k == "pw":
                self.producer_write(op[1], op[2])
            elif k == "lose":
                self.app_lose(op[1])
            elif k == "d":
                self.deliver(op[1], op[2])
            elif k == "tick":
                self.tick()
            elif k == "sync":
                # everything queued is delivered, repeatedly, until the wire is
                # idle (no clock tick, no close completion): lets a history get
                # past the handshake
                for _ in range(200000):
                    if not (self.deliver(0, -1) | self.deliver(1, -1)):
                        break
            elif k == "tpause":
                self.backpressure(op[1], True)
            elif k == "tresume":
                self.backpressure(op[1], False)
            elif k == "lost":
                self.lose_transport(op[1])
            else:
                raise ValueError(op)
        # fair continuation
        self.opi = len(case["ops"])
        for side in (0, 1):
            self.backpressure(side, False)
            if self.sides[side].producer is not None and not self.sides[side].app_lost:
                self.app_unreg(side)
        self.drain()
        if not any(S.lose_called for S in self.sides):
            if any(S.app_lost for S in self.sides):
                self.fail("closed-without-loseconnection",
                          "an application got connectionLost although nobody called loseConnection and the wire is lossless: "
                          + repr([S.lost_reason and S.lost_reason.value for S in self.sides]))
            # quiescent, both sides connected, nobody closing: delivery must not
            # depend on a later loseConnection
            for S in self.sides:
                P = self.sides[1 - S.side]
                if S.recv != P.wrote:
                    self.fail("bytes-stuck-without-close",
                              f"wire idle, clock ticked, nobody closed: side {S.side} has received {S.recv} of the "
                              f"{P.wrote} bytes its peer wrote")
            ctx.count("nobody closed during the history: closer appointed")
            self.app_lose(case["closer"])
            self.drain()
        for S in self.sides:
            P = self.sides[1 - S.side]
            if not S.transport.lost:
                self.fail("transport-never-closed",
                          f"side {S.side}: underlying transport neither asked to close nor lost at quiescence "
                          f"(closing={S.transport.closing}, peer lost={P.transport.lost})")
            if S.app_lost != 1:
                self.fail("connectionlost-count", f"side {S.side}: application connectionLost called {S.app_lost} times")
            if S.recv > P.wrote:
                self.fail("received-more-than-written", f"side {S.side}")
            if not S.lose_called:
                owed = P.owed if P.lose_called else P.wrote
                if S.recv < owed:
                    self.fail("owed-bytes-not-delivered",
                              f"side {S.side} never called loseConnection and received {S.recv} of the {owed} bytes its peer "
                              f"wrote before the peer's loseConnection (tls12={case['tls12']}, peer handshake done={P.hs_done})")
                ctx.count("receiver that never closed got everything owed")
                if owed:
                    ctx.count("receiver that never closed got everything owed (non-empty)")
            elif not S.transport.aborted and not P.transport.aborted:
                # S itself asked to close (orderly, no abort).  It keeps
                # reading until the peer's close arrives, so it is still owed
                # what the peer wrote before the peer could know about the close
                # (and before the peer's own loseConnection).
                owed = P.wrote if not case["buf"][P.side] else P.ticked
                if P.before_peer_close is not None:
                    owed = min(owed, P.before_peer_close)
                if P.lose_called:
                    owed = min(owed, P.owed)
                if S.recv < owed:
                    self.fail("closing-side-lost-bytes-written-before-its-close-was-known",
                              f"side {S.side} called loseConnection (no abort) and received {S.recv} bytes; its peer had written "
                              f"{owed} bytes before the first segment that could carry side {S.side}'s close reached it "
                              f"(peer wrote {P.wrote} in all, tls12={case['tls12']}, buf={case['buf']})")
                ctx.count("closing side got everything written before its close could be known")
                if owed:
                    ctx.count("closing side got everything written before its close could be known (non-empty)")
        if self.saw_early_write and self.saw_close_in_flight:
            ctx.nontrivial(case)
            ctx.count("nontrivial")
            ctx.sample(case)


def run_case(ctx, case):
    _H(ctx, case).run()


# ---------------------------------------------------------------------------

def _base(**kw):
    d = dict(tls12=False, buf=[True, True], late="keep", abort_drops=False, first=0, closer=0, seg=-1,
             cm_write=[0, 0], hs_write=[0, 0], hs_lose=[False, False], dr_write=[0, 0], dr_lose=[False, False],
             ops=[])
    d.update(kw)
    return d


ALPHABET = [
    ["w", 0, 5], ["w", 1, 5], ["w", 0, 70000], ["lose", 0], ["lose", 1],
    ["d", 0, -1], ["d", 1, -1], ["d", 0, 7], ["sync"], ["tick"], ["lost", 0], ["lost", 1],
]


# what the applications do from inside their callbacks (re-entrant use of the transport)
CALLBACKS = [
    dict(),
    dict(hs_lose=[True, False]), dict(hs_lose=[False, True]),
    dict(hs_write=[6, 0]), dict(hs_write=[0, 6]),
    dict(dr_lose=[True, False]), dict(dr_lose=[False, True]),
    dict(dr_write=[7, 0]), dict(dr_write=[0, 7]),
    dict(cm_write=[5, 5]),
]


def _enum_shard(ctx, arg):
    tls12, buf, cb, length = arg

    def cases():
        for t in itertools.product(range(len(ALPHABET)), repeat=length):
            yield _base(tls12=tls12, buf=[buf, buf], ops=[ALPHABET[i] for i in t], **CALLBACKS[cb])
    enumerate_run(ctx, cases(), run_case)


_EDGE = [0, 1, 2, 100, 16383, 16384, 16385, 32768, 32769, 63999, 64000, 64001, 65536]
_size = st.one_of(st.sampled_from(_EDGE), st.integers(0, 16).flatmap(lambda e: st.integers(0, 1 << e)),
                  st.integers(0, 300))
_small = st.one_of(st.just(0), st.integers(0, 300), _size)
_side = st.integers(0, 1)
_deliver = st.one_of(st.just(-1), st.just(-1), st.integers(1, 8), st.integers(1, 400),
                     st.integers(1, 70000))
_step = st.tuples(st.lists(_size, max_size=2),
                  st.sampled_from([None, None, None, "unreg", "lose", "unreg+lose"])).map(list)
_w = st.tuples(st.just("w"), _side, _size)
_ws = st.tuples(st.just("ws"), _side, st.lists(_size, max_size=3))
_reg = st.tuples(st.just("reg"), _side, st.booleans(), st.lists(_step, max_size=4))
_d = st.tuples(st.just("d"), _side, _deliver)
_tick = st.just(("tick",))
_op = st.one_of(
    _w, _w, _w, _ws, _reg, _reg,
    st.tuples(st.just("unreg"), _side),
    st.tuples(st.just("pw"), _side, _size),
    st.tuples(st.just("lose"), _side),
    _d, _d, _d, _d,
    st.just(("sync",)),
    _tick, _tick, _tick,
    st.tuples(st.sampled_from(["tpause", "tresume"]), _side),
    st.tuples(st.just("lost"), _side),
).map(list)
# a history = what happens before / during the handshake, usually a point
# where the wire is run until idle (handshake done), then the main part
_ops = st.tuples(
    st.lists(st.one_of(_w, _ws, _reg, _d, _d, _tick, st.tuples(st.just("lose"), _side)).map(list), max_size=6),
    st.sampled_from([[], [["sync"]], [["sync"]], [["sync"], ["tick"], ["sync"]]]),
    st.lists(_op, max_size=30),
).map(lambda t: t[0] + t[1] + t[2])

_cases = st.builds(
    dict,
    tls12=st.booleans(),
    buf=st.lists(st.booleans(), min_size=2, max_size=2),
    late=st.sampled_from(["keep", "keep", "drop"]),
    abort_drops=st.booleans(),
    first=_side, closer=_side,
    # segment size used whenever "everything pending" is delivered (-1: one piece)
    seg=st.one_of(st.just(-1), st.just(-1), st.just(-1), st.sampled_from([1460, 16384, 16406]),
                  st.integers(100, 3000), st.sampled_from([1, 5, 6, 37])),
    cm_write=st.lists(_small, min_size=2, max_size=2),
    hs_write=st.lists(st.one_of(st.just(0), st.just(0), st.just(0), _small), min_size=2, max_size=2),
    hs_lose=st.lists(st.sampled_from([False, False, False, False, True]), min_size=2, max_size=2),
    dr_write=st.lists(st.one_of(st.just(0), st.just(0), st.just(0), _small), min_size=2, max_size=2),
    dr_lose=st.lists(st.sampled_from([False, False, False, False, False, True]), min_size=2, max_size=2),
    ops=_ops,
)


def _hyp_shard(ctx, i):
    hyp_run(ctx, _cases, run_case, 3000, label=f"shard{i}")


def run(ctx):
    length = ctx.pick(3, 4)
    # no callback action: up to `length`; each callback action: up to length - 1
    shards = [(t, b, 0, n) for n in range(1, length + 1) for t in (False, True) for b in (True, False)
              if ctx.thorough or n < length or t != b]
    shards += [(t, b, cb, n) for n in range(0, length) for cb in range(1, len(CALLBACKS))
               for t in (False, True) for b in (True, False)]
    if ctx.thorough:
        ctx.shards(_enum_shard, shards)
    else:
        ctx.shards(_enum_shard, shards, procs=1)
    ctx.extra["enumerated_scope"] = (f"all histories of length 1..{length} over {len(ALPHABET)} operations x TLS1.3/1.2 x buffering/plain; "
                                     f"length 0..{length - 1} for each of {len(CALLBACKS) - 1} application callback actions")
    ctx.exhaustive = False
    if ctx.has_violation():
        return
    if ctx.thorough:
        ctx.shards(_hyp_shard, list(range(16)))
    else:
        hyp_run(ctx, _cases, run_case, 1000, label="histories")
