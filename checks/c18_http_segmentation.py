"""C18 — HTTP/1.1 server parsing does not depend on how the bytes are segmented.

A request stream is a list of labelled pieces (request line, header lines,
end-of-headers, chunk-size lines, chunk data, trailers, junk).  The real
``Site``/``HTTPChannel`` is fed the concatenation once in one piece and then
again split at cut points; the requests handed to the resource (method, uri,
version, header list, body, parsed args/cookies), the bytes written to the
transport and the close flag must be identical.  Delivery stops as soon as the
server has asked the transport to close (a real transport stops reading then).
"""
import hashlib
import itertools

from functools import lru_cache

from hypothesis import strategies as st
from zope.interface import implementer

from lib.core import hyp_run, enumerate_run

META = dict(
    property="C18",
    level="exploration",
    technique="metamorphic segmentation test of the real Site/HTTPChannel: one-piece delivery vs all single cuts / all cut pairs / byte-wise / boundary-focused / random cuts of grammar-generated (valid and mutated) request streams",
    level_text="Grammar-generated pipelined request streams (1-4 requests; CL and chunked bodies, extensions, trailers, obs-fold, Expect: 100-continue, Connection: close, HTTP/1.0; mutations: bad request line, header without colon, NUL, bad chunk size, missing chunk CRLF, LF-only, junk, truncation; sizes at MAX_LENGTH / totalHeadersSize / maxChunkSizeLineLength / trailer limit) are delivered whole and re-delivered under every single cut (streams <= 400 bytes), every pair of cuts (<= 80 bytes), byte-wise, cuts around every piece boundary and random cuts; three response schedules (resource finishes inside render, after the delivery that completed the request, only after the whole input). Observed requests + written bytes + close flag must equal the one-piece run. In about 40% of the streams the harness clock advances before every delivery by 2%, 45% or 98% of the channel's idle timeout (never a full timeout: the client is active, so total elapsed time may exceed the timeout many times over while no gap does) and the result must still equal the one-piece run. Sampled, not exhaustive.",
    level_note="Transport double written for the check (records writes, loseConnection, pause/resume); delivery stops once loseConnection was called, as a TCP transport stops reading. twisted.web.server.datetimeToString pinned; timeouts run on a task.Clock that only the harness advances (gaps strictly below the idle timeout, read from the channel's timeOut). The resource is part of the harness. Says nothing about whether the one-piece behaviour itself is right (that is C19).",
    design_ref="§5 C18",
    rule="case = (pieces, response schedule, cut spec, gap = % of the idle timeout elapsing before each delivery). non-trivial delivery = a cut strictly inside a CRLFCRLF, inside a chunk-size line, or exactly between two pipelined requests, on a stream for which the one-piece run delivered at least one request or produced a 400; distinct by (stream, schedule, cuts).",
)

FIXED_DATE = b"Thu, 01 Jan 1970 00:00:00 GMT"
MODES = ("sync", "after", "end")


# --------------------------------------------------------------------------
# harness

_TRANSPORT = []


def _make_transport():
    if _TRANSPORT:
        return _TRANSPORT[0]()
    from twisted.internet import interfaces, address

    @implementer(interfaces.ITransport, interfaces.IPushProducer, interfaces.IConsumer)
    class Transport:
        disconnecting = False
        disconnected = False

        def __init__(self):
            self.out = []
            self.paused = False
            self.producer = None
            self.events = []

        limit = None

        def write(self, data):
            assert isinstance(data, bytes)
            self.out.append(data)
            if self.limit is not None and len(self.out) > self.limit:
                raise Runaway()

        def writeSequence(self, seq):
            self.write(b"".join(seq))

        def loseConnection(self):
            self.disconnecting = True

        def abortConnection(self):
            self.disconnecting = True
            self.disconnected = True

        def getPeer(self):
            return address.IPv4Address("TCP", "192.168.1.1", 54321)

        def getHost(self):
            return address.IPv4Address("TCP", "10.0.0.1", 80)

        def registerProducer(self, producer, streaming):
            self.producer = producer

        def unregisterProducer(self):
            self.producer = None

        def pauseProducing(self):
            self.paused = True

        def resumeProducing(self):
            self.paused = False

        def stopProducing(self):
            pass

    _TRANSPORT.append(Transport)
    return Transport()


class HarnessBug(Exception):
    pass


class Runaway(Exception):
    """The server keeps answering far more requests than the input has room for."""


def serve(segments, mode, gap=0):
    """Feed segments to a fresh server connection; return the observation.

    gap: percentage of the channel's idle timeout by which the clock advances
    before every delivery (always < 100: the client is never idle that long)."""
    from twisted.internet.task import Clock
    from twisted.web import server, resource

    server.datetimeToString = lambda *a: FIXED_DATE
    seen = []
    pending = []
    errors = []

    class Echo(resource.Resource):
        isLeaf = True

        def render(self, request):
            try:
                body = request.content.read()
                rec = (request.method, request.uri, request.clientproto,
                       [(k, list(v)) for k, v in request.requestHeaders.getAllRawHeaders()],
                       body,
                       sorted((k, list(v)) for k, v in request.args.items()),
                       sorted(request.received_cookies.items()))
                seen.append(rec)
                digest = hashlib.sha1(repr(rec).encode()).hexdigest().encode()
                text = b"%d %s %s %s %d %s\n" % (len(seen), request.method[:20], request.uri[:40],
                                              request.clientproto, len(body), digest)
            except Exception as e:  # harness code failing must not become a 500 page
                errors.append(e)
                raise
            if mode == "sync":
                if len(body) % 2 == 0:
                    return text                      # Content-Length response
                request.write(text[:7])              # chunked (1.1) / close-delimited (1.0)
                request.write(text[7:])
                request.finish()
                return server.NOT_DONE_YET
            pending.append((request, text))
            return server.NOT_DONE_YET

    clock = Clock()
    site = server.Site(Echo(), reactor=clock)
    site._logDateTime = "01/Jan/1970:00:00:00 +0000"
    proto = site.buildProtocol(None)
    proto.callLater = clock.callLater
    tr = _make_transport()
    proto.makeConnection(tr)

    def finish_one():
        request, text = pending.pop(0)
        if len(text) % 3 == 0:
            request.setHeader(b"content-length", b"%d" % len(text))
        request.write(text[:11])
        request.write(text[11:])
        request.finish()

    # a request needs >= 16 bytes and is answered with < 16 writes
    tr.limit = 16 * (sum(len(x) for x in segments) // 16 + 2) + 16
    if not 0 <= gap < 100:
        raise HarnessBug("gap must stay below the idle timeout")
    step = (proto.timeOut or 0) * gap / 100.0
    delivered = 0
    runaway = False
    try:
        for seg in segments:
            if tr.disconnecting:
                break
            if step:
                clock.advance(step)
                if tr.disconnecting:        # timed out
                    break
            proto.dataReceived(seg)
            delivered += len(seg)
            if mode == "after":
                while pending:
                    finish_one()
            elif mode == "end":
                # a paused transport delivers nothing more: let the application
                # answer until the channel resumes reading
                while pending and tr.paused:
                    finish_one()
        while pending:
            finish_one()
    except Runaway:
        runaway = True
    if errors:
        raise HarnessBug(repr(errors[0]))
    out = b"".join(tr.out)
    closed = tr.disconnecting
    from twisted.python.failure import Failure
    from twisted.internet.error import ConnectionDone
    proto.connectionLost(Failure(ConnectionDone()))
    return dict(requests=seen, written=out, closed=closed, runaway=runaway)


# --------------------------------------------------------------------------
# cases

def _expand(b):
    """A piece's bytes, or its compact form [prefix, fill, count, suffix]."""
    if isinstance(b, (bytes, bytearray)):
        return bytes(b)
    pre, fill, n, post = b
    return pre + fill * n + post


def normalise(case):
    if all(isinstance(b, bytes) for _, b in case["pieces"]):
        return case
    return dict(case, pieces=[[k, _expand(b)] for k, b in case["pieces"]])


def stream_of(case):
    return b"".join(_expand(p[1]) for p in case["pieces"])


def interesting_offsets(case):
    """(offsets strictly inside a CRLFCRLF, offsets inside chunk-size lines,
    offsets between two requests, all piece boundaries)."""
    data = stream_of(case)
    in_eoh = set()
    i = data.find(b"\r\n\r\n")
    while i != -1:
        in_eoh.update((i + 1, i + 2, i + 3))
        i = data.find(b"\r\n\r\n", i + 1)
    in_chunk = set()
    between = set()
    bounds = set()
    pos = 0
    seen_req = False
    for kind, b in case["pieces"]:
        if kind == "reqline":
            if seen_req and pos:
                between.add(pos)
            seen_req = True
        if kind in ("chunksize", "lastchunk"):
            in_chunk.update(range(pos + 1, pos + len(b)))
        if pos:
            bounds.add(pos)
        pos += len(b)
    return in_eoh, in_chunk, between, bounds


def cut_lists(case):
    data = stream_of(case)
    n = len(data)
    spec = case["cuts"]
    if spec == "all1":
        return ([i] for i in range(1, n))
    if spec == "all2":
        return ([i, j] for i, j in itertools.combinations(range(1, n), 2))
    if spec == "bytewise":
        return iter([list(range(1, n))])
    if spec == "near":
        _, _, _, bounds = interesting_offsets(case)
        bounds = sorted(bounds)
        if len(bounds) > 16:
            bounds = bounds[:6] + bounds[-10:]
        pts = sorted({p + d for p in bounds for d in (-2, -1, 0, 1, 2) if 0 < p + d < n}
                     | {p for p in (n - 4, n - 3, n - 2, n - 1) if 0 < p < n})
        singles = [[p] for p in pts]
        pairs = [[a, b] for a, b in zip(pts, pts[1:])]
        return iter(singles + pairs + [pts])
    return iter([sorted(set(c for c in spec if 0 < c < n))])


def describe(obs):
    return "requests=%r closed=%r written=%r" % (
        [(r[0], r[1], r[2], len(r[3]), r[4][:40]) for r in obs["requests"]], obs["closed"], obs["written"][:300])


def first_difference(whole, split):
    if whole.get("runaway") or split.get("runaway"):
        return "runaway-processing"
    if len(whole["requests"]) != len(split["requests"]):
        return "request-count"
    for a, b in zip(whole["requests"], split["requests"]):
        if a[:3] != b[:3]:
            return "request-line"
        if a[3] != b[3]:
            return "request-headers"
        if a[4] != b[4]:
            return "request-body"
        if a[5:] != b[5:]:
            return "request-args"
    if whole["closed"] != split["closed"]:
        return "closed-flag"
    if whole["written"] != split["written"]:
        if (b" 400 " in whole["written"]) != (b" 400 " in split["written"]):
            return "written-400"
        return "written-bytes"
    return None


def run_case(ctx, case):
    from lib import harness
    compact = case
    case = normalise(case)
    data = stream_of(case)
    mode = case["mode"]
    gap = case.get("gap", 0)
    whole = serve([data] if data else [], mode, gap)
    if whole["runaway"]:
        ctx.violation("runaway-processing", dict(pieces=compact["pieces"], mode=mode, cuts=[]),
                      "one-piece delivery of %r: the server keeps answering (%d requests) although the input is exhausted"
                      % (data[:300], len(whole["requests"])))
    if gap:
        ctx.count("streams:timed (clock advances %d%% of the idle timeout before each delivery)" % gap)
    in_eoh, in_chunk, between, _ = interesting_offsets(case)
    live = bool(whole["requests"]) or b" 400 " in whole["written"]
    ctx.count("streams")
    ctx.count("streams:mode=" + mode)
    ctx.count("streams:requests=%d" % min(len(whole["requests"]), 4))
    if b" 400 " in whole["written"]:
        ctx.count("streams:400")
    if b"100 Continue" in whole["written"]:
        ctx.count("streams:100-continue")
    if whole["closed"]:
        ctx.count("streams:closed")
    if any(r[4] for r in whole["requests"]):
        ctx.count("streams:with-body")
    if any(k == "chunksize" for k, _ in case["pieces"]) and whole["requests"]:
        ctx.count("streams:chunked-delivered")
    if len(data) > 16000:
        ctx.count("streams:large")
    n_del = 0
    for cuts in cut_lists(case):
        segs = harness.split_at(data, cuts)
        split = serve(segs, mode, gap)
        if gap:
            ctx.count("timed deliveries")
            if len(segs) * gap >= 200:
                ctx.count("timed deliveries lasting > 2 idle timeouts in total")
        n_del += 1
        diff = first_difference(whole, split)
        if diff is not None:
            where = "cut"
            cs = set(cuts)
            if len(cuts) <= 2:
                if cs & in_chunk:
                    where = "cut-in-chunk-line"
                elif cs & in_eoh:
                    where = "cut-in-crlfcrlf"
                elif cs & between:
                    where = "cut-between-requests"
                else:
                    kinds = _kinds_at(case, cuts)
                    where = "cut-in-" + "+".join(kinds)
            where += _size_class(case)
            small = dict(pieces=compact["pieces"], mode=mode, cuts=list(cuts))
            kind = "segmentation"
            if gap:
                small["gap"] = gap
                if first_difference(serve([data] if data else [], mode), serve(segs, mode)) is None:
                    kind = "timed-segmentation"     # only differs when time passes between deliveries
            ctx.violation("%s:%s:%s" % (kind, diff, where), small,
                          "stream=%r cuts=%r mode=%s gap=%d%% of the idle timeout\n one piece: %s\n split:     %s"
                          % (data[:400], cuts[:20], mode, gap, describe(whole), describe(split)))
        if live:
            cs = set(cuts)
            a, b, c = bool(cs & in_eoh), bool(cs & in_chunk), bool(cs & between)
            if a or b or c:
                ctx.nontrivial((data, mode, tuple(cuts), gap))
                if a:
                    ctx.count("nt:cut-in-crlfcrlf")
                if b:
                    ctx.count("nt:cut-in-chunk-size-line")
                if c:
                    ctx.count("nt:cut-between-requests")
    ctx.count("deliveries", n_del + 1)
    if live and len(whole["requests"]) >= 2 and len(ctx.samples) < 5 and len(data) < 400:
        ctx.sample(dict(stream=data, mode=mode, cuts=case["cuts"] if isinstance(case["cuts"], str) else list(case["cuts"])))


def _size_class(case):
    """Qualifier for streams that sit at one of the size limits."""
    tr = sum(len(b) for k, b in case["pieces"] if k == "trailer")
    hd = sum(len(b) for k, b in case["pieces"] if k in ("header", "reqline"))
    cl = max([len(b) for k, b in case["pieces"] if k == "chunksize"] or [0])
    if tr > 60000:
        return "@trailer-limit"
    if hd > 16000:
        return "@header-limit"
    if cl > 1000:
        return "@chunkline-limit"
    return ""


def _kinds_at(case, cuts):
    out = []
    for c in cuts:
        pos = 0
        for kind, b in case["pieces"]:
            if pos < c < pos + len(b):
                out.append(kind)
                break
            if c == pos:
                out.append("boundary")
                break
            pos += len(b)
    return sorted(set(out)) or ["end"]


# --------------------------------------------------------------------------
# grammar

@lru_cache(maxsize=None)
def _int(a, b):
    return st.integers(a, b)


def _pick(draw, seq):
    """draw(sampled_from(seq)) without building a new strategy object each time."""
    return seq[draw(_int(0, len(seq) - 1))]


METHODS = [b"GET", b"GET", b"POST", b"POST", b"PUT", b"HEAD", b"OPTIONS", b"DELETE", b"get", b"M-SEARCH"]
TARGETS = [b"/", b"/", b"/a", b"/a/b/c?x=1&y=2&x=3", b"*", b"http://h.example/p?q=1", b"/%41%2f?a=%26b", b"/?q",
           b"/caf\xc3\xa9", b"/" + b"p" * 70]
VERSIONS = [b"HTTP/1.1"] * 11 + [b"HTTP/1.0"]
BAD_REQLINES = [b"GET /\r\n", b"GET  / HTTP/1.1\r\n", b"GET / HTTP/2.0\r\n", b"G\x00T / HTTP/1.1\r\n",
                b"GET /a b HTTP/1.1\r\n", b"GET / http/1.1\r\n", b"GET\t/ HTTP/1.1\r\n", b" GET / HTTP/1.1\r\n",
                b"GET /\x7f\xff HTTP/1.1\r\n", b"GET / HTTP/1.1 \r\n", b"\r\n", b"GET / HTTP/1.1\n"]
CLOSE_HEADERS = [b"Connection: close\r\n", b"connection: Keep-Alive, Close\r\n", b"Connection: upgrade close\r\n"]
PLAIN_HEADERS = [b"Host: h.example\r\n", b"Connection: keep-alive\r\n",
                 b"Expect: 100-continue\r\n", b"EXPECT: 100-Continue\r\n", b"Expect: nothing\r\n",
                 b"Cookie: a=b; c=d; e\r\n", b"Cookie: \r\n", b"Accept: */*\r\n", b"X-Empty:\r\n",
                 b"X-Ws: \t padded \t \r\n", b"x-dup: 1\r\n", b"X-Dup: 2\r\n",
                 b"X-Fold: a\r\n  b\r\n\tc\r\n", b"X-Fold2: one\r\n \r\n two\r\n",
                 b"X-Latin: caf\xe9\r\n", b"X-Colon: a:b:c\r\n",
                 b"Content-Type: application/x-www-form-urlencoded\r\n",
                 b"Content-Type: multipart/form-data; boundary=XX\r\n",
                 b"Content-Type: multipart/form-data\r\n",
                 b"Transfer-Encoding: identity\r\n"]
BAD_HEADERS = [b"NoColonHere\r\n", b"Bad Name: x\r\n", b"X-Nul: a\x00b\r\n", b": empty-name\r\n",
               b" leading: space\r\n", b"X-Lf: a\nInjected: b\r\n", b"X-Cr: a\rb\r\n", b"X-Tab\t: v\r\n",
               b"Content-Length: +3\r\n", b"Content-Length: 1, 1\r\n", b"Transfer-Encoding: gzip\r\n",
               b"Transfer-Encoding: chunked, chunked\r\n", b"X-LfOnly: v\n"]
BODIES = [b"", b"x", b"hello", b"a=1&b=2&a=3", b"GET /smuggled HTTP/1.1\r\n\r\n", b"\r\n", b"0\r\n\r\n",
          b"--XX\r\nContent-Disposition: form-data; name=\"f\"\r\n\r\nv\r\n--XX--\r\n", b"\x00\xff" * 9, b"z" * 61]
CHUNK_EXTS = [b"", b"", b";a=b", b";x", b"; q=\"s;t\"", b";\xe9", b";bad\x01"]
TRAILERS = [b"X-Trailer: t\r\n", b"Foo: bar\r\n", b"junk-without-colon\r\n", b" folded\r\n"]


@st.composite
def chunk_pieces(draw, body, allow_bad):
    pieces = []
    rest = body
    while rest:
        n = draw(_int(1, min(len(rest), 12))) if len(rest) > 1 else 1
        size = b"%x" % n
        form = draw(_int(0, 9))
        if form == 0:
            size = size.upper()
        elif form == 1:
            size = b"00" + size
        bad = allow_bad and draw(_int(0, 24)) == 0
        if bad:
            size = _pick(draw, [b"0x" + size, b"+" + size, b" " + size, size + b" ", b"g", b"", b"-1"])
        ext = _pick(draw, CHUNK_EXTS if allow_bad else CHUNK_EXTS[:6])
        eol = b"\n" if (allow_bad and draw(_int(0, 30)) == 0) else b"\r\n"
        pieces.append(("chunksize", size + ext + eol))
        data = rest[:n]
        rest = rest[n:]
        tail = b"\r\n"
        if allow_bad:
            k = draw(_int(0, 30))
            tail = {0: b"", 1: b"\n", 2: b"X\r\n", 3: b"\r"}.get(k, b"\r\n")
        pieces.append(("chunkdata", data + tail))
    last = _pick(draw, [b"0", b"0", b"0", b"000", b"0;last=1"])
    pieces.append(("lastchunk", last + b"\r\n"))
    for _ in range(_pick(draw, [0, 0, 0, 1, 2])):
        pieces.append(("trailer", _pick(draw, TRAILERS if allow_bad else TRAILERS[:2])))
    pieces.append(("endtrailers", b"\r\n"))
    return pieces


@st.composite
def request_pieces(draw, mutate):
    pieces = []
    bad = mutate and draw(_int(0, 5)) == 0
    if bad:
        pieces.append(("reqline", _pick(draw, BAD_REQLINES)))
    else:
        pieces.append(("reqline", _pick(draw, METHODS) + b" " + _pick(draw, TARGETS) + b" "
                       + _pick(draw, VERSIONS) + b"\r\n"))
    hs = [_pick(draw, PLAIN_HEADERS) for _ in range(draw(_int(0, 4)))]
    if draw(_int(0, 11)) == 0:
        hs.insert(draw(_int(0, len(hs))), _pick(draw, CLOSE_HEADERS))
    if mutate and draw(_int(0, 3)) == 0:
        hs.insert(draw(_int(0, len(hs))), _pick(draw, BAD_HEADERS))
    framing = _pick(draw, ["none", "none", "cl", "cl", "cl", "chunked", "chunked", "chunked"]
                                   + (["cl-short", "cl-long", "both", "dupcl", "cl0"] if mutate else ["cl0"]))
    body = _pick(draw, BODIES)
    body_pieces = []
    if framing == "none":
        pass
    elif framing == "cl0":
        hs.append(b"Content-Length: 0\r\n")
    elif framing in ("cl", "cl-short", "cl-long", "dupcl"):
        n = len(body) + {"cl-short": -1, "cl-long": 3}.get(framing, 0)
        n = max(n, 0)
        name = _pick(draw, [b"Content-Length", b"content-length", b"CONTENT-LENGTH"])
        hs.insert(draw(_int(0, len(hs))), name + b": " + (b"%d" % n) + b"\r\n")
        if framing == "dupcl":
            hs.append(b"Content-Length: %d\r\n" % n)
        if body:
            body_pieces.append(("body", body))
    else:
        te = _pick(draw, [b"Transfer-Encoding: chunked\r\n", b"transfer-encoding: Chunked\r\n",
                                   b"Transfer-Encoding:chunked\r\n", b"Transfer-Encoding: \tchunked \r\n"])
        hs.insert(draw(_int(0, len(hs))), te)
        if framing == "both":
            hs.insert(draw(_int(0, len(hs))), b"Content-Length: %d\r\n" % len(body))
        body_pieces = draw(chunk_pieces(body, mutate))
    for h in hs:
        pieces.append(("header", h))
    eoh = b"\r\n"
    if mutate and draw(_int(0, 25)) == 0:
        eoh = _pick(draw, [b"\n", b"\r\r\n", b"\r\n\r\n"])
    pieces.append(("eoh", eoh))
    pieces.extend(body_pieces)
    return pieces


@st.composite
def stream_case(draw, max_requests=4, mutate=None, cuts=None):
    if mutate is None:
        mutate = draw(_int(0, 9)) < 4
    pieces = []
    n = draw(_int(1, max_requests))
    # mutations hit one request only, more often a later one, so that the
    # requests before it are still delivered
    victim = max(draw(_int(0, n - 1)), draw(_int(0, n - 1))) if mutate else -1
    for i in range(n):
        if i and draw(_int(0, 7)) == 0:
            pieces.append(("blank", b"\r\n" * _pick(draw, [1, 1, 1, 2])))
        pieces.extend(draw(request_pieces(i == victim)))
    if mutate:
        k = draw(_int(0, 14))
        if k == 0:
            pieces.append(("junk", _pick(draw, [b"\x00\x01garbage", b"GET", b"\r\n\r\n\r\n", b"0\r\n\r\n"])))
        elif k == 1 and len(pieces) > 1:
            # truncate inside the last piece
            kind, b = pieces[-1]
            pieces[-1] = (kind, b[:draw(_int(0, max(0, len(b) - 1)))])
        elif k == 2 and len(pieces) > 2:
            del pieces[draw(_int(1, len(pieces) - 1))]
    pieces = [[k, b] for k, b in pieces if b]
    mode = _pick(draw, MODES)
    total = sum(len(b) for _, b in pieces)
    if cuts is None:
        if total <= 400:
            cuts = _pick(draw, ["all1", "all1", "all1", "bytewise", "near"])
        else:
            cuts = _pick(draw, ["near", "bytewise", "random"])
        if cuts == "random":
            cuts = [draw(_int(1, max(1, total - 1))) for _ in range(draw(_int(1, 8)))]
    gap = _pick(draw, [0, 0, 0, 2, 45, 98, 98])
    return dict(pieces=pieces, mode=mode, cuts=cuts, gap=gap)


def _pad_header(name, line_len, end=b""):
    """A header line of exactly line_len bytes (+ end), in compact form."""
    head = name + b": "
    return [head, b"v", line_len - len(head), end]


def limit_cases(ctx):
    """Streams that sit on the size limits: MAX_LENGTH (16384) per line,
    totalHeadersSize (16384), maxChunkSizeLineLength (1024), maxHeaders (500),
    chunked trailer limit (65536).  Enumerated, not sampled: every offset in a
    small window around each limit."""
    reqline = b"POST /limit HTTP/1.1\r\n"
    follow = [["reqline", b"GET /after HTTP/1.1\r\n"], ["eoh", b"\r\n"]]
    out = []
    k = 0

    def add(pieces):
        nonlocal k
        out.append(dict(pieces=pieces, mode=MODES[(k + int(ctx.seed)) % 3], cuts="near"))
        k += 1

    wide = ctx.pick(3, 6)
    # one long header line: the total-size check (request line included) fires first
    for d in list(range(-24, -19)) + list(range(-wide, wide + 1)):
        add([["reqline", reqline], ["header", _pad_header(b"X-Long", 16384 + d, b"\r\n")], ["eoh", b"\r\n"]] + follow)
    # the request line itself at MAX_LENGTH
    for d in range(-wide, wide + 1):
        n = 16384 + d
        line = [b"GET /", b"t", n - len(b"GET / HTTP/1.1"), b" HTTP/1.1\r\n"]
        add([["reqline", line], ["eoh", b"\r\n"]] + follow)
    # several lines adding up to totalHeadersSize
    for nlines in (2, 4):
        for d in range(-wide, wide + 1):
            target = 16384 + d
            used = len(reqline) - 2
            pieces = [["reqline", reqline]]
            for i in range(nlines):
                remaining = target - used
                n = remaining if i == nlines - 1 else remaining // (nlines - i)
                pieces.append(["header", _pad_header(b"X-%d" % i, n, b"\r\n")])
                used += n
            add(pieces + [["eoh", b"\r\n"]] + follow)
    # chunk-size line at maxChunkSizeLineLength
    for d in range(-wide, wide + 1):
        line = [b"5;", b"e", 1024 + d - 2, b"\r\n"]
        add([["reqline", reqline], ["header", b"Transfer-Encoding: chunked\r\n"], ["eoh", b"\r\n"],
             ["chunksize", line], ["chunkdata", b"hello\r\n"], ["lastchunk", b"0\r\n"],
             ["endtrailers", b"\r\n"]] + follow)
    # header count at maxHeaders
    for d in (-1, 0, 1, 2):
        add([["reqline", reqline]] + [["header", b"X-%d: v\r\n" % i] for i in range(500 + d)]
            + [["eoh", b"\r\n"]] + follow)
    # trailer section at the decoder's 64 KiB limit
    for ntr in (1, 3):
        for d in range(-wide, wide + 1):
            total = 65536 + d
            trailers = []
            used = 0
            for i in range(ntr):
                remaining = total - used
                n = remaining if i == ntr - 1 else remaining // (ntr - i)
                trailers.append(["trailer", _pad_header(b"T-%d" % i, n - 2, b"\r\n")])
                used += n
            add([["reqline", reqline], ["header", b"Transfer-Encoding: chunked\r\n"], ["eoh", b"\r\n"],
                 ["chunksize", b"3\r\n"], ["chunkdata", b"abc\r\n"], ["lastchunk", b"0\r\n"]] + trailers
                + [["endtrailers", b"\r\n"]] + follow)
    return out


def _enum_pairs(ctx, cases):
    enumerate_run(ctx, cases, run_case)


def _shard_hyp(sub, i):
    hyp_run(sub, stream_case(), run_case, 1200, label=f"streams-shard{i}")
    if i == 0:
        enumerate_run(sub, limit_cases(sub), run_case)
    hyp_run(sub, stream_case(max_requests=2, cuts="all2").filter(lambda c: len(stream_of(c)) <= 80),
            run_case, 12, label=f"pairs-shard{i}")


def run(ctx):
    if ctx.thorough:
        ctx.shards(_shard_hyp, list(range(16)))
        return
    hyp_run(ctx, stream_case(), run_case, 330, label="streams")
    if ctx.has_violation():
        return
    enumerate_run(ctx, limit_cases(ctx), run_case)
    if ctx.has_violation():
        return
    hyp_run(ctx, stream_case(max_requests=2, cuts="all2").filter(lambda c: len(stream_of(c)) <= 80),
            run_case, 6, label="pairs")
