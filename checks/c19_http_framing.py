"""C19 — HTTP/1.1 request framing follows RFC 9112 (no request smuggling).

The real ``HTTPFactory``/``HTTPChannel`` (with a recording ``http.Request``
subclass as the application) receives a generated request stream in one
piece and again under generated segmentations.  What it hands to the resource and whether it answers 400 + close is
compared with

* a reference parser written for this check from RFC 9112 §§2-7 (+ RFC 9110
  §5 field syntax).  It turns the raw bytes into a list of steps: request
  (with the reasons, if any, for which a recipient MAY reject it), error (the
  statement demands 400 and nothing more processed), incomplete, end.  Where
  the RFC lets the recipient choose (obs-fold, bare CR/LF/NUL in a field
  value: reject or replace by SP; whitespace-separated request line; more than
  one leading empty line; bare LF as line terminator; BWS in chunk
  extensions; empty list elements ...) both choices are accepted.
* h11, on streams the reference considers strictly well-formed.
"""
import re

from functools import lru_cache

from hypothesis import strategies as st
from zope.interface import implementer

from lib.core import hyp_run, enumerate_run

META = dict(
    property="C19",
    level="exploration",
    technique="grammar-based generation of framing-biased request streams + complete byte sweeps (every byte value in method/target/version/header name/header value/chunk-size/chunk-ext) against a reference parser written from RFC 9112 and, on strictly well-formed streams, h11; every stream is delivered in one piece and again under generated segmentations (same reference verdict required)",
    level_text="One-piece delivery of generated streams (1-3 pipelined requests; CL/TE combinations, duplicate and list-valued CL, signs/whitespace/non-ASCII digits/huge digit strings, TE token lists and case, obs-fold, bare CR/LF/NUL/CTL in values, invalid names, request-line separators and versions, chunk-size forms, extensions incl. quoted strings and BWS, LF-only terminators, missing chunk CRLF, trailers, smuggled requests inside bodies, truncation) to the real HTTPFactory/HTTPChannel with a recording http.Request subclass as the application. Delivered requests (method, target, version, header multimap, body), 400 + close, and 'nothing processed after the error' must conform to the reference parser; every recipient choice RFC 9112/9110 allows is accepted. Streams that are strictly well-formed are also parsed by h11 and must give equal requests. Each stream is then re-delivered under 2-3 generated segmentations (cuts inside chunk-size lines, between CR and LF, at piece boundaries, random; byte-wise when <= 250 bytes; every single cut for four canonical well-formed chunked streams) and must conform to the same reference steps, since the body RFC 9112 assigns does not depend on how the bytes arrive; delivery stops once the server asked to close. Three answer schedules are generated (the application answers inside process(), after the delivery that completed the request, or only after the whole input), so that pipelined requests - including ones that must be rejected - also travel through the channel's pipelining buffer in several entries; 'nothing after the 400 is processed' is asserted for all of them. Byte sweeps are complete over the 256 byte values at 13 syntactic positions; the rest is sampled.",
    level_note="Reference parser (ref_parse) is the trusted base; h11 0.16 second opinion. 'Unsupported transfer coding' is everything except a single 'chunked' (what twisted implements). Repeated Content-Length is required to be rejected even when the values agree, as the statement says (RFC 9110 §8.6 would also allow accepting them). Missing/duplicate Host, limits (header count/size, line length) and Connection semantics are outside this check; equality of written bytes across segmentations is C18 (here only conformance to the reference is required of segmented runs).",
    design_ref="§5 C19",
    rule="case = list of labelled byte pieces (labels are for readability only; the oracle works on the concatenated bytes). non-trivial = the stream contains a framing conflict/invalid framing element (reference step 'error' or a may-reject reason about CL/TE/chunks) or >= 2 requests of which the first has a body; distinct by stream bytes; plus (stream, cuts) for segmented deliveries of such streams or of chunked streams whose cuts fall inside a chunk-size line, a CRLF or a CRLFCRLF.",
)

FIXED_DATE = b"Thu, 01 Jan 1970 00:00:00 GMT"
BAD_REQUEST = b"HTTP/1.1 400 Bad Request\r\n\r\n"

TCHAR = frozenset(b"!#$%&'*+-.^_`|~0123456789ABCDEFGHIJKLMNOPQRSTUVWXYZabcdefghijklmnopqrstuvwxyz")
HEXDIG = frozenset(b"0123456789abcdefABCDEF")
URI_STRICT = frozenset(b"ABCDEFGHIJKLMNOPQRSTUVWXYZabcdefghijklmnopqrstuvwxyz0123456789-._~!$&'()*+,;=:@/?%[]")
FRAMING_REASONS = ("te", "cl", "chunk")


# --------------------------------------------------------------------------
# reference parser (RFC 9112)

def _is_token(b):
    return len(b) > 0 and all(c in TCHAR for c in b)


def _eol(data, pos, lf):
    """(line, next position) or None when no complete line is available."""
    if lf:
        i = data.find(b"\n", pos)
        if i < 0:
            return None
        line = data[pos:i]
        if line.endswith(b"\r"):
            line = line[:-1]
        return line, i + 1
    i = data.find(b"\r\n", pos)
    if i < 0:
        return None
    return data[pos:i], i + 2


def _target_reason(t):
    """None if strictly valid; ('may', r) or ('must', r)."""
    if t == b"":
        return ("must", "target-empty")
    for c in t:
        if c <= 0x20:
            return ("must", "target-byte-00-20")
        if 0x7f <= c <= 0xb0:
            return ("must", "target-byte-7f-b0")
        if c > 0xb0:
            return ("must", "target-byte-b1-ff")
    if any(c not in URI_STRICT for c in t):
        return ("may", "target-non-uri-char")
    if re.search(rb"%(?![0-9A-Fa-f]{2})", t):
        return ("may", "target-bad-pct")
    if t == b"*" or t.startswith(b"/") or re.match(rb"^[A-Za-z][A-Za-z0-9+.-]*://", t) or re.match(rb"^[^/?#@]+:\d+$", t):
        return None
    return ("may", "target-unknown-form")


def _parse_request_line(line):
    """-> (method, target, version, may_reasons) or raises _Must(reason)."""
    may = []
    parts = line.split(b" ")
    if len(parts) != 3 or any(p == b"" for p in parts) or any(c in line for c in b"\t\r\x0b\x0c"):
        # RFC 9112 §3: a recipient MAY parse on whitespace-delimited word boundaries
        words = re.split(rb"[ \t\r\x0b\x0c]+", line.strip(b" \t\r\x0b\x0c"))
        if len(words) != 3 or any(w == b"" for w in words):
            raise _Must("request-line-shape")
        parts = words
        may.append("request-line-whitespace")
    method, target, version = parts
    if not _is_token(method):
        raise _Must("method-not-token")
    tr = _target_reason(target)
    if tr is not None:
        if tr[0] == "must":
            raise _Must(tr[1])
        may.append(tr[1])
    if not re.fullmatch(rb"HTTP/[0-9]\.[0-9]", version):
        raise _Must("version-syntax")
    if version not in (b"HTTP/1.0", b"HTTP/1.1"):
        if version.startswith(b"HTTP/1."):
            may.append("version-1.x")       # RFC 9110 §2.5: may be processed as 1.1
        else:
            raise _Must("version-unsupported")
    return method, target, version, may


class _Must(Exception):
    def __init__(self, reason):
        Exception.__init__(self, reason)
        self.reason = reason


def _list_elements(values):
    """RFC 9110 §5.6.1 list parsing over all field lines; (elements, had_empty)."""
    out, empty = [], False
    for v in values:
        for e in v.split(b","):
            e = e.strip(b" \t")
            if e == b"":
                empty = True
            else:
                out.append(e)
    return out, empty


_QS = rb'"(?:[\t !#-\[\]-~\x80-\xff]|\\[\t !-~\x80-\xff])*"'
_TOK = rb"[!#$%&'*+\-.^_`|~0-9A-Za-z]+"
_EXT_STRICT = re.compile(rb"(?:;" + _TOK + rb"(?:=(?:" + _TOK + rb"|" + _QS + rb"))?)*")
_EXT_BWS = re.compile(rb"(?:[ \t]*;[ \t]*" + _TOK + rb"(?:[ \t]*=[ \t]*(?:" + _TOK + rb"|" + _QS + rb"))?)*")


def _parse_chunk_line(line, may):
    """chunk-size [chunk-ext] -> size; raises _Must for malformed size/ext."""
    n = 0
    while n < len(line) and line[n] in HEXDIG:
        n += 1
    if n == 0:
        raise _Must("chunk-size-not-hex")
    size = int(line[:n], 16)
    ext = line[n:]
    if ext == b"":
        return size
    if any((c < 0x20 and c != 0x09) or c == 0x7f for c in ext):
        raise _Must("chunk-ext-ctl")
    if _EXT_STRICT.fullmatch(ext):
        if b"\\" in ext:
            may_tag = "chunk-ext-quoted-pair"   # strictly valid; only a feature tag
            may.append("feature:" + may_tag)
        return size
    if _EXT_BWS.fullmatch(ext):
        may.append("chunk-ext-bws")
        return size
    if ext.lstrip(b" \t").startswith(b";"):
        may.append("chunk-ext-malformed")
        return size
    raise _Must("chunk-size-trailing-garbage")


def _parse_message(data, pos, lf):
    """One step: ('request', req, newpos) | ('error', reason) |
    ('incomplete', saw_bad) | ('end',)."""
    may = []
    # leading empty lines (§2.2)
    k = 0
    while True:
        if pos >= len(data):
            if k == 0:
                return ("end",)
            return ("incomplete", k >= 2)
        r = _eol(data, pos, lf)
        if r is None:
            return ("incomplete", True)
        if r[0] != b"":
            break
        k += 1
        pos = r[1]
    if k >= 2:
        may.append("leading-empty-lines")
    line, pos = r
    bad = None
    try:
        method, target, version, m = _parse_request_line(line)
        may += m
    except _Must as e:
        return ("error", e.reason)
    # header section
    raw = []
    while True:
        r = _eol(data, pos, lf)
        if r is None:
            return ("incomplete", True)
        pos = r[1]
        if r[0] == b"":
            break
        raw.append(r[0])
    headers = []          # [lname, value, fuzzy]
    for i, hl in enumerate(raw):
        if hl[:1] in (b" ", b"\t"):
            if not headers:
                # whitespace between start-line and first field: reject or skip the line
                may.append("whitespace-before-first-header")
                continue
            may.append("obs-fold")
            headers[-1][1] = (headers[-1][1] + b" " + hl.strip(b" \t")).strip(b" \t")
            headers[-1][2] = True
            continue
        if b":" not in hl:
            bad = bad or "header-no-colon"
            continue
        name, value = hl.split(b":", 1)
        if not _is_token(name):
            bad = bad or ("header-name-whitespace" if name.strip(b" \t") != name and _is_token(name.strip(b" \t"))
                          else "header-name-not-token")
            continue
        value = value.strip(b" \t")
        fuzzy = False
        if any(c in value for c in b"\r\n\x00"):
            may.append("value-cr-lf-nul")
            value = value.replace(b"\r", b" ").replace(b"\n", b" ").replace(b"\x00", b" ").strip(b" \t")
            fuzzy = True
        elif any((c < 0x20 and c != 0x09) or c == 0x7f for c in value):
            may.append("value-ctl")
        headers.append([name.lower(), value, fuzzy])
    if bad:
        return ("error", bad)
    te = [v for n, v, _ in headers if n == b"transfer-encoding"]
    cl = [v for n, v, _ in headers if n == b"content-length"]
    framing_fuzzy = any(f for n, _, f in headers if n in (b"transfer-encoding", b"content-length"))
    hosts = [v for n, v, _ in headers if n == b"host"]
    if version != b"HTTP/1.0" and len(hosts) != 1:
        may.append("host-count")
    framing = "none"
    length = 0
    if te:
        codings, empty = _list_elements(te)
        names = [c.split(b";")[0].strip(b" \t").lower() for c in codings]
        others = [x for x in names if x != b"identity"]
        if cl:
            if names and not others:
                return ("error", "te-identity+cl")
            return ("error", "te+cl")
        if names == [b"chunked"]:
            if codings[0].lower() != b"chunked":
                may.append("te-chunked-parameters")
            if empty:
                may.append("te-empty-list-element")
            if len(te) > 1:
                may.append("te-split-over-lines")
            if framing_fuzzy:
                may.append("te-folded-or-replaced")
            if version == b"HTTP/1.0":
                may.append("te-in-http-1.0")
            framing = "chunked"
        elif names and not others:
            return ("error", "te-identity")
        elif others == [b"chunked"]:
            return ("error", "te-identity+chunked")
        elif names.count(b"chunked") > 1:
            return ("error", "te-chunked-twice")
        elif names and names[-1] == b"chunked":
            return ("error", "te-unsupported-before-chunked")
        elif b"chunked" in names:
            return ("error", "te-chunked-not-final")
        else:
            return ("error", "te-unsupported")
    elif cl:
        if len(cl) > 1:
            return ("error", "cl-repeated-same" if len(set(cl)) == 1 else "cl-repeated-different")
        v = cl[0]
        if b"," in v:
            return ("error", "cl-list")
        if not re.fullmatch(rb"[0-9]+", v):
            return ("error", "cl-not-digits")
        if framing_fuzzy:
            may.append("cl-folded-or-replaced")
        digits = v.lstrip(b"0") or b"0"
        length = int(digits) if len(digits) < 4000 else 10 ** 30     # huge: never satisfiable
        framing = "cl"
        if len(v) > 18:
            may.append("cl-huge")     # a recipient may refuse what it cannot represent
    closes = version == b"HTTP/1.0" or any(b"close" in v.lower() for n, v, _ in headers if n == b"connection")
    # body
    body = b""
    if framing == "cl":
        if len(data) - pos < length:
            return ("incomplete", bool(may))
        body = data[pos:pos + length]
        pos += length
    elif framing == "chunked":
        parts = []
        while True:
            r = _eol(data, pos, lf)
            if r is None:
                return ("incomplete", True)
            cline, pos = r
            try:
                size = _parse_chunk_line(cline, may)
            except _Must as e:
                return ("error", e.reason)
            if size == 0:
                break
            if len(data) - pos < size:
                return ("incomplete", bool(may))
            parts.append(data[pos:pos + size])
            pos += size
            if len(data) - pos < 2 and not (lf and data[pos:pos + 1] == b"\n"):
                return ("incomplete", True)
            if data[pos:pos + 2] == b"\r\n":
                pos += 2
            elif lf and data[pos:pos + 1] == b"\n":
                pos += 1
            else:
                return ("error", "chunk-data-not-followed-by-crlf")
        # trailer section
        while True:
            r = _eol(data, pos, lf)
            if r is None:
                return ("incomplete", True)
            tl, pos = r
            if tl == b"":
                break
            if b":" not in tl or not _is_token(tl.split(b":", 1)[0]) or any(c in tl for c in b"\r\n\x00"):
                may.append("trailer-malformed")
        body = b"".join(parts)
    req = dict(method=method, target=target, version=version, headers=headers, body=body,
               framing=framing, may=[m for m in may if not m.startswith("feature:")],
               features=[m[8:] for m in may if m.startswith("feature:")], closes=closes)
    return ("request", req, pos)


def ref_parse(data, lf=False):
    steps = []
    pos = 0
    while True:
        s = _parse_message(data, pos, lf)
        steps.append(s)
        if s[0] != "request":
            return steps
        pos = s[2]


# --------------------------------------------------------------------------
# the real server

_TRANSPORT = []


def _make_transport():
    if _TRANSPORT:
        return _TRANSPORT[0]()
    from twisted.internet import interfaces, address

    @implementer(interfaces.ITransport, interfaces.IPushProducer, interfaces.IConsumer)
    class Transport:
        disconnecting = False
        disconnected = False

        def __init__(self):
            self.out = []

        def write(self, data):
            self.out.append((bytes(data), self.disconnecting))

        def writeSequence(self, seq):
            self.out.append((b"".join(seq), self.disconnecting))

        def loseConnection(self):
            self.disconnecting = True

        def abortConnection(self):
            self.disconnecting = True

        def getPeer(self):
            return address.IPv4Address("TCP", "192.168.1.1", 54321)

        def getHost(self):
            return address.IPv4Address("TCP", "10.0.0.1", 80)

        def registerProducer(self, producer, streaming):
            pass

        def unregisterProducer(self):
            pass

        def pauseProducing(self):
            pass

        def resumeProducing(self):
            pass

        def stopProducing(self):
            pass

    _TRANSPORT.append(Transport)
    return Transport()


class HarnessBug(Exception):
    pass


class Runaway(Exception):
    """The server handed over more requests than the input has room for."""


def serve(segments, mode="sync"):
    """Feed the segments to a fresh connection (a bytes argument is one segment);
    delivery stops once the server has asked the transport to close.

    mode: when the application answers -- "sync" inside process(), "after" once
    the delivery that completed the request has returned, "end" only after the
    whole input was delivered (everything behind a pending request sits in the
    channel's pipelining buffer, one entry per delivery, and is replayed later)."""
    if isinstance(segments, bytes):
        segments = [segments] if segments else []
    from twisted.internet.task import Clock
    from twisted.web import http
    from twisted.python.failure import Failure
    from twisted.internet.error import ConnectionDone

    seen = []
    errors = []
    marks = []
    pending = []
    # every request needs a request line and an empty line: >= 16 bytes
    most = sum(len(x) for x in segments) // 16 + 2

    def answer(request, n):
        body = b"ok %d\n" % n
        request.setHeader(b"content-length", b"%d" % len(body))
        request.write(body)
        request.finish()

    class Recorder(http.Request):
        """The application: twisted.web.http hands a request over by calling process()."""

        def process(self):
            try:
                seen.append(dict(method=self.method, target=self.uri, version=self.clientproto,
                                 headers=[(k, list(v)) for k, v in self.requestHeaders.getAllRawHeaders()],
                                 body=self.content.read()))
                marks.append(len(tr.out))
            except Exception as e:
                errors.append(e)
                raise
            if len(seen) > most:
                raise Runaway()
            if mode == "sync":
                answer(self, len(seen))
            else:
                pending.append((self, len(seen)))

    clock = Clock()
    site = http.HTTPFactory(reactor=clock)
    site._logDateTime = "01/Jan/1970:00:00:00 +0000"
    proto = site.buildProtocol(None)
    proto.requestFactory = Recorder
    proto.callLater = clock.callLater
    tr = _make_transport()
    proto.makeConnection(tr)
    runaway = False
    try:
        for seg in segments:
            if tr.disconnecting:
                break
            proto.dataReceived(seg)
            if mode == "after":
                while pending:
                    answer(*pending.pop(0))
        while pending:
            answer(*pending.pop(0))
    except Runaway:
        runaway = True
    finally:
        if errors:
            raise HarnessBug(repr(errors[0]))
    written = b"".join(b for b, _ in tr.out)
    n400 = sum(1 for b, _ in tr.out if b == BAD_REQUEST)
    got400 = n400 >= 1
    after = b""
    if got400:
        idx = [i for i, (b, _) in enumerate(tr.out) if b == BAD_REQUEST][0]
        after = b"".join(b for b, _ in tr.out[idx + 1:])
        late_requests = sum(1 for m in marks if m > idx)
    else:
        late_requests = 0
    obs = dict(requests=seen, written=written, closed=tr.disconnecting, got400=got400, n400=n400,
               after400=after, late_requests=late_requests, runaway=runaway,
               n200=written.count(b"HTTP/1.1 200 OK\r\n") + written.count(b"HTTP/1.0 200 OK\r\n"))
    proto.connectionLost(Failure(ConnectionDone()))
    return obs


# --------------------------------------------------------------------------
# comparison

def _norm_ws(v):
    return re.sub(rb"[ \t]+", b" ", v).strip(b" ")


def _compare_request(exp, got):
    if (exp["method"], exp["target"], exp["version"]) != (got["method"], got["target"], got["version"]):
        return "request-line"
    want = {}
    order = []
    for n, v, fuzzy in exp["headers"]:
        if n not in want:
            want[n] = []
            order.append(n)
        want[n].append((v, fuzzy))
    have_order = [k.lower() for k, _ in got["headers"]]
    have = {k.lower(): vs for k, vs in got["headers"]}
    if sorted(order) != sorted(have_order):
        return "header-names"
    for n in order:
        if len(want[n]) != len(have[n]):
            return "header-values"
        for (v, fuzzy), h in zip(want[n], have[n]):
            if fuzzy:
                if _norm_ws(v) != _norm_ws(h):
                    return "header-values"
            elif v != h:
                return "header-values"
    if exp["body"] != got["body"]:
        return "body"
    return None


def _feature(req):
    if req["features"]:
        return req["features"][0]
    if req["framing"] == "chunked":
        return "chunked"
    if req["framing"] == "cl":
        return "cl"
    return "no-body"


def conforms(steps, obs):
    """None if the observation is one of the behaviours the steps allow, else
    (signature, detail)."""
    reqs = obs["requests"]
    i = 0
    choices = []
    if obs["runaway"]:
        return ("runaway-processing", "%d requests were handed over, more than the input has room for: the same bytes "
                "are parsed again and again; first: %r" % (len(reqs), reqs[:3])), choices
    for step in steps:
        kind = step[0]
        if kind == "request":
            exp = step[1]
            if i < len(reqs):
                d = _compare_request(exp, reqs[i])
                if d is not None:
                    return ("delivered-differs:%s:%s" % (d, exp["framing"]),
                            "request #%d: expected %r, delivered %r" % (i, _brief(exp), reqs[i])), choices
                i += 1
                for m in exp["may"]:
                    choices.append((m, "accepted"))
                if exp["closes"] and i == len(reqs) and obs["closed"] and not obs["got400"]:
                    return None, choices
                continue
            if obs["got400"]:
                if exp["may"]:
                    for m in exp["may"]:
                        choices.append((m, "rejected"))
                    return _check_400(obs), choices
                return ("rejected-valid:" + _feature(exp),
                        "request #%d is well-formed (%r) but was answered 400" % (i, _brief(exp))), choices
            return ("missing-request:" + _feature(exp),
                    "request #%d (%r) was neither delivered nor answered 400; closed=%r" % (i, _brief(exp), obs["closed"])), choices
        if kind == "error":
            if i < len(reqs):
                return ("not-rejected:" + step[1],
                        "request #%d must be rejected (%s) but was delivered as %r" % (i, step[1], reqs[i])), choices
            if not obs["got400"]:
                return ("not-rejected:" + step[1], "request #%d must be rejected (%s) but no 400 was sent; written=%r closed=%r"
                        % (i, step[1], obs["written"][-80:], obs["closed"])), choices
            return _check_400(obs), choices
        if kind == "incomplete":
            if i < len(reqs):
                return ("extra-request:after-incomplete", "delivered %r beyond the reference parse" % (reqs[i],)), choices
            if obs["got400"] and not step[1]:
                return ("400-on-valid-prefix", "valid but incomplete message was answered 400"), choices
            if obs["got400"]:
                return _check_400(obs), choices
            return None, choices
        if kind == "end":
            if i < len(reqs):
                return ("extra-request:after-end", "delivered %r beyond the end of the stream" % (reqs[i],)), choices
            if obs["got400"]:
                return ("400-after-complete-stream", "all requests are complete and valid; 400 written"), choices
            return None, choices
    raise AssertionError("steps without terminal")


def _check_400(obs):
    if not obs["closed"]:
        return ("400-without-close", "400 written but the connection is not being closed")
    if obs["n400"] != 1 or obs["after400"] or obs["late_requests"]:
        return ("processing-after-400", "n400=%d, written after the 400: %r, requests after: %d"
                % (obs["n400"], obs["after400"][:80], obs["late_requests"]))
    return None


def _brief(req):
    return dict(method=req["method"], target=req["target"], version=req["version"],
                headers=[(n, v) for n, v, _ in req["headers"]], body=req["body"][:60], framing=req["framing"])


# --------------------------------------------------------------------------
# h11

def h11_parse(data):
    import h11
    conn = h11.Connection(h11.SERVER, max_incomplete_event_size=1 << 20)
    conn.receive_data(data)
    reqs = []
    cur = None
    while True:
        try:
            ev = conn.next_event()
        except h11.RemoteProtocolError as e:
            return reqs, "error:" + str(e)[:60]
        if ev is h11.NEED_DATA:
            return reqs, "end" if (cur is None and conn.trailing_data[0] == b"") else "incomplete"
        if ev is h11.PAUSED:
            return reqs, "paused"
        if isinstance(ev, h11.Request):
            cur = dict(method=bytes(ev.method), target=bytes(ev.target), version=b"HTTP/" + bytes(ev.http_version),
                       headers=[(bytes(k), bytes(v)) for k, v in ev.headers], body=b"")
        elif isinstance(ev, h11.Data):
            cur["body"] += bytes(ev.data)
        elif isinstance(ev, h11.EndOfMessage):
            reqs.append(cur)
            cur = None
            conn.send(h11.Response(status_code=200, headers=[("content-length", "0")]))
            conn.send(h11.EndOfMessage())
            if conn.our_state is h11.MUST_CLOSE or conn.their_state is h11.MUST_CLOSE:
                return reqs, "close"
            conn.start_next_cycle()
        elif isinstance(ev, h11.ConnectionClosed):
            return reqs, "closed"


def _h11_differs(h, t):
    if (h["method"], h["target"], h["version"]) != (t["method"], t["target"], t["version"]):
        return "request-line"
    hh = {}
    for k, v in h["headers"]:
        hh.setdefault(k, []).append(v)
    th = {k.lower(): vs for k, vs in t["headers"]}
    if b"transfer-encoding" in th:        # h11 lower-cases this one value
        th[b"transfer-encoding"] = [v.lower() for v in th[b"transfer-encoding"]]
    if hh != th:
        return "headers"
    if h["body"] != t["body"]:
        return "body"
    return None


# --------------------------------------------------------------------------

def stream_of(case):
    return b"".join(p[1] for p in case["pieces"])


def run_case(ctx, case):
    data = stream_of(case)
    steps = ref_parse(data)
    alts = [steps]
    if re.search(rb"(?<!\r)\n", data):
        alts.append(ref_parse(data, lf=True))
    mode = case.get("mode", "sync")
    obs = serve(data, mode)
    results = [conforms(s, obs) for s in alts]
    ok = [r for r in results if r[0] is None]
    if not ok:
        (sig, detail), _ = results[0]
        sig = _late_prefix(alts, [data] if data else [], mode) + sig
        ctx.violation(sig, case, "stream=%r\n %s\n reference steps=%r\n observed: %d requests, got400=%r closed=%r"
                      % (data[:500], detail, [_brief_step(s) for s in steps][:6], len(obs["requests"]), obs["got400"], obs["closed"]))
    choices = ok[0][1]
    if len(alts) > 1:
        ctx.count("bare-LF stream: conforms as " + ("CRLF-only" if results[0][0] is None else "LF-terminated"))
    # consistency of what was written with what was delivered
    if obs["n200"] != len(obs["requests"]) and not obs["runaway"]:
        ctx.violation("responses-vs-requests", case, "delivered %d requests, wrote %d 200 responses: %r"
                      % (len(obs["requests"]), obs["n200"], obs["written"][:300]))
    # h11 on strictly well-formed streams
    strict = (len(alts) == 1 and steps[-1][0] == "end" and len(steps) > 1
              and all(not s[1]["may"] for s in steps[:-1]))
    if strict:
        ctx.count("strictly well-formed streams")
        hreqs, hstate = h11_parse(data)
        if hstate.startswith("error") or hstate == "incomplete":
            ctx.count("h11 refuses a stream the reference calls well-formed (" + hstate[:40] + ")")
        else:
            n = min(len(hreqs), len(obs["requests"]))
            for k in range(n):
                d = _h11_differs(hreqs[k], obs["requests"][k])
                if d is not None:
                    ctx.violation("h11-differential:" + d, case, "stream=%r\n h11: %r\n twisted: %r"
                                  % (data[:400], hreqs[k], obs["requests"][k]))
            if hstate == "end" and len(hreqs) != len(obs["requests"]):
                ctx.violation("h11-differential:request-count", case, "stream=%r h11 %d requests, twisted %d"
                              % (data[:400], len(hreqs), len(obs["requests"])))
            ctx.count("h11 agreed")
    # bookkeeping
    ctx.count("streams")
    ctx.count("schedule: " + mode)
    term = steps[-1]
    ctx.count("reference: ends with " + term[0] + (":" + term[1] if term[0] == "error" else ""))
    for m, what in choices:
        ctx.count("choice %s: %s" % (m, what))
    nreq = sum(1 for s in steps if s[0] == "request")
    ctx.count("reference requests=%d" % min(nreq, 3))
    ctx.count("delivered requests=%d" % min(len(obs["requests"]), 3))
    framing_issue = (term[0] == "error" and term[1].startswith(FRAMING_REASONS)) or any(
        m.startswith(FRAMING_REASONS) for s in steps if s[0] == "request" for m in s[1]["may"])
    piped = nreq >= 2 and steps[0][1]["body"] != b""
    if framing_issue:
        ctx.count("nt: framing conflict / invalid framing element")
    if piped:
        ctx.count("nt: >=2 requests, first has a body")
    if framing_issue or piped:
        ctx.nontrivial(data)
        if len(ctx.samples) < 5 and len(data) < 300 and (len(data) % 7 == 0):
            ctx.sample(dict(stream=data))
    # the same verdict must hold however the bytes arrive
    specs = case.get("cuts")
    if specs is None:
        specs = ["bytewise"] if 1 < len(data) <= 400 else []
    for spec in specs:
        cuts = list(range(1, len(data))) if spec == "bytewise" else sorted(set(c for c in spec if 0 < c < len(data)))
        if not cuts:
            continue
        segs = split_at(data, cuts)
        sobs = serve(segs, mode)
        sres = [conforms(a, sobs) for a in alts]
        classes = _cut_classes(case, data, cuts) if spec != "bytewise" else ["bytewise"]
        ctx.count("seg deliveries")
        if mode != "sync":
            ctx.count("seg deliveries with late answers (%s)" % mode)
            if nreq >= 1 and term[0] == "error" and len(segs) > 1:
                ctx.count("late: a request that must be rejected sits behind a pending one, in several segments")
        for c in classes:
            ctx.count("seg: " + c)
        if not any(r[0] is None for r in sres):
            (sig, detail), _ = sres[0]
            where = classes[0] if classes else "other-cut"
            late = _late_prefix(alts, segs, mode)
            ctx.violation(late + "segmented:%s:%s" % (sig, where), dict(pieces=case["pieces"], cuts=[spec], mode=mode),
                          "stream=%r cuts=%r\n one piece conforms; segmented delivery does not: %s\n observed: %d requests, got400=%r closed=%r"
                          % (data[:500], cuts[:12], detail, len(sobs["requests"]), sobs["got400"], sobs["closed"]))
        if sobs["n200"] != len(sobs["requests"]) and not sobs["runaway"]:
            ctx.violation("segmented:responses-vs-requests", dict(pieces=case["pieces"], cuts=[spec], mode=mode),
                          "delivered %d requests, wrote %d 200 responses" % (len(sobs["requests"]), sobs["n200"]))
        if classes and classes[0] != "other-cut" and (framing_issue or piped or any(k in ("chunksize", "lastchunk") for k, _ in case["pieces"])):
            ctx.nontrivial((data, tuple(cuts)))


def _late_prefix(alts, segs, mode):
    """'late-response:' when the same delivery conforms if the application answers synchronously."""
    if mode == "sync":
        return ""
    o = serve(segs, "sync")
    return "late-response:" if any(conforms(a, o)[0] is None for a in alts) else ""


def split_at(data, cuts):
    out, prev = [], 0
    for c in cuts:
        out.append(data[prev:c])
        prev = c
    out.append(data[prev:])
    return out


def _cut_classes(case, data, cuts):
    """Labels for a cut list, most specific first (the first one goes into a signature)."""
    lines = []          # (start, end) of chunk-size lines, from the piece labels
    pos = 0
    for kind, b in case["pieces"]:
        if kind in ("chunksize", "lastchunk"):
            lines.append((pos, pos + len(b)))
        pos += len(b)
    cs = set(cuts)
    out = []
    deep = [(c - a, a, e) for a, e in lines for c in cuts if a < c < e and c - a >= 3]
    if any(a2 > a and (e2 - a2) < depth + 2 and not any(a2 < c <= e2 for c in cuts)
           for depth, a, e in deep for a2, e2 in lines):
        out.append("deep cut in a chunk-size line, later shorter size line unsplit")
    if any(a < c < e for a, e in lines for c in cuts):
        out.append("cut inside a chunk-size line")
    if any(data[c - 1:c + 1] == b"\r\n" for c in cuts):
        out.append("cut between CR and LF")
    if any(data[max(0, c - 3):c + 3].find(b"\r\n\r\n") >= 0 and data[c - 1:c + 1] != b"\r\n" or data[c - 2:c + 2] == b"\r\n\r\n" for c in cuts):
        out.append("cut inside CRLFCRLF")
    if not out:
        out.append("other-cut")
    if len(cuts) > 1:
        out.append("several cuts")
    return out


def _brief_step(s):
    if s[0] == "request":
        return ("request", _brief(s[1]), s[1]["may"])
    return s


# --------------------------------------------------------------------------
# generators

@lru_cache(maxsize=None)
def _int(a, b):
    return st.integers(a, b)


def _pick(draw, seq):
    """draw(sampled_from(seq)) without building a new strategy object each time."""
    return seq[draw(_int(0, len(seq) - 1))]


HOST = ["header", b"Host: h.example\r\n"]
LAST = [["reqline", b"GET /last HTTP/1.1\r\n"], HOST, ["eoh", b"\r\n"]]


def sweep_cases():
    """Every byte value at thirteen syntactic positions, each followed by a plain
    request that must (not) be reached."""
    out = []
    for b in range(256):
        c = bytes([b])
        out.append([["reqline", b"GET /a" + c + b"c HTTP/1.1\r\n"], HOST, ["eoh", b"\r\n"]] + LAST)
        out.append([["reqline", b"GE" + c + b"T / HTTP/1.1\r\n"], HOST, ["eoh", b"\r\n"]] + LAST)
        out.append([["reqline", b"GET / HTTP/1." + c + b"\r\n"], HOST, ["eoh", b"\r\n"]] + LAST)
        out.append([["reqline", b"GET / HTTP/1.1\r\n"], HOST, ["header", b"X-a" + c + b"b: v\r\n"], ["eoh", b"\r\n"]] + LAST)
        out.append([["reqline", b"GET / HTTP/1.1\r\n"], HOST, ["header", b"X-V: a" + c + b"b\r\n"], ["eoh", b"\r\n"]] + LAST)
        out.append([["reqline", b"POST / HTTP/1.1\r\n"], HOST, ["header", b"Content-Length: 1" + c + b"\r\n"], ["eoh", b"\r\n"],
                    ["body", b"x" * 19]] + LAST)
        out.append([["reqline", b"POST / HTTP/1.1\r\n"], HOST, ["header", b"Transfer-Encoding: chunked" + c + b"\r\n"],
                    ["eoh", b"\r\n"], ["chunksize", b"3\r\n"], ["chunkdata", b"abc\r\n"], ["lastchunk", b"0\r\n"],
                    ["endtrailers", b"\r\n"]] + LAST)
        out.append([["reqline", b"POST / HTTP/1.1\r\n"], HOST, ["header", b"Transfer-Encoding: chunked\r\n"],
                    ["eoh", b"\r\n"], ["chunksize", b"1" + c + b"\r\n"], ["chunkdata", b"a" * 17 + b"\r\n"],
                    ["lastchunk", b"0\r\n"], ["endtrailers", b"\r\n"]] + LAST)
        out.append([["reqline", b"POST / HTTP/1.1\r\n"], HOST, ["header", b"Transfer-Encoding: chunked\r\n"],
                    ["eoh", b"\r\n"], ["chunksize", b"3;e=" + c + b"\r\n"], ["chunkdata", b"abc\r\n"],
                    ["lastchunk", b"0\r\n"], ["endtrailers", b"\r\n"]] + LAST)
        chunked_tail = [["eoh", b"\r\n"], ["chunksize", b"3\r\n"], ["chunkdata", b"abc\r\n"], ["lastchunk", b"0\r\n"],
                        ["endtrailers", b"\r\n"]]
        out.append([["reqline", b"POST / HTTP/1.1\r\n"], HOST, ["header", b"Transfer-Encoding" + c + b": chunked\r\n"]]
                   + chunked_tail + LAST)
        out.append([["reqline", b"POST / HTTP/1.1\r\n"], HOST, ["header", c + b"Transfer-Encoding: chunked\r\n"]]
                   + chunked_tail + LAST)
        out.append([["reqline", b"POST / HTTP/1.1\r\n"], HOST, ["header", b"Transfer-Encoding: " + c + b"chunked\r\n"]]
                   + chunked_tail + LAST)
        out.append([["reqline", b"POST / HTTP/1.1\r\n"], HOST, ["header", b"Content-Length: " + c + b"3\r\n"], ["eoh", b"\r\n"],
                    ["body", b"abc"]] + LAST)
    return [dict(pieces=p) for p in out]


METHODS = [b"GET", b"POST", b"POST", b"PUT", b"DELETE", b"OPTIONS", b"M-SEARCH", b"get", b"!#$%&'*+-.^_`|~"]
BAD_METHODS = [b"", b"G ET", b"GE\x00T", b"GET:", b"(GET)", b"G\xc9T", b"GET\t"]
TARGETS = [b"/", b"/", b"/a/b?x=1&y=2", b"*", b"http://h.example/p?q", b"h.example:443", b"/%41%2F", b"/a;p=1,2"]
ODD_TARGETS = [b"/a%zz", b'/"q"', b"/{x}|y", b"/a#f", b"/caf\xc3\xa9", b"/\x7f", b"/a\x80", b"/a\xb0", b"/a\xb1", b"/a\xff",
               b"relative", b"/a\x0bb", b"/\\x"]
VERSIONS = [b"HTTP/1.1"] * 8 + [b"HTTP/1.0"]
ODD_VERSIONS = [b"HTTP/1.2", b"HTTP/2.0", b"HTTP/0.9", b"HTTP/1.10", b"HTTP/11", b"http/1.1", b"HTTP/1.", b"HTTP/1.1 ", b"HTTP/1,1",
                b"HTTP/\xd9\xa1.1", b"HTTPS/1.1"]
PLAIN_HEADERS = [b"Accept: */*\r\n", b"X-Empty:\r\n", b"X-Ws: \t v \t \r\n", b"X-Dup: 1\r\n", b"x-dup: 2\r\n",
                 b"X-Latin: caf\xe9\r\n", b"X-Colon: a:b\r\n", b"Connection: keep-alive\r\n",
                 b"Content-Type: text/plain\r\n", b"X-Quote: \"a, b\"\r\n"]
ODD_HEADERS = [b"X-Fold: a\r\n  b\r\n", b"X-Fold: a \t\r\n\t b\r\n\t\r\n", b"X-Lf: a\nb\r\n", b"X-Cr: a\rb\r\n", b"X-Nul: a\x00b\r\n",
               b"X-Ctl: a\x01\x7fb\r\n", b" leading: ws\r\n", b"NoColon\r\n", b"Bad Name: v\r\n", b"X-Sp : v\r\n", b"X-Tab\t: v\r\n",
               b": noname\r\n", b"X-(paren): v\r\n", b"X-\xe9: v\r\n", b"X-LfOnly: v\n", b"Connection: close\r\n",
               b"Host: second.example\r\n", b"X-Lf2: a\n\rb\n\r\n", b"Content_Length: 3\r\n", b"Content-Length : 3\r\n",
               b"Transfer-Encoding : chunked\r\n", b"X: y\r\nTransfer-Encoding\r\n : chunked\r\n"]
CL_FORMS = ["{n}", "{n}", "{n}", "0{n}", "000{n}", " {n}", "{n} \t", "+{n}", "-{n}", "{n}, {n}", "{n},{m}", "0x{n}", "{n}.0",
            "", "{n}e0", "{n} {n}", "٣", "{n}\x0b", "{n};q=1", "\"{n}\"", "{n}\r\n {m}", "\r\n {n}", "{n}\n", "{n}\r", "{n}\x00",
            "HUGE0", "HUGE1"]
CL_NAMES = [b"Content-Length", b"content-length", b"CONTENT-LENGTH", b"Content-length"]
TE_FORMS = [b"chunked", b"chunked", b"chunked", b"Chunked", b"CHUNKED", b" \tchunked \t", b"chunked, chunked", b"gzip, chunked",
            b"chunked, gzip", b"identity", b"identity, chunked", b"chunked, identity", b"chunked;q=1", b",chunked", b"chunked,",
            b"x-chunked", b"chunked\x0b", b"\x0bchunked", b"\r\n chunked", b"chunk\r\n ed", b"gzip", b"", b"chunked\n", b"chunked\x00",
            b"\"chunked\"", b"chunked chunked", b"Identity"]
TE_NAMES = [b"Transfer-Encoding", b"transfer-encoding", b"TRANSFER-ENCODING"]
BODIES = [b"", b"x", b"abc", b"hello world", b"GET /smuggled HTTP/1.1\r\nHost: h.example\r\n\r\n",
          b"0\r\n\r\nGET /smuggled HTTP/1.1\r\nHost: h.example\r\n\r\n", b"\r\n", b"3\r\nabc\r\n0\r\n\r\n", b"\x00\xff\r\n" * 3, b"z" * 40]
SIZE_FORMS = ["{x}", "{x}", "{x}", "{X}", "0{x}", "0000{x}", "0x{x}", "+{x}", "-{x}", " {x}", "{x} ", "{x}g", "", "٥", "{x}\t",
              "fffffffffffffffff", "10000000000000000{x}", "100000000{x}"]
EXTS = [b"", b"", b"", b";a=b", b";a", b';a="q s"', b";a=b;c", b';a="q\\"s"', b" ;a=b", b";a = b", b";;", b";=v", b";a=\x01", b";a\nb", b";a\rb",
        b";\xe9=\xfc", b';a="unterminated', b"; ", b";a=b;c=d;e"]
TRAILERS = [b"X-Trailer: t\r\n", b"Content-Length: 5\r\n", b"nocolon\r\n", b" folded\r\n", b"Transfer-Encoding: chunked\r\n"]


def _cl_value(form, n, m):
    if form == "HUGE0":
        return b"0" * 4400 + b"%d" % n
    if form == "HUGE1":
        return b"1" * 4400
    return form.format(n=n, m=m).encode("utf-8")


@st.composite
def chunked_body(draw, body, odd):
    pieces = []
    rest = body
    while rest:
        n = draw(_int(1, len(rest)))
        form = _pick(draw, SIZE_FORMS if odd and draw(_int(0, 5)) == 0 else SIZE_FORMS[:6])
        size = form.format(x="%x" % n, X="%X" % n).encode("utf-8")
        ext = _pick(draw, EXTS if odd else EXTS[:7])
        eol = b"\r\n"
        if odd and draw(_int(0, 20)) == 0:
            eol = _pick(draw, [b"\n", b"\r", b"\r\r\n"])
        pieces.append(["chunksize", size + ext + eol])
        tail = b"\r\n"
        if odd and draw(_int(0, 15)) == 0:
            tail = _pick(draw, [b"", b"\n", b"X\r\n", b"\r", b"\r\n\r\n", b"\rX"])
        pieces.append(["chunkdata", rest[:n] + tail])
        rest = rest[n:]
    last = _pick(draw, [b"0", b"0", b"0", b"00", b"0;x=y"] + ([b"0x0", b" 0", b"-0"] if odd else []))
    pieces.append(["lastchunk", last + (b"\n" if odd and draw(_int(0, 25)) == 0 else b"\r\n")])
    for _ in range(_pick(draw, [0, 0, 0, 1, 2])):
        pieces.append(["trailer", _pick(draw, TRAILERS if odd else TRAILERS[:2])])
    if not (odd and draw(_int(0, 25)) == 0):
        pieces.append(["endtrailers", b"\r\n"])
    return pieces


@st.composite
def request_pieces(draw, odd):
    pieces = []
    odd_line = odd and draw(_int(0, 3)) == 0
    method = _pick(draw, METHODS)
    target = _pick(draw, TARGETS)
    version = _pick(draw, VERSIONS)
    sep1 = sep2 = b" "
    eol = b"\r\n"
    if odd_line:
        k = draw(_int(0, 5))
        if k == 0:
            method = _pick(draw, BAD_METHODS)
        elif k == 1:
            target = _pick(draw, ODD_TARGETS)
        elif k == 2:
            target = b"/b" + bytes([draw(_int(0, 255))]) + b"z"
        elif k == 3:
            version = _pick(draw, ODD_VERSIONS)
        elif k == 4:
            sep1 = _pick(draw, [b"  ", b"\t", b" \t", b"\r", b""])
            sep2 = _pick(draw, [b" ", b"  ", b"\t"])
        else:
            eol = _pick(draw, [b"\n", b"\r", b"\r\r\n"])
    pieces.append(["reqline", method + sep1 + target + sep2 + version + eol])
    hs = [HOST[1]] + [_pick(draw, PLAIN_HEADERS) for _ in range(draw(_int(0, 2)))]
    if odd and draw(_int(0, 2)) == 0:
        hs.insert(draw(_int(0, len(hs))), _pick(draw, ODD_HEADERS))
    if odd and draw(_int(0, 15)) == 0:
        hs.remove(HOST[1])
    # framing headers
    body = _pick(draw, BODIES)
    framing = _pick(draw, ["none", "cl", "cl", "chunked", "chunked"] + (
        ["cl-odd", "cl-odd", "cl-dup", "te-odd", "te-odd", "te+cl", "te+cl", "te-dup", "cl-mismatch"] if odd else []))
    n = len(body)
    body_pieces = []

    def put(h):
        hs.insert(draw(_int(1, max(1, len(hs)))), h)

    if framing == "none":
        if odd and draw(_int(0, 3)) == 0 and body:
            body_pieces = [["body", body]]          # unannounced body: must be parsed as the next request
    elif framing in ("cl", "cl-odd", "cl-dup", "cl-mismatch"):
        name = _pick(draw, CL_NAMES)
        form = _pick(draw, CL_FORMS) if framing == "cl-odd" else "{n}"
        nn = n
        if framing == "cl-mismatch":
            nn = max(0, n + _pick(draw, [-2, -1, 1, 5]))
        put(name + b": " + _cl_value(form, nn, n + 1) + b"\r\n")
        if framing == "cl-dup":
            other = _pick(draw, [n, n, n + 1, 0])
            put(_pick(draw, CL_NAMES) + b": %d\r\n" % other)
        if body:
            body_pieces = [["body", body]]
    else:
        te_form = _pick(draw, TE_FORMS) if framing == "te-odd" else _pick(draw, TE_FORMS[:6])
        name = _pick(draw, TE_NAMES)
        put(name + b":" + _pick(draw, [b" ", b"", b"\t"]) + te_form + b"\r\n")
        if framing == "te-dup":
            put(_pick(draw, TE_NAMES) + b": " + _pick(draw, [b"chunked", b"gzip", b"identity"]) + b"\r\n")
        if framing == "te+cl":
            if (draw(_int(0, 1)) == 1):
                # identity + CL is the legacy combination
                hs[[i for i, h in enumerate(hs) if h.lower().startswith(b"transfer-encoding")][0]] = \
                    name + b": " + _pick(draw, [b"identity", b"Identity", b"chunked", b"gzip"]) + b"\r\n"
            put(_pick(draw, CL_NAMES) + b": %d\r\n" % _pick(draw, [n, 0, 3]))
        shape = _pick(draw, ["chunked", "chunked", "chunked", "raw"]) if odd else "chunked"
        if shape == "chunked":
            body_pieces = draw(chunked_body(body, odd))
        elif body:
            body_pieces = [["body", body]]
    for h in hs:
        pieces.append(["header", h])
    eoh = b"\r\n"
    if odd and draw(_int(0, 30)) == 0:
        eoh = _pick(draw, [b"\n", b"\r\r\n", b"\r"])
    pieces.append(["eoh", eoh])
    pieces.extend(body_pieces)
    return pieces


@st.composite
def stream_case(draw):
    n = draw(_int(1, 3))
    odd_stream = draw(_int(0, 9)) < 6
    victim = max(draw(_int(0, n - 1)), draw(_int(0, n - 1))) if odd_stream else -1
    pieces = []
    for i in range(n):
        if draw(_int(0, 11)) == 0:
            pieces.append(["blank", b"\r\n" * _pick(draw, [1, 1, 1, 1, 2, 3])])
        pieces.extend(draw(request_pieces(i == victim)))
    if draw(_int(0, 2)) > 0:
        pieces.extend(LAST)
    if odd_stream:
        k = draw(_int(0, 19))
        if k == 0:
            pieces.append(["junk", _pick(draw, [b"\x00\x01garbage\r\n\r\n", b"GET", b"\r\n", b"\r\n\r\n", b"0\r\n\r\n"])])
        elif k == 1:
            kind, b = pieces[-1]
            pieces[-1] = [kind, b[:draw(_int(0, max(0, len(b) - 1)))]]
        elif k == 2 and len(pieces) > 2:
            del pieces[draw(_int(1, len(pieces) - 1))]
    pieces = [[k, b] for k, b in pieces if b]
    return dict(pieces=pieces, cuts=draw(cut_specs(pieces)), mode=_pick(draw, ["sync", "sync", "after", "end", "end"]))


@st.composite
def cut_specs(draw, pieces):
    """2-3 segmentations of the stream: cuts inside chunk-size lines, between CR
    and LF, at piece boundaries, random; byte-wise for short streams."""
    data = b"".join(b for _, b in pieces)
    n = len(data)
    if n < 2:
        return []
    lines, bounds, pos = [], [], 0
    for kind, b in pieces:
        if kind in ("chunksize", "lastchunk") and len(b) > 1:
            lines.append((pos, pos + len(b)))
        if pos:
            bounds.append(pos)
        pos += len(b)
    crlf = [i + 1 for i in range(n - 1) if data[i:i + 2] == b"\r\n"]
    specs = []
    for _ in range(draw(_int(2, 3))):
        mode = draw(_int(0, 5))
        if mode <= 1 and lines:
            a, e = _pick(draw, lines)
            cuts = [draw(_int(a + 1, e - 1))]
            if mode == 1 and e - a > 2:
                cuts.append(draw(_int(a + 1, e - 1)))
        elif mode == 2 and crlf:
            cuts = [_pick(draw, crlf) for _ in range(draw(_int(1, 2)))]
        elif mode == 3 and bounds:
            cuts = [min(n - 1, max(1, _pick(draw, bounds) + draw(_int(-1, 1))))]
        else:
            cuts = [draw(_int(1, n - 1)) for _ in range(draw(_int(1, 4)))]
        specs.append(sorted(set(cuts)))
    if n <= 250:
        specs.append("bytewise")
    return specs


def segmentation_cases():
    """Small complete scope: well-formed chunked requests (multi-digit sizes,
    leading zeros, extensions, trailers) followed by a pipelined request, under
    EVERY single cut."""
    head = [["reqline", b"POST /seg HTTP/1.1\r\n"], HOST, ["header", b"Transfer-Encoding: chunked\r\n"], ["eoh", b"\r\n"]]
    a, b, c = b"abcdefghijklmnopqrstuvwxyz", b"0123456789ABCDEF" * 2, b"xyz"
    bodies = [
        [(b"1a", a), (b"20", b), (b"3", c)],
        [(b"01A;note=first", a), (b"3", c)],
        [(b"0000003", c), (b"1a", a), (b"3;x", c)],
        [(b"3", c), (b'20;q="a b"', b), (b"1A", a)],
    ]
    lasts = [[["lastchunk", b"0\r\n"], ["endtrailers", b"\r\n"]],
             [["lastchunk", b"000;fin\r\n"], ["trailer", b"X-Trailer: t\r\n"], ["endtrailers", b"\r\n"]]]
    out = []
    for i, chunks in enumerate(bodies):
        pieces = list(head)
        for size, data in chunks:
            pieces.append(["chunksize", size + b"\r\n"])
            pieces.append(["chunkdata", data + b"\r\n"])
        pieces += lasts[i % 2] + LAST
        n = sum(len(x) for _, x in pieces)
        out.append(dict(pieces=pieces, cuts=[[k] for k in range(1, n)]))
    return out


def run(ctx):
    enumerate_run(ctx, sweep_cases(), run_case)
    if ctx.has_violation():
        return
    enumerate_run(ctx, segmentation_cases(), run_case)
    if ctx.has_violation():
        return
    if ctx.thorough:
        ctx.shards(_shard, list(range(16)))
        return
    hyp_run(ctx, stream_case(), run_case, 3800, label="streams")


def _shard(sub, i):
    hyp_run(sub, stream_case(), run_case, 20000, label=f"streams-shard{i}")
