"""C20 — HTTP/1.x server responses are framed exactly and headers cannot be injected.

A generated "application program" (status + reason phrase, header operations with
valid and invalid names, cookies with every attribute, a write sequence, finish)
is run inside a real HTTPChannel (plain http.Request subclass, or server.Site with
a resource that writes asynchronously or returns its body).  The bytes captured on
the transport are parsed by a strict structural parser written for this check and
compared with a model of what was set; h11 (as the client of the same request) is
the second opinion whenever every emitted value is inside h11's grammar.
"""
import itertools
import re

from hypothesis import strategies as st

from lib.core import hyp_run, enumerate_run

META = dict(
    property="C20",
    level="exploration",
    technique="generated response programs through a real HTTPChannel; strict structural response parser + model of the headers set; h11 client as differential second opinion; complete enumeration of a framing grid and an injection-vector grid",
    level_text="Random programs (status 200-599, reason bytes 0..255, header names valid/invalid as str/bytes, values str/bytes with CR/LF/NUL/obs-text/astral, cookies with all attributes, write sequences, GET/HEAD, HTTP/1.0/1.1, Connection: close, explicit Content-Length, http.Request / server.Request async / server.Request returning its body) plus two complete grids (framing dimensions; every injection payload through every value channel). Exploration only: sizes are small (values <= ~40 bytes, <= 6 header ops, <= 5 writes).",
    level_note="Trusted: the structural parser and header/cookie model in this file (written from RFC 9110/9112 and the API docs), h11 0.16 for the second opinion, twisted.internet.testing.StringTransport as the wire. Date header pinned; timeouts on a task.Clock. Only Content-Length values equal to the real body length are generated (a lying application is outside the statement).",
    design_ref="§5 C20",
    rule="case = (mode, method, version, conn_close, code, reason, header/cookie ops, explicit_cl, writes). non-trivial = some header value, cookie field or reason phrase contains CR or LF (i.e. the case attempts a line-break injection); distinct by the whole case.",
)

PINNED_DATE = b"Thu, 01 Jan 2026 00:00:00 GMT"
TCHAR = frozenset(b"!#$%&'*+-.^_`|~0123456789abcdefghijklmnopqrstuvwxyzABCDEFGHIJKLMNOPQRSTUVWXYZ")
FORBIDDEN_NAMES = (b"content-length", b"transfer-encoding", b"set-cookie")
_LB = re.compile(rb"\r\n|\r|\n")
_STATUS = re.compile(rb"\AHTTP/1\.([01]) ([0-9]{3}) ([^\r\n]*)\Z", re.S)
COOKIE_ATTRS = ("expires", "domain", "path", "max_age", "comment")
COOKIE_ATTR_WIRE = dict(expires=b"expires", domain=b"domain", path=b"path",
                        max_age=b"max-age", comment=b"comment")


# --------------------------------------------------------------------------
# model

def to_bytes_value(v):
    return v.encode("utf-8") if isinstance(v, str) else bytes(v)


def sanitise(b):
    """Line breaks replaced by SP (the statement's rule), independent of twisted."""
    return _LB.sub(b" ", b)


def ows_strip(b):
    return b.strip(b" \t")


def name_bytes_or_none(name):
    """Wire form of a header name, or None if it is not a valid field-name."""
    if isinstance(name, str):
        try:
            raw = name.encode("ascii")
        except UnicodeEncodeError:
            return None
    else:
        raw = bytes(name)
    if not raw or any(c not in TCHAR for c in raw):
        return None
    return raw


def has_lb(x):
    if x is None or isinstance(x, bool):
        return False
    b = to_bytes_value(x)
    return b"\r" in b or b"\n" in b


def cookie_san(x):
    return sanitise(to_bytes_value(x)).replace(b";", b" ")


def expected_cookie_parts(op, samesite_emitted):
    """[(first pair bytes)] + [(attr lower, value or None)...] for one addCookie."""
    _, k, v, attrs = op
    # "line breaks replaced by spaces": a line break that ends the cookie name may either
    # become a space or vanish (both are sanitised); everywhere else a trailing one is OWS.
    kb = to_bytes_value(k)
    k1 = _LB.sub(b"", kb[-2:]) if kb[-2:] == b"\r\n" else _LB.sub(b"", kb[-1:])
    k1 = (kb[:-2] if kb[-2:] == b"\r\n" else kb[:-1]) + k1
    parts = [{ows_strip(cookie_san(kb) + b"=" + cookie_san(v)), ows_strip(cookie_san(k1) + b"=" + cookie_san(v))}]
    for a in COOKIE_ATTRS:
        if attrs.get(a) is not None:
            parts.append((COOKIE_ATTR_WIRE[a], ows_strip(cookie_san(attrs[a]))))
    if attrs.get("secure"):
        parts.append((b"secure", None))
    if attrs.get("httpOnly"):
        parts.append((b"httponly", None))
    if samesite_emitted is not None:
        parts.append((b"samesite", samesite_emitted))
    return parts


def parse_cookie_value(val):
    raw = val.split(b";")
    parts = [ows_strip(raw[0])]
    for p in raw[1:]:
        p = ows_strip(p)
        if b"=" in p:
            a, _, x = p.partition(b"=")
            parts.append((a.lower(), ows_strip(x)))
        else:
            parts.append((p.lower(), None))
    return parts


# --------------------------------------------------------------------------
# strict structural parsers (independent of twisted)

class Malformed(Exception):
    def __init__(self, sig, detail):
        super().__init__(sig + ": " + detail)
        self.sig = sig
        self.detail = detail


def parse_head(out):
    """-> (minor version, code, reason, [(name, value)], rest)."""
    head, sep, rest = out.partition(b"\r\n\r\n")
    if not sep:
        raise Malformed("head-not-terminated", repr(out[:200]))
    lines = head.split(b"\r\n")
    m = _STATUS.match(lines[0])
    if not m:
        raise Malformed("status-line-malformed", repr(lines[0][:200]))
    headers = []
    for ln in lines[1:]:
        if b"\r" in ln or b"\n" in ln:
            raise Malformed("bare-cr-or-lf-in-header-line", repr(ln[:200]))
        name, colon, value = ln.partition(b":")
        if not colon:
            raise Malformed("header-line-without-colon", repr(ln[:200]))
        if not name or any(c not in TCHAR for c in name):
            raise Malformed("header-line-bad-name", repr(ln[:200]))
        headers.append((name, ows_strip(value)))
    return int(m.group(1)), int(m.group(2)), m.group(3), headers, rest


_CHUNK_SIZE = re.compile(rb"\A[0-9A-Fa-f]+\Z")


def decode_chunked_strict(data):
    """Decode a complete chunked body that must end exactly at the end of data."""
    pos, body = 0, []
    while True:
        eol = data.find(b"\r\n", pos)
        if eol < 0:
            raise Malformed("chunked-truncated", "no CRLF after chunk size at %d" % pos)
        size_line = data[pos:eol]
        if not _CHUNK_SIZE.match(size_line):
            raise Malformed("chunked-bad-size-line", repr(size_line[:60]))
        n = int(size_line, 16)
        pos = eol + 2
        if n == 0:
            if data[pos:pos + 2] != b"\r\n":
                raise Malformed("chunked-bad-terminator", repr(data[pos:pos + 20]))
            pos += 2
            if pos != len(data):
                raise Malformed("bytes-after-last-chunk", repr(data[pos:pos + 60]))
            return b"".join(body)
        if pos + n + 2 > len(data):
            raise Malformed("chunked-truncated", "chunk of %d at %d overruns" % (n, pos))
        body.append(data[pos:pos + n])
        pos += n
        if data[pos:pos + 2] != b"\r\n":
            raise Malformed("chunked-missing-crlf-after-data", repr(data[pos:pos + 20]))
        pos += 2


# --------------------------------------------------------------------------
# running the program against twisted

class _Pinned:
    """Pin the Date header source for the duration of one case."""

    def __enter__(self):
        import twisted.web.server as S
        import twisted.web.http as H
        self.S, self.H = S, H
        self.old = (S.datetimeToString, H.datetimeToString)
        S.datetimeToString = H.datetimeToString = lambda *a, **k: PINNED_DATE
        return self

    def __exit__(self, *a):
        self.S.datetimeToString, self.H.datetimeToString = self.old


def run_program(request, case, state):
    """Executes the generated application code; records refused operations."""
    request.setResponseCode(case["code"], case["reason"])
    refused = state["refused"]
    for i, op in enumerate(case["ops"]):
        kind = op[0]
        try:
            if kind == "set":
                request.setHeader(op[1], op[2])
            elif kind == "add":
                request.responseHeaders.addRawHeader(op[1], op[2])
            elif kind == "setraw":
                request.responseHeaders.setRawHeaders(op[1], list(op[2]))
            elif kind == "cookie":
                a = op[3]
                request.addCookie(op[1], op[2], expires=a.get("expires"), domain=a.get("domain"),
                                  path=a.get("path"), max_age=a.get("max_age"),
                                  comment=a.get("comment"), secure=a.get("secure"),
                                  httpOnly=bool(a.get("httpOnly")), sameSite=a.get("sameSite"))
            else:
                raise AssertionError(kind)
        except ValueError as e:      # InvalidHeaderName, UnicodeEncodeError, bad sameSite
            refused[i] = type(e).__name__
    body = b"".join(case["writes"])
    if case["explicit_cl"]:
        request.setHeader(b"Content-Length", b"%d" % len(body))
    return body


def drive(case):
    """-> dict(out, disconnecting, refused, exc, version_string)"""
    from twisted.internet import task
    from twisted.internet.testing import StringTransport
    from twisted.python.failure import Failure
    from twisted.internet.error import ConnectionDone
    from twisted.web import http, server, resource

    clock = task.Clock()
    state = dict(refused={}, exc=None, calls=0)
    mode = case["mode"]

    def app(request):
        state["calls"] += 1
        try:
            body = run_program(request, case, state)
            if mode == "site-return":
                return body
            for w in case["writes"]:
                request.write(w)
            request.finish()
        except BaseException as e:      # re-raised by run_case once the channel returns
            state["exc"] = e
        return server.NOT_DONE_YET

    if mode == "raw":
        class Req(http.Request):
            def process(self):
                app(self)
        factory = http.HTTPFactory(reactor=clock)
        proto = factory.buildProtocol(None)
        proto.requestFactory = Req
    else:
        class Res(resource.Resource):
            isLeaf = True
        if mode == "site-return":
            Res.render_GET = lambda self, request: app(request)   # HEAD goes through the fake-HEAD path
        else:
            Res.render = lambda self, request: app(request)
        factory = server.Site(Res(), reactor=clock)
        proto = factory.buildProtocol(None)
    factory._logDateTime = "01/Jan/2026:00:00:00 +0000"
    tr = StringTransport()
    proto.makeConnection(tr)
    req = b"%s /r HTTP/%s\r\nHost: h\r\n" % (case["method"].encode(), case["version"].encode())
    if case["conn_close"]:
        req += b"Connection: close\r\n"
    req += b"\r\n"
    try:
        proto.dataReceived(req)
    finally:
        out = tr.value()
        disc = tr.disconnecting
        proto.connectionLost(Failure(ConnectionDone()))
        for dc in clock.getDelayedCalls():
            dc.cancel()
    return dict(out=out, disconnecting=disc, refused=state["refused"], exc=state["exc"],
                calls=state["calls"], server_version=server.version)


# --------------------------------------------------------------------------
# the oracle

class _Relabel:
    """Context view that files every divergence of one case under one root cause."""

    def __init__(self, ctx, sig):
        self._ctx, self._sig = ctx, sig

    def __getattr__(self, name):
        return getattr(self._ctx, name)

    def violation(self, signature, case, detail=""):
        self._ctx.violation(self._sig, case, f"[{signature}] {detail}")

    def check(self, cond, signature, case, detail=""):
        if not cond:
            self.violation(signature, case, detail() if callable(detail) else detail)


def run_case(ctx, case):
    with _Pinned():
        r = drive(case)
    if r["exc"] is not None:
        raise r["exc"]
    out, code, reason = r["out"], case["code"], case["reason"]
    # Root cause attribution: if the reason phrase contains a line break and it is on the
    # wire verbatim in the status-line position, whatever the oracle then finds (extra header
    # lines, shifted body, ...) is that one defect.  (If the response is nevertheless exactly
    # right -- only possible for a phrase ending in a line break with no header following --
    # nothing is reported.)
    if has_lb(reason) and any(out.startswith(b"HTTP/1.%d %d %s\r\n" % (v, code, reason)) for v in (0, 1)):
        ctx.count("reason phrase with line break emitted verbatim")
        oracle(_Relabel(ctx, "reason-phrase-line-break-not-sanitised"), case, r)
    else:
        oracle(ctx, case, r)


def oracle(ctx, case, r):
    out = r["out"]
    mode, method, version = case["mode"], case["method"], case["version"]
    code, reason = case["code"], case["reason"]
    body = b"".join(case["writes"])
    ctx.check(r["calls"] == 1, "application-not-called-once", case, f"calls={r['calls']}")

    # ---- model of the headers that were set --------------------------------
    exp = {}                       # lower name -> [values]
    if mode != "raw":
        exp[b"server"] = [r["server_version"]]
        exp[b"date"] = [PINNED_DATE]
    if case["conn_close"] and version == "1.1":
        exp[b"connection"] = [b"close"]
    cookies = []                   # expected parts per cookie
    injecting = has_lb(reason)
    n_invalid = n_valid = 0
    for i, op in enumerate(case["ops"]):
        kind = op[0]
        was_refused = i in r["refused"]
        if kind == "cookie":
            a = op[3]
            ss = a.get("sameSite")
            ss_emitted = None
            if ss:
                ssb = to_bytes_value(ss).lower()
                if ssb in (b"lax", b"strict"):
                    ctx.check(not was_refused, "cookie-valid-samesite-refused", case, f"op {i}: {op!r}")
                    ss_emitted = ssb
                elif was_refused:
                    continue            # documented ValueError for an unsupported sameSite
                else:
                    ss_emitted = ows_strip(cookie_san(ssb))
            else:
                ctx.check(not was_refused, "cookie-refused", case, f"op {i}: {op!r} -> {r['refused'].get(i)}")
            cookies.append(expected_cookie_parts(op, ss_emitted))
            injecting = injecting or any(has_lb(x) for x in (op[1], op[2], *a.values()))
            continue
        wire = name_bytes_or_none(op[1])
        if wire is None:
            n_invalid += 1
            ctx.check(was_refused, "invalid-header-name-accepted", case, f"op {i}: name {op[1]!r} was not refused")
            continue
        n_valid += 1
        ctx.check(not was_refused, "valid-header-name-refused", case,
                  f"op {i}: name {op[1]!r} refused with {r['refused'].get(i)}")
        key = wire.lower()
        vals = [op[2]] if kind in ("set", "add") else list(op[2])
        injecting = injecting or any(has_lb(v) for v in vals)
        vals = [ows_strip(sanitise(to_bytes_value(v))) for v in vals]
        if kind == "add":
            exp.setdefault(key, []).extend(vals)
        else:
            exp[key] = vals
    if case["explicit_cl"]:
        exp[b"content-length"] = [b"%d" % len(body)]
    exp = {k: v for k, v in exp.items() if v}      # a name with no values is not set

    # ---- status line --------------------------------------------------------
    first = out.split(b"\r\n", 1)[0]
    exp_reason = None if reason is None else ows_strip(sanitise(reason))
    try:
        minor, got_code, got_reason, headers, rest = parse_head(out)
    except Malformed as e:
        ctx.violation("head-" + e.sig, case, e.detail)
    ctx.check(got_code == code, "status-code-differs", case, f"set {code}, emitted {got_code}")
    if exp_reason is not None:
        ctx.check(ows_strip(got_reason) == exp_reason, "reason-phrase-differs", case,
                  f"set {reason!r}, emitted {got_reason!r}")

    # ---- header lines ---------------------------------------------------------
    got = {}
    for name, value in headers:
        got.setdefault(name.lower(), []).append(value)
    got_cookies = got.pop(b"set-cookie", [])
    if len(got_cookies) != len(cookies):
        ctx.violation("set-cookie-count-differs", case, f"expected {len(cookies)} got {got_cookies!r}")
    for want, val in zip(cookies, got_cookies):
        have = parse_cookie_value(val)
        if have[0] not in want[0] or have[1:] != want[1:]:
            ctx.violation("cookie-attributes-differ", case, f"expected parts {want!r}, wire {val!r}")
    for key, vals in exp.items():
        if got.get(key, []) != vals:
            ctx.violation("header-values-differ", case, f"{key!r}: set {vals!r}, emitted {got.get(key)!r}")
    no_body = method == "HEAD" or code in (204, 304)
    for key, vals in got.items():
        if key in exp:
            continue
        # headers the framework may add on its own
        if key == b"transfer-encoding" and vals == [b"chunked"]:
            continue
        if key == b"content-type" and mode != "raw" and vals == [b"text/html"]:
            continue
        if key == b"content-length" and mode == "site-return" and vals == [b"%d" % len(body)]:
            continue
        ctx.violation("unexpected-header", case, f"{key!r}: {vals!r} was never set (all: {headers!r})")

    # ---- framing ----------------------------------------------------------------
    te = got.get(b"transfer-encoding")
    cl = got.get(b"content-length")
    if te is not None and cl is not None:
        ctx.violation("framing-both-te-and-cl", case, f"{headers!r}")
    if no_body:
        ctx.check(te is None, "framing-chunked-on-bodiless-response", case, f"{headers!r}")
        ctx.check(rest == b"", "body-on-bodiless-response", case,
                  f"{method} {code}: {len(rest)} bytes after the head: {rest[:80]!r}")
        if cl is not None and (case["explicit_cl"] or mode == "site-return"):
            ctx.check(cl == [b"%d" % len(body)], "content-length-differs", case, f"{cl!r} vs {len(body)}")
        framing = "none"
    elif te is not None:
        ctx.check(version == "1.1" and minor == 1, "framing-chunked-to-http10-client", case, f"{first!r}")
        try:
            got_body = decode_chunked_strict(rest)
        except Malformed as e:
            ctx.violation("framing-" + e.sig, case, e.detail + f" in {rest[:120]!r}")
        ctx.check(got_body == body, "body-differs-chunked", case, f"wrote {body[:80]!r}, decoded {got_body[:80]!r}")
        framing = "chunked"
    elif cl is not None:
        ctx.check(len(cl) == 1 and cl[0].isdigit() and int(cl[0]) == len(rest),
                  "framing-content-length-inconsistent", case, f"Content-Length {cl!r}, {len(rest)} body bytes on the wire")
        ctx.check(rest == body, "body-differs-content-length", case, f"wrote {body[:80]!r}, wire {rest[:80]!r}")
        framing = "content-length"
    else:
        ctx.check(r["disconnecting"], "framing-close-delimited-without-close", case,
                  "no Content-Length, not chunked, connection left open")
        ctx.check(rest == body, "body-differs-close-delimited", case, f"wrote {body[:80]!r}, wire {rest[:80]!r}")
        framing = "close-delimited"
    if version == "1.0" or case["conn_close"]:
        ctx.check(r["disconnecting"], "connection-not-closed", case, "HTTP/1.0 or Connection: close request left open")

    # ---- second opinion: h11 ------------------------------------------------------
    bad = (0, 11, 12)
    h11_ok = all(not any(c in bad for c in v) for _, v in headers) and not any(c in bad for c in got_reason)
    if h11_ok:
        h11_compare(ctx, case, out, r["disconnecting"], got_code, headers, b"" if no_body else body)
        ctx.count("h11 compared")
    else:
        ctx.count("h11 skipped (value outside h11 grammar)")

    # ---- bookkeeping ------------------------------------------------------------------
    if injecting:
        ctx.nontrivial(case)
        ctx.count("nontrivial: CR/LF in a value, cookie or reason")
        if len(ctx.samples) < 5 and len(case["ops"]) >= 2:
            ctx.sample(case)
    ctx.count(f"mode={mode}")
    ctx.count(f"framing={framing}")
    ctx.count(f"{method} HTTP/{version}")
    if code in (204, 304):
        ctx.count("204/304")
    if n_invalid:
        ctx.count("has refused invalid header name")
    if cookies:
        ctx.count("has cookie")
    if any(isinstance(op[1], str) or (op[0] in ("set", "add") and isinstance(op[2], str)) for op in case["ops"]):
        ctx.count("has str name/value")
    if reason is not None:
        ctx.count("explicit reason phrase")


def h11_compare(ctx, case, out, closed, code, headers, body):
    import h11
    conn = h11.Connection(our_role=h11.CLIENT, max_incomplete_event_size=1 << 22)
    hs = [("Host", "h")]
    if case["conn_close"]:
        hs.append(("Connection", "close"))
    # h11 only speaks HTTP/1.1 as a client; how it frames the *response* depends on the
    # request method and on the response's own version/headers, not on the request version.
    conn.send(h11.Request(method=case["method"], target="/r", headers=hs))
    conn.send(h11.EndOfMessage())
    conn.receive_data(out)
    if closed:
        conn.receive_data(b"")
    resp, data, ended = None, [], False
    try:
        while True:
            ev = conn.next_event()
            if ev is h11.NEED_DATA or ev is h11.PAUSED:
                break
            if isinstance(ev, h11.Response):
                ctx.check(resp is None, "h11-more-than-one-response", case, repr(ev))
                resp = ev
            elif isinstance(ev, h11.Data):
                data.append(bytes(ev.data))
            elif isinstance(ev, h11.EndOfMessage):
                ended = True
            elif isinstance(ev, h11.ConnectionClosed):
                break
            else:
                ctx.violation("h11-unexpected-event", case, repr(ev))
    except h11.RemoteProtocolError as e:
        ctx.violation("h11-rejects-response", case, f"{e!r} on {out[:200]!r}")
    ctx.check(resp is not None and ended, "h11-incomplete-response", case, f"resp={resp!r} ended={ended} on {out[:200]!r}")
    ctx.check(resp.status_code == code, "h11-status-differs", case, f"{resp.status_code} vs {code}")
    hh = [(bytes(n), bytes(v)) for n, v in resp.headers]
    mine = [(n.lower(), v) for n, v in headers]
    ctx.check(hh == mine, "h11-headers-differ", case, f"h11 {hh!r} vs structural {mine!r}")
    ctx.check(b"".join(data) == body, "h11-body-differs", case, f"h11 {b''.join(data)[:80]!r} vs {body[:80]!r}")
    td = conn.trailing_data[0]
    ctx.check(td == b"", "h11-trailing-data", case, repr(td[:80]))


# --------------------------------------------------------------------------
# generators

B_PIECES = [b"a", b"Zz", b"\r", b"\n", b"\r\n", b" ", b"\t", b"\x00", b"\xff", b"\xc3\xa9", b";", b":", b"=",
            b",", b"X-Inj: 1", b"\x0b", b"\x0c", b"\x7f", b"\x1c", b"\x85", b"\"", b"HTTP/1.1 200 OK", b"0"]
T_PIECES = ["a", "Zz", "\r", "\n", "\r\n", " ", "\t", "\x00", "\xe9", " ", "\x85", "\U0001F600", ";", ":",
            "=", "X-Inj: 1", "\x0b", "\x1e", "Ā", "￿"]
VALID_NAMES = ["X-A", "x-a", b"X-A", b"x-b", "X-B", "Etag", b"ETAG", "Content-Type", b"content-type", "Server",
               b"DATE", "Connection", "Www-Authenticate", "X_c!", b"a.b~c", "Cache-Control", b"Vary", "1", b"-"]
INVALID_NAMES = [b"", "", b"X A", b"X:A", b"X\r\nY", "X\nY: z", b"X\x00", "X\xe9", "XĀ", b"X\xff", b"(x)",
                 b"a,b", "a\tb", b"a;b", b" X", b"X ", "X\r", b"X-A\r\nX-Inj: 1", "X-A: v\r\nX-Inj", b"a/b", b"a@b",
                 b"[a]", b"a=b", b"\"a\"", b"a\x7f", "a\x0b"]


def _ok_name(n):
    w = name_bytes_or_none(n)
    return w is None or w.lower() not in FORBIDDEN_NAMES


def case_strategy():
    bvals = st.one_of(st.binary(max_size=16),
                      st.lists(st.sampled_from(B_PIECES), max_size=6).map(b"".join))
    tvals = st.one_of(st.text(max_size=10),
                      st.lists(st.sampled_from(T_PIECES), max_size=6).map("".join))
    vals = st.one_of(bvals, tvals)
    tok_alpha = "".join(chr(c) for c in sorted(TCHAR))
    rand_tok = st.text(alphabet=tok_alpha, min_size=1, max_size=8)
    names = st.one_of(
        st.sampled_from(VALID_NAMES), st.sampled_from(VALID_NAMES),
        rand_tok, rand_tok.map(lambda s: s.encode("ascii")),
        st.sampled_from(INVALID_NAMES),
        st.binary(max_size=6), st.text(max_size=5),
    ).filter(_ok_name)
    flags = st.sampled_from([
        {}, {}, dict(secure=True), dict(httpOnly=True), dict(secure=False, httpOnly=True, sameSite="lax"),
        dict(sameSite="Strict"), dict(sameSite=b"LAX", secure=True), dict(sameSite=b"strict"), dict(sameSite=""),
        dict(sameSite="none"), dict(sameSite="lax\r\nX-Inj: 1"), dict(sameSite=b"strict;x", httpOnly=True)])
    cookie_attrs = st.builds(lambda d, f: dict(d, **f),
                             st.dictionaries(st.sampled_from(COOKIE_ATTRS), vals, max_size=3), flags)
    ops = st.one_of(
        st.tuples(st.just("set"), names, vals),
        st.tuples(st.just("set"), names, vals),
        st.tuples(st.just("add"), names, vals),
        st.tuples(st.just("setraw"), names, st.lists(vals, max_size=3)),
        st.tuples(st.just("cookie"), vals, vals, cookie_attrs),
    )
    reason = st.one_of(st.none(), st.none(),
                       st.sampled_from([b"OK", b"", b"Not Found", b"I'm a teapot", b" x ", b"\xe9t\xe9", b"a\x00b", b"\t"]),
                       st.binary(max_size=12).filter(lambda b: b"\r" not in b and b"\n" not in b),
                       st.binary(max_size=12).filter(lambda b: b"\r" not in b and b"\n" not in b),
                       st.lists(st.sampled_from(B_PIECES), max_size=5).map(b"".join))
    code = st.one_of(st.sampled_from([200, 200, 204, 304, 404, 500, 301, 599, 205, 299]), st.integers(200, 599))
    writes = st.lists(st.one_of(st.just(b""), st.binary(max_size=12),
                                st.sampled_from([b"0\r\n\r\n", b"\r\n", b"x" * 300, b"HTTP/1.1 200 OK\r\n\r\n"])),
                      max_size=5)

    def fix(c):
        if c["mode"] == "site-return":
            c["explicit_cl"] = False
        if c["code"] == 204:
            c["explicit_cl"] = False      # a 204 must not carry Content-Length; the application's job
        return c

    return st.fixed_dictionaries(dict(
        mode=st.sampled_from(["raw", "site-async", "site-return"]),
        method=st.sampled_from(["GET", "GET", "HEAD"]),
        version=st.sampled_from(["1.1", "1.1", "1.0"]),
        conn_close=st.sampled_from([False, False, True]),
        code=code, reason=reason, ops=st.lists(ops, max_size=6),
        explicit_cl=st.sampled_from([False, False, True]),
        writes=writes)).map(fix)


def framing_grid():
    fixed_ops = [("set", "X-A", b"a\r\nX-Inj: 1"), ("add", b"x-a", "b\nc"),
                 ("cookie", "k", b"v;w\r\n", dict(path="/p\r\nq", secure=True, sameSite="Lax"))]
    for mode, method, version, cc, code, ecl, writes, ops in itertools.product(
            ["raw", "site-async", "site-return"], ["GET", "HEAD"], ["1.1", "1.0"], [False, True],
            [200, 204, 304, 404], [False, True],
            [[], [b""], [b"abc"], [b"ab", b"", b"c"], [b"", b"0\r\n\r\n", b"x" * 70000]],
            [[], fixed_ops]):
        if ecl and (mode == "site-return" or code == 204):
            continue
        yield dict(mode=mode, method=method, version=version, conn_close=cc, code=code, reason=None,
                   ops=list(ops), explicit_cl=ecl, writes=list(writes))


PAYLOADS = [b"\r\nX-Inj: 1", b"\nX-Inj: 1", b"\rX-Inj: 1", b"a\r\n\r\nHTTP/1.1 200 OK\r\n\r\n", b"\r\n", b"\n", b"\r",
            b"a\r\n b", b"a\n\rb", b"\r\r\n\n", b"v\r\nSet-Cookie: z=1", b"a;b\r\nc"]


def injection_grid():
    base = dict(method="GET", version="1.1", conn_close=False, code=200, reason=None,
                explicit_cl=False, writes=[b"body"])
    for mode in ("raw", "site-async"):
        for pb in PAYLOADS:
            for p in (pb, pb.decode("latin-1")):
                chans = [[("set", "X-A", p)], [("add", b"X-A", p)], [("setraw", "X-A", [b"ok", p])],
                         [("set", "X-A", b"1"), ("add", "x-a", p)],
                         [("cookie", p, "v", {})], [("cookie", "k", p, {})]]
                for a in COOKIE_ATTRS:
                    chans.append([("cookie", "k", "v", {a: p})])
                chans.append([("cookie", "k", "v", dict(sameSite=p))])
                for ops in chans:
                    yield dict(base, mode=mode, ops=ops)
            yield dict(base, mode=mode, ops=[], reason=b"OK" + pb)
            yield dict(base, mode=mode, ops=[], reason=pb + b"x", code=404)


def _hyp_shard(sub, i):
    hyp_run(sub, case_strategy(), run_case, 8000, label=f"shard{i}")


def run(ctx):
    enumerate_run(ctx, framing_grid(), run_case)
    if ctx.has_violation():
        return
    enumerate_run(ctx, injection_grid(), run_case)
    if ctx.has_violation():
        return
    ctx.extra["grids"] = "framing grid (mode x method x version x close x code x explicit CL x writes x ops) and injection grid (payload x channel) enumerated completely"
    if ctx.thorough:
        ctx.shards(_hyp_shard, list(range(16)))
    else:
        hyp_run(ctx, case_strategy(), run_case, 3000, label="programs")
