"""C21 — pipelined HTTP/1.1 requests are handed to the application one at a time,
responses leave in request order, every notifyFinish Deferred fires exactly once.

A case is a pipelined request stream (1..5 requests, bodies by Content-Length or
chunked, HTTP/1.0 / Connection: close anywhere), its segmentation, the behaviour of
the application at hand-over (notifyFinish calls, synchronous writes, synchronous
finish, "never finishes") and a history of events: deliver the next segment, write /
finish / notifyFinish on the one live request, the transport pausing / resuming the
channel, connection loss.  The interpreter runs the history against a real
HTTPChannel and a small reference model.
"""
import itertools
import re

from hypothesis import strategies as st

from lib.core import hyp_run, enumerate_run
from lib import harness

META = dict(
    property="C21",
    level="exploration",
    technique="op-list interpreter over a real HTTPChannel with an exact hand-over model (request k is handed over exactly when it is completely delivered and k-1 has finished on a persistent connection), strict parsing of the response stream, per-Deferred firing log; complete enumeration of all event histories up to a depth over fixed 3-request streams + Hypothesis random streams/histories",
    level_text="All event histories of length <= 7 (quick) / 8 (thorough) over 7 event kinds on two fixed pipelined 3-request streams (and, two events shallower, on a third one whose pipelined 20 kB body crosses the eager-read limit and a fourth one served through twisted.web.server with framework-emulated HEAD responses) are enumerated completely; random streams (1..5 requests, GET/HEAD/POST, application either a plain http.Request subclass or a twisted.web.server resource -- including GET-only resources whose HEAD requests the framework answers itself by emulating GET, returning bytes or NOT_DONE_YET --, bodies up to 20 kB to cross the eager-read limit, every segmentation mode) with random histories up to 30 events are sampled. Connection loss is a history event, so it is injected at every event boundary of the enumerated scope. A fair continuation (resume, deliver the rest, finish everything that may finish, then lose the connection) checks that nothing is left unfired or stuck.",
    level_note="Trusted: the model in this file, the response-stream parser, a lenient StringTransport as the wire (the harness honours the transport's read-pause and stops delivering after loseConnection, as a real transport does). notifyFinish() is only called on a live request (handed over, unfinished, connection up): a Deferred requested after the response finished or after the loss is outside the statement. Liveness is checked only as quiescence under the harness's continuation.",
    design_ref="§5 C21",
    rule="case = (requests, cuts, ops). non-trivial = stream of >= 3 requests, at least one request finished by a later event (not inside its own hand-over) and the connection lost while a handed-over request was unfinished or a notifyFinish Deferred was pending; distinct by the executed event trace.",
)

_STATUS = re.compile(rb"\AHTTP/1\.([01]) ([0-9]{3}) ([^\r\n]*)\Z", re.S)


# --------------------------------------------------------------------------
# request stream

def chunk_encode(body, size):
    out = []
    for i in range(0, len(body), size):
        piece = body[i:i + size]
        out.append(b"%x\r\n%s\r\n" % (len(piece), piece))
    out.append(b"0\r\n\r\n")
    return b"".join(out)


def req_body(k, r):
    n = r.get("body", 0)
    if r["method"] != "POST":
        return b""
    unit = b"<req%d-body>" % k
    return (unit * (n // len(unit) + 1))[:n]


def build_stream(requests):
    """-> (bytes, [end offset of request k])"""
    parts, ends, pos = [], [], 0
    for k, r in enumerate(requests):
        s = b"\r\n" if r.get("lead_crlf") else b""
        s += b"%s /%d HTTP/%s\r\nHost: h\r\n" % (r["method"].encode(), k, r["version"].encode())
        if r.get("close"):
            s += b"Connection: close\r\n"
        if r["method"] == "POST":
            body = req_body(k, r)
            if r.get("chunked"):
                s += b"Transfer-Encoding: chunked\r\n\r\n" + chunk_encode(body, max(1, r.get("chunk", 7)))
            else:
                s += b"Content-Length: %d\r\n\r\n%s" % (len(body), body)
        else:
            s += b"\r\n"
        parts.append(s)
        pos += len(s)
        ends.append(pos)
    return b"".join(parts), ends


def persistent(r):
    return r["version"] == "1.1" and not r.get("close")


# --------------------------------------------------------------------------
# response stream parser

class Malformed(Exception):
    def __init__(self, sig, detail):
        super().__init__(sig + ": " + detail)
        self.sig, self.detail = sig, detail


def parse_response_stream(out, methods):
    """-> list of dict(code, complete, body, framing).  methods[i] = method of the request
    that response i answers.  A truncated last response is returned with complete=False."""
    res, pos, i = [], 0, 0
    while pos < len(out):
        end = out.find(b"\r\n\r\n", pos)
        if end < 0:
            raise Malformed("partial-head-on-wire", repr(out[pos:pos + 120]))
        if i >= len(methods):
            raise Malformed("more-responses-than-requests", repr(out[pos:pos + 120]))
        lines = out[pos:end].split(b"\r\n")
        m = _STATUS.match(lines[0])
        if not m:
            raise Malformed("bad-status-line", repr(lines[0][:120]))
        hdr = {}
        for ln in lines[1:]:
            name, colon, value = ln.partition(b":")
            if not colon:
                raise Malformed("bad-header-line", repr(ln[:120]))
            hdr.setdefault(name.lower(), []).append(value.strip(b" \t"))
        pos = end + 4
        r = dict(code=int(m.group(2)), minor=int(m.group(1)), headers=hdr, body=b"", complete=False)
        if methods[i] == "HEAD":
            r.update(framing="none", complete=None)          # completeness not visible on the wire
        elif hdr.get(b"transfer-encoding") == [b"chunked"]:
            r["framing"] = "chunked"
            body = []
            while True:
                eol = out.find(b"\r\n", pos)
                if eol < 0:
                    if pos != len(out):
                        raise Malformed("partial-chunk-size-line", repr(out[pos:pos + 40]))
                    break
                if not re.match(rb"\A[0-9a-fA-F]+\Z", out[pos:eol]):
                    raise Malformed("bad-chunk-size-line", repr(out[pos:eol][:40]))
                n = int(out[pos:eol], 16)
                if n == 0:
                    if out[eol + 2:eol + 4] != b"\r\n":
                        raise Malformed("bad-last-chunk", repr(out[eol:eol + 20]))
                    pos = eol + 4
                    r["complete"] = True
                    break
                if out[eol + 2 + n:eol + 4 + n] != b"\r\n":
                    raise Malformed("chunk-not-followed-by-crlf", repr(out[eol:eol + 40]))
                body.append(out[eol + 2:eol + 2 + n])
                pos = eol + 4 + n
            r["body"] = b"".join(body)
        elif b"content-length" in hdr:
            raise Malformed("unexpected-content-length", repr(hdr))
        else:
            r.update(framing="close", body=out[pos:], complete=None)
            pos = len(out)
        res.append(r)
        i += 1
        if r["complete"] is False and pos < len(out):
            raise Malformed("bytes-after-truncated-response", repr(out[pos:pos + 80]))
    return res


# --------------------------------------------------------------------------
# interpreter

class _World:
    pass


def run_case(ctx, case):
    from twisted.internet import task
    from twisted.internet.testing import StringTransport
    from twisted.internet.error import ConnectionLost
    from twisted.python.failure import Failure
    from twisted.web import http

    requests = case["requests"]
    N = len(requests)
    stream, ends = build_stream(requests)
    segments = [s for s in harness.apply_cuts(stream, case["cuts"]) if s]

    class Transport(StringTransport):
        """StringTransport that behaves like a real one after loseConnection(): the (always
        empty) write buffer is flushed, the socket closes, later writes go nowhere."""
        dropped = 0

        def unregisterProducer(self):            # a real transport does not mind
            self.producer = None
            self.streaming = None

        def write(self, data):
            if self.disconnecting:
                self.dropped += len(data)
                return
            StringTransport.write(self, data)

        def writeSequence(self, seq):
            self.write(b"".join(seq))

    w = _World()
    w.handed = []          # Request objects in hand-over order
    w.finished = []        # model flag per handed-over request (set BEFORE finish() is called)
    w.writes = []          # bytes written per handed-over request
    w.recs = []            # notifyFinish records: dict(k, results, pre_finish)
    w.lost = False
    w.delivered = 0
    w.trace = []
    w.late_finish = False
    w.fake_heads = 0
    clock = task.Clock()

    def V(sig, detail):
        ctx.violation(sig, case, f"{detail} | trace={w.trace!r}")

    def notify(k):
        d = w.handed[k].notifyFinish()
        rec = dict(k=k, results=[])
        d.addBoth(lambda res: rec["results"].append(res))
        w.recs.append(rec)

    def do_write(k, data):
        w.writes[k].append(data)
        w.handed[k].write(data)

    def do_finish(k):
        w.finished[k] = True                     # before: the next request is dispatched inside finish()
        pending = [r for r in w.recs if r["k"] == k]
        w.handed[k].finish()
        for r in pending:
            if len(r["results"]) != 1 or r["results"][0] is not None:
                V("notifyfinish-not-fired-with-none-by-finish", f"request {k}: {r['results']!r}")

    def expected_handed():
        k = 0
        while k < N:
            if ends[k] > w.delivered:
                break
            if k > 0 and not (w.finished[k - 1] if k - 1 < len(w.finished) else False):
                break
            if k > 0 and not persistent(requests[k - 1]):
                break
            k += 1
        return k

    site_mode = case.get("app") == "site"

    def via_fake_head(k):
        """Request k is a HEAD for a GET-only resource under server.Site: twisted.web.server answers it
        itself by rendering GET and finishing the response inside the hand-over."""
        return site_mode and requests[k]["method"] == "HEAD" and bool(requests[k].get("head"))

    def handover(self):
        """The application is handed a request (http.Request.process / IResource.render)."""
        k = len(w.handed)
        if w.lost:
            V("handed-over-after-connection-lost", f"request {k}")
        if k >= N:
            V("more-requests-than-sent", f"hand-over #{k}")
        unfinished = [j for j, f in enumerate(w.finished) if not f]
        if unfinished:
            V("handed-over-while-previous-unfinished", f"request {k} handed over while {unfinished} unfinished")
        if k > 0 and not persistent(requests[k - 1]):
            V("handed-over-after-non-persistent-request", f"request {k}")
        r = requests[k]
        if self.method != r["method"].encode() or self.uri != b"/%d" % k:
            V("handed-over-out-of-order", f"hand-over #{k} is {self.method!r} {self.uri!r}")
        got = self.content.read()
        if got != req_body(k, r):
            V("request-body-differs", f"request {k}: {len(got)} bytes {got[:60]!r}, sent {len(req_body(k, r))}")
        if ends[k] > w.delivered_upto:
            V("handed-over-before-completely-delivered", f"request {k}")
        w.handed.append(self)
        w.finished.append(False)
        w.writes.append([])
        w.trace.append(("handover", k))
        for _ in range(r.get("notify", 0)):
            notify(k)
        if via_fake_head(k):
            return                            # the framework writes and finishes this one
        for j in range(r.get("writes", 0)):
            do_write(k, b"<%d.s%d>" % (k, j))
        if r.get("sync_finish") and not r.get("never"):
            do_finish(k)

    w.pending_exc = None
    if not site_mode:
        class Req(http.Request):
            def process(self):
                handover(self)

        factory = http.HTTPFactory(reactor=clock)
        proto = factory.buildProtocol(None)
        proto.requestFactory = Req
    else:
        from zope.interface import implementer
        from twisted.web import server
        from twisted.web.resource import IResource
        from twisted.web.error import UnsupportedMethod

        @implementer(IResource)
        class Res:
            """The application as a twisted.web resource.  For requests marked head=... it allows only
            GET, so server.Request.render emulates HEAD: it renders GET (which returns the body, or
            NOT_DONE_YET) and writes + finishes the HEAD response itself, inside the hand-over."""
            isLeaf = True

            def getChildWithDefault(self, name, request):
                return self

            def putChild(self, path, child):
                pass

            def render(self, request):
                # server.Request.process() swallows every exception: keep ours for the interpreter
                try:
                    if getattr(request, "_inFakeHead", False):
                        k = len(w.handed) - 1
                        w.finished[k] = True      # before: finish() follows as soon as we return
                        w.trace.append(("framework-finish", k))
                        w.fake_heads += 1
                        return b"<%d.get-body>" % k if requests[k]["head"] == "bytes" else server.NOT_DONE_YET
                    handover(request)
                    fake = via_fake_head(len(w.handed) - 1)
                except BaseException as e:
                    w.pending_exc = w.pending_exc or e
                    return server.NOT_DONE_YET
                if fake:
                    raise UnsupportedMethod([b"GET"])
                return server.NOT_DONE_YET

        factory = server.Site(Res(), reactor=clock)
        proto = factory.buildProtocol(None)
    factory._logDateTime = "01/Jan/2026:00:00:00 +0000"
    tr = Transport(lenient=True)
    proto.makeConnection(tr)
    channel = tr.producer
    w.delivered_upto = 0
    send_paused = False
    seg_i = 0
    reason = Failure(ConnectionLost("harness"))

    def current():
        live = [j for j, f in enumerate(w.finished) if not f]
        return live[0] if live else None

    def can_deliver():
        return (seg_i < len(segments) and not w.lost and not tr.disconnecting
                and tr.producerState == "producing")

    def deliver():
        nonlocal seg_i
        seg = segments[seg_i]
        seg_i += 1
        w.delivered_upto = w.delivered + len(seg)    # bytes the channel may legitimately have seen
        proto.dataReceived(seg)
        w.delivered = w.delivered_upto

    def lose():
        w.lost = True
        live = [j for j, f in enumerate(w.finished) if not f]
        pend = [r for r in w.recs if not r["results"]]
        if N >= 3 and w.late_finish and (live or pend):
            w.nt = True
        proto.connectionLost(reason)
        for r in w.recs:
            if r["k"] in live:
                ok = (len(r["results"]) == 1 and isinstance(r["results"][0], Failure)
                      and r["results"][0].value is reason.value)
                if not ok:
                    V("notifyfinish-not-failed-by-connection-loss", f"request {r['k']}: {r['results']!r}")

    def invariants(after):
        if w.pending_exc is not None:
            raise w.pending_exc
        for r in w.recs:
            k = r["k"]
            if len(r["results"]) > 1:
                V("notifyfinish-fired-twice", f"request {k}: {r['results']!r} after {after}")
            if r["results"] and not w.finished[k] and not w.lost:
                V("notifyfinish-fired-before-finish", f"request {k}: {r['results']!r} after {after}")
            if r["results"] and w.finished[k] and r["results"][0] is not None:
                V("notifyfinish-failed-although-finished", f"request {k}: {r['results']!r} after {after}")
        if not w.lost:
            # the server closes the connection exactly when a non-persistent request has been answered
            should_close = any(w.finished[k] and not persistent(requests[k]) for k in range(len(w.handed)))
            if tr.disconnecting and not should_close:
                live = current()
                if live is not None:
                    V("connection-closed-while-request-being-answered",
                      f"after {after}: loseConnection() with request {live} handed over and unanswered "
                      f"(persistent flags {[persistent(r) for r in requests]}, finished {w.finished})")
                V("connection-closed-on-persistent-connection", f"after {after}: finished {w.finished}")
            if should_close and not tr.disconnecting:
                V("connection-not-closed-after-non-persistent-response", f"after {after}")
            exp = expected_handed()
            if len(w.handed) != exp:
                sig = "next-request-not-handed-over" if len(w.handed) < exp else "request-handed-over-early"
                V(sig, f"after {after}: {len(w.handed)} handed over, model says {exp} "
                       f"(delivered {w.delivered}/{len(stream)}, ends {ends}, finished {w.finished})")

    def applicable(kind, cur):
        if kind == "deliver":
            return can_deliver()
        if kind in ("write", "notify"):
            return cur is not None
        if kind == "finish":
            return cur is not None and not requests[cur].get("never")
        if kind == "pause":
            return not send_paused and tr.producer is not None
        if kind == "resume":
            return send_paused and tr.producer is not None
        return True

    def abandon():
        # strict (enumeration) mode: this history equals a shorter one that is enumerated too
        ctx.count("enumerated histories equal to a shorter one (pruned)")
        _LAST["abandoned"] = True
        if not w.lost:
            proto.connectionLost(reason)
        for dc in clock.getDelayedCalls():
            dc.cancel()

    w.nt = False
    strict = case.get("strict")
    _LAST["abandoned"] = False
    for op in case["ops"]:
        kind = op[0]
        cur = current()
        if w.lost:
            if strict:
                return abandon()
            break
        if strict and not applicable(kind, cur):
            return abandon()
        if kind == "deliver":
            if not can_deliver():
                continue
            deliver()
        elif kind == "write":
            if cur is None:
                continue
            do_write(cur, b"<%d.w%d>" % (cur, len(w.writes[cur])))
        elif kind == "finish":
            if cur is None or requests[cur].get("never"):
                continue
            w.late_finish = True
            do_finish(cur)
        elif kind == "notify":
            if cur is None:
                continue
            notify(cur)
        elif kind == "pause":
            if send_paused or tr.producer is None:
                continue
            send_paused = True
            channel.pauseProducing()
        elif kind == "resume":
            if not send_paused or tr.producer is None:
                continue
            send_paused = False
            channel.resumeProducing()
        elif kind == "lose":
            lose()
        else:
            raise AssertionError(kind)
        w.trace.append((kind, cur) if kind in ("write", "finish", "notify") else (kind,))
        invariants(w.trace[-1])

    # ---- fair continuation to quiescence ---------------------------------------
    if not w.lost:
        if send_paused and tr.producer is not None:
            send_paused = False
            channel.resumeProducing()
            w.trace.append(("c-resume",))
        while True:
            cur = current()
            if can_deliver():
                deliver()
                w.trace.append(("c-deliver",))
            elif cur is not None and not requests[cur].get("never"):
                w.late_finish = True
                do_finish(cur)
                w.trace.append(("c-finish", cur))
            else:
                break
            invariants(w.trace[-1])
        if (current() is None and seg_i < len(segments) and not tr.disconnecting
                and tr.producerState != "producing"):
            V("reading-left-paused-while-idle", f"segments left {len(segments) - seg_i}, state {tr.producerState}")
        if current() is None and not tr.disconnecting:
            # everything answered on a persistent connection: every request of the stream was handed over
            if len(w.handed) != N:
                V("next-request-not-handed-over", f"quiescent with {len(w.handed)}/{N} handed over")
        wire_check(ctx, case, w, tr.value(), requests, V)
        lose()
        w.trace.append(("c-lose",))
        invariants(w.trace[-1])
    else:
        wire_check(ctx, case, w, tr.value(), requests, V)
    if w.pending_exc is not None:
        raise w.pending_exc
    for r in w.recs:
        if len(r["results"]) != 1:
            V("notifyfinish-never-fired", f"request {r['k']}: {r['results']!r}")
    for dc in clock.getDelayedCalls():
        dc.cancel()

    # ---- bookkeeping ---------------------------------------------------------------
    key = tuple(w.trace)
    if w.nt:
        ctx.nontrivial((dumps_requests(requests), key))
        ctx.count("nontrivial (>=3 requests, late finish, loss with live request/pending Deferred)")
        if len(ctx.samples) < 5 and len(w.recs) >= 2:
            ctx.sample(case)
    ctx.count(f"requests={N}")
    ctx.count(f"handed over={len(w.handed)}")
    ctx.count("notifyFinish Deferreds", len(w.recs))
    ctx.count("Deferreds fired with failure", sum(1 for r in w.recs if r["results"] and r["results"][0] is not None))
    if any(t[0] == "lose" for t in w.trace):
        ctx.count("loss injected by history")
    if any(t[0] == "pause" for t in w.trace):
        ctx.count("transport paused channel")
    if any(t[0] == "handover" and i > 0 and w.trace[i - 1][0] in ("finish", "c-finish", "handover")
           for i, t in enumerate(w.trace)):
        ctx.count("hand-over re-entrant inside finish()")
    if any(r["method"] == "POST" and r.get("body", 0) > 16384 for r in requests):
        ctx.count("body over eager-read limit")
    if any(not persistent(r) for r in requests[:-1]):
        ctx.count("non-persistent request before the end")
    # the class "a non-persistent request is taken from the pipeline buffer when its keep-alive
    # predecessor finishes, and is itself answered by a later event"
    for i, t in enumerate(w.trace):
        if (t[0] == "handover" and t[1] > 0 and not persistent(requests[t[1]])
                and any(u[0] in ("finish", "c-finish") and u[1] == t[1] for u in w.trace[i + 1:])):
            ctx.count("non-persistent request after a keep-alive one, answered by a later event")
            if any(u[0] in ("finish", "c-finish") and u[1] == t[1] - 1 for u in w.trace[i + 1:i + 2]):
                ctx.count("... and dispatched from the buffer inside the predecessor's finish()")
            break
    if tr.dropped:
        ctx.count("bytes written after loseConnection (dropped)")
    ctx.count("app=" + ("site (twisted.web.server.Request)" if site_mode else "raw (http.Request)"))
    if w.fake_heads:
        ctx.count("HEAD answered by server.Request's GET emulation inside the hand-over")
        if any(t[0] == "framework-finish" and requests[t[1]]["head"] == "later" for t in w.trace):
            ctx.count("... with the emulated GET returning NOT_DONE_YET")
        if any(t[0] == "framework-finish" and t[1] + 1 < len(w.handed) for t in w.trace):
            ctx.count("... followed by another pipelined response on the same connection")


def dumps_requests(requests):
    return tuple(tuple(sorted(r.items())) for r in requests)


def wire_check(ctx, case, w, out, requests, V):
    started = [k for k in range(len(w.handed)) if w.writes[k] or w.finished[k]]
    # a request that wrote nothing and has not finished has put nothing on the wire
    try:
        res = parse_response_stream(out, [requests[k]["method"] for k in started])
    except Malformed as e:
        V("wire-" + e.sig, e.detail)
    if len(res) != len(started):
        V("wire-response-count", f"{len(res)} responses on the wire, {len(started)} requests answered/started ({out[:200]!r})")
    if started != list(range(len(started))):
        V("harness-started-gap", f"{started}")          # cannot happen if one-at-a-time holds
    for r, k in zip(res, started):
        want = b"".join(w.writes[k])
        if requests[k]["method"] == "HEAD":
            want = b""
        if r["body"] != want:
            V("wire-body-differs", f"response {k}: wire {r['body'][:80]!r}, written {want[:80]!r}")
        if r["complete"] is not None and r["complete"] != w.finished[k]:
            V("wire-completeness-differs", f"response {k}: complete={r['complete']} finished={w.finished[k]}")
        if r["framing"] == "chunked" and requests[k]["version"] != "1.1":
            V("wire-chunked-to-http10", f"response {k}")


# --------------------------------------------------------------------------
# generators

OPS = [("deliver",), ("finish",), ("notify",), ("write",), ("pause",), ("resume",), ("lose",)]

FIXED_STREAMS = [
    # async GET with a Deferred, POST that answers synchronously, closing GET
    dict(requests=[dict(method="GET", version="1.1", notify=1),
                   dict(method="POST", version="1.1", body=9, notify=1, writes=1, sync_finish=True),
                   dict(method="GET", version="1.1", close=True, notify=1)],
         cuts="req-boundaries"),
    # everything asynchronous, chunked POST in the middle, cut inside requests
    dict(requests=[dict(method="GET", version="1.1"),
                   dict(method="POST", version="1.1", body=5, chunked=True, chunk=3, notify=2),
                   dict(method="HEAD", version="1.1", notify=1, writes=1)],
         cuts="mid"),
    # a pipelined body larger than the eager-read limit arrives while request 0 is being answered
    dict(requests=[dict(method="GET", version="1.1", notify=1),
                   dict(method="POST", version="1.1", body=20000, notify=1),
                   dict(method="GET", version="1.1", sync_finish=True, writes=1)],
         cuts="big", shallower=2),
    # twisted.web.server application; HEAD requests for a GET-only resource are answered by the
    # framework's HEAD emulation (GET returning NOT_DONE_YET / returning bytes) inside the hand-over
    dict(requests=[dict(method="HEAD", version="1.1", notify=1, head="later"),
                   dict(method="GET", version="1.1", notify=1, writes=1),
                   dict(method="HEAD", version="1.1", notify=1, head="bytes")],
         cuts="req-boundaries", app="site", shallower=2),
]


def fixed_cuts(spec, requests):
    stream, ends = build_stream(requests)
    if spec == "req-boundaries":
        return [e for e in ends[:-1]]
    if spec == "big":
        return [ends[0], ends[0] + 17000, ends[1] + 5]
    return [ends[0] // 2, ends[0] + 10, ends[1] - 3]


_LAST = {"abandoned": False}       # side channel run_case -> DFS generator (same process, sequential)


def enum_cases(depth, stream_i, prefix):
    """DFS over event histories: a history is extended only if every event of it applied
    (an inapplicable event leaves the state unchanged, so that history equals a shorter one)."""
    fs = FIXED_STREAMS[stream_i]
    cuts = fixed_cuts(fs["cuts"], fs["requests"])

    def rec(ops):
        yield dict(requests=fs["requests"], cuts=cuts, ops=list(ops), strict=True, app=fs.get("app", "raw"))
        if _LAST["abandoned"] or len(ops) >= depth or ops[-1] == ("lose",):
            return
        for o in OPS:
            yield from rec(ops + [o])
    yield from rec(list(prefix))


def _enum_shard(sub, arg):
    depth, stream_i, prefix = arg
    enumerate_run(sub, enum_cases(depth, stream_i, prefix), run_case)


def case_strategy():
    req = st.builds(
        lambda method, version, close, body, chunked, chunk, notify, writes, sync_finish, never, lead, head: dict(
            method=method, version=version, close=close, body=body if method == "POST" else 0,
            chunked=chunked and method == "POST" and version == "1.1", chunk=chunk, notify=notify, writes=writes,
            sync_finish=sync_finish, never=never, lead_crlf=lead, head=head if method == "HEAD" else None),
        st.sampled_from(["GET", "GET", "POST", "POST", "HEAD", "HEAD"]),
        st.sampled_from(["1.1"] * 9 + ["1.0"]),
        st.sampled_from([False] * 9 + [True]),
        st.one_of(st.integers(0, 40), st.sampled_from([0, 1, 16384, 20000])),
        st.booleans(), st.sampled_from([1, 3, 7, 5000]),
        st.sampled_from([0, 0, 1, 1, 2]), st.sampled_from([0, 0, 1, 2]),
        st.sampled_from([False, False, True]), st.sampled_from([False] * 7 + [True]),
        st.sampled_from([False] * 5 + [True]),
        st.sampled_from([None, "later", "bytes"]))
    ops = st.lists(st.sampled_from(
        [("deliver",)] * 5 + [("finish",)] * 4 + [("notify",)] * 2 + [("write",)] * 2
        + [("pause",), ("resume",), ("resume",), ("lose",)]), max_size=30)
    return st.fixed_dictionaries(dict(
        requests=st.lists(req, min_size=1, max_size=5),
        cuts=st.one_of(st.just("whole"), st.just("bytewise"),
                       st.lists(st.integers(1, 400), max_size=8),
                       st.lists(st.integers(1, 60000), max_size=6)),
        app=st.sampled_from(["raw", "raw", "site"]),
        ops=ops)).filter(lambda c: not (c["cuts"] == "bytewise" and any(r["body"] > 2000 for r in c["requests"])))


def _hyp_shard(sub, i):
    hyp_run(sub, case_strategy(), run_case, 8000, label=f"shard{i}")


def run(ctx):
    depth = ctx.pick(7, 8)
    args = [(depth - fs.get("shallower", 0), s, [a, b]) for s, fs in enumerate(FIXED_STREAMS) for a in OPS for b in OPS]
    for si, fs in enumerate(FIXED_STREAMS):       # the histories shorter than the shard prefixes
        cuts = fixed_cuts(fs["cuts"], fs["requests"])
        enumerate_run(ctx, [dict(requests=fs["requests"], cuts=cuts, ops=list(o), strict=True, app=fs.get("app", "raw"))
                            for o in [[]] + [[a] for a in OPS]], run_case)
    if ctx.thorough:
        ctx.shards(_enum_shard, args)
    else:                                          # ~20 000 cheap cases: forking costs more than it saves
        for a in args:
            _enum_shard(ctx, a)
            if ctx.has_violation():
                return
    ctx.extra["enumerated_scope"] = f"all event histories of length <= {depth} over {len(OPS)} event kinds on {len(FIXED_STREAMS)} fixed 3-request streams (the eager-read-limit stream 2 events shallower; histories containing an inapplicable event are pruned: they equal a shorter enumerated history)"
    if ctx.has_violation():
        return
    if ctx.thorough:
        ctx.shards(_hyp_shard, list(range(16)))
    else:
        hyp_run(ctx, case_strategy(), run_case, 2500, label="histories")
