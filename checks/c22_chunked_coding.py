"""C22 — chunked transfer coding: round trip under every segmentation, completion once
with exactly the extra bytes, data loss on truncation, rejection of malformed input.

A case is a structured chunked message (chunk data, hex case / leading zeros of each
size, chunk extensions, trailer fields, extra bytes after the end), a segmentation,
optionally a truncation point, optionally ONE structural mutation from the three
classes the statement names (non-hexadecimal size line, chunk data not followed by
CRLF, disallowed byte in an extension).  The encoder in this file is written from
RFC 9112 section 7.1; twisted's toChunk is used as the encoder for chunks that ask
for it and must agree with it.
"""
import itertools
import re

from hypothesis import strategies as st

from lib.core import hyp_run, enumerate_run
from lib import harness

META = dict(
    property="C22",
    level="exploration",
    technique="round trip through an independent RFC 9112 chunked encoder (and toChunk) into _ChunkedTransferDecoder under complete single/double-cut segmentation of short messages, every truncation point, every single structural mutation of the three rejection classes; arbitrary byte edits judged by an independent reference decoder after every delivery; Hypothesis for large/random messages; atheris (thorough) on raw bytes with the same reference decoder",
    level_text="Seven fixed short messages (<= 250 bytes) are run under every single cut, every pair of cuts (<= 64 bytes), byte-wise delivery, every truncation point, and every position x byte of the three mutation classes; random messages (up to 8 chunks of 1..5000 bytes, sizes with either hex case and leading zeros, extensions over the whole allowed byte set, trailers, size lines up to 1000 bytes, extra bytes) with random cuts / truncation / mutation are sampled. Raw mode: every single-byte replacement/insertion (28 byte values) and deletion at every offset of two (quick) / all seven (thorough) small messages, random multi-byte edits and token soups, each delivered whole, byte-wise and cut at the edit; after every delivery the decoder must agree with a reference decoder on the bytes delivered so far (incomplete / complete with these extra bytes / malformed). Thorough adds 8 x 50 000 coverage-guided atheris executions. Exploration: complete only for the listed small scopes.",
    level_note="Trusted: the encoder/structure map in this file. 'Allowed' extension bytes = HTAB, SP, 0x21-0x7E, 0x80-0xFF (RFC 9112 chunk-ext over token / quoted-string); backslash is never generated (RFC allows it only as quoted-pair, twisted's documented set excludes it: either behaviour accepted). 'Disallowed' = the other control bytes and DEL. Size lines stay below the documented 1024-byte limit and trailers below 64 KiB. After the finish callback the harness stops feeding (as HTTPChannel does); the extra bytes expected are those that arrived in the same delivery.",
    design_ref="§5 C22",
    rule="case = (chunks, last-chunk form, trailers, extra, cuts, trunc, mutation). non-trivial = >= 2 chunks, an extension or a trailer, and a cut strictly inside a chunk-size line; distinct by the whole case.",
)

HEX = b"0123456789abcdefABCDEF"
EXT_ALLOWED = bytes([9, 32] + [c for c in range(0x21, 0x7F) if c != 0x5C] + list(range(0x80, 0x100)))
EXT_DISALLOWED = bytes(list(range(0, 9)) + list(range(10, 32)) + [127])
NONHEX = bytes(c for c in range(256) if c not in HEX and c != ord(";"))


# --------------------------------------------------------------------------
# encoder with a structure map

def size_field(n, upper, zeros):
    s = b"%x" % n
    if upper:
        s = s.upper()
    return b"0" * zeros + s


def encode(case, use_twisted_tochunk=True):
    """-> (bytes, layout).  layout['chunks'][i] = dict(size=(a,b), ext=(a,b)|None, data=(a,b), crlf=(a,b));
    layout['last'] = dict(size=(a,b), ext=...); layout['sizelines'] = [(a,b)] spans of every size line
    without its CRLF; layout['end'] = length of the complete message."""
    out = bytearray()
    lay = dict(chunks=[], sizelines=[])
    for c in case["chunks"]:
        d = c["data"]
        assert len(d) > 0
        ent = {}
        if c.get("tochunk") and use_twisted_tochunk:
            from twisted.web.http import toChunk
            piece = b"".join(toChunk(d))
            m = re.fullmatch(rb"([0-9A-Fa-f]+)\r\n(.*)\r\n", piece, re.S)
            ent["tochunk_ok"] = bool(m) and int(m.group(1), 16) == len(d) and m.group(2) == d
            ent["tochunk_got"] = piece
            if not ent["tochunk_ok"]:            # reported by run_case; carry on with the reference form
                piece = b"%x\r\n%s\r\n" % (len(d), d)
                m = re.fullmatch(rb"([0-9A-Fa-f]+)\r\n(.*)\r\n", piece, re.S)
            a = len(out)
            out += piece
            n = len(m.group(1))
            ent.update(size=(a, a + n), ext=None, data=(a + n + 2, a + n + 2 + len(d)))
            lay["sizelines"].append((a, a + n))
        else:
            a = len(out)
            sf = size_field(len(d), c.get("upper"), c.get("zeros", 0))
            out += sf
            ent["size"] = (a, a + len(sf))
            if c.get("ext") is not None:
                out += b";"
                ent["ext"] = (len(out), len(out) + len(c["ext"]))
                out += c["ext"]
            else:
                ent["ext"] = None
            lay["sizelines"].append((a, len(out)))
            out += b"\r\n"
            ent["data"] = (len(out), len(out) + len(d))
            out += d
        ent["crlf"] = (ent["data"][1], ent["data"][1] + 2)
        if not (c.get("tochunk") and use_twisted_tochunk):
            out += b"\r\n"
        lay["chunks"].append(ent)
    last = case["last"]
    a = len(out)
    sf = b"0" * (1 + last.get("zeros", 0))
    out += sf
    le = dict(size=(a, a + len(sf)))
    if last.get("ext") is not None:
        out += b";"
        le["ext"] = (len(out), len(out) + len(last["ext"]))
        out += last["ext"]
    else:
        le["ext"] = None
    lay["sizelines"].append((a, len(out)))
    out += b"\r\n"
    lay["last"] = le
    for t in case["trailers"]:
        assert t and b"\r\n" not in t and not t.endswith(b"\r")
        out += t + b"\r\n"
    out += b"\r\n"
    lay["end"] = len(out)
    return bytes(out), lay


def apply_mutation(msg, lay, mut):
    """-> (mutated bytes, offset of the first changed byte, class)"""
    kind = mut["kind"]
    ents = lay["chunks"] + [lay["last"]]
    ent = ents[mut["chunk"] % len(ents)]
    if kind in ("size-replace", "size-insert", "size-prefix", "size-suffix", "size-empty"):
        a, b = ent["size"]
        if kind == "size-replace":
            p = a + mut["pos"] % (b - a)
            return msg[:p] + bytes([mut["byte"]]) + msg[p + 1:], p, "size"
        if kind == "size-insert":
            p = a + mut["pos"] % (b - a + 1)
            return msg[:p] + bytes([mut["byte"]]) + msg[p:], p, "size"
        if kind == "size-prefix":
            return msg[:a] + mut["text"] + msg[a:], a, "size"
        if kind == "size-suffix":
            return msg[:b] + mut["text"] + msg[b:], b, "size"
        return msg[:a] + msg[b:], a, "size"
    if kind in ("crlf-replace", "crlf-delete", "crlf-junk"):
        ent = lay["chunks"][mut["chunk"] % len(lay["chunks"])]
        a, b = ent["crlf"]
        if kind == "crlf-junk":                  # data JUNK CRLF: everything behind the junk is well-formed
            return msg[:a] + mut["text"] + msg[a:], a, "crlf"
        if kind == "crlf-delete":
            return msg[:a] + msg[b:], a, "crlf"
        p = a + (mut["pos"] % 2)
        return msg[:p] + bytes([mut["byte"]]) + msg[p + 1:], p, "crlf"
    if kind == "ext-bad":
        with_ext = [e for e in ents if e["ext"] is not None]
        ent = with_ext[mut["chunk"] % len(with_ext)]
        a, b = ent["ext"]
        p = a + mut["pos"] % (b - a + 1)
        return msg[:p] + bytes([mut["byte"]]) + msg[p:], p, "ext"
    raise AssertionError(kind)


def mutation_valid(case, lay, mut):
    """Is the mutation well-formed for this message (and really makes it malformed)?"""
    kind = mut["kind"]
    if kind in ("size-replace", "size-insert"):
        return mut["byte"] in NONHEX
    if kind in ("size-prefix", "size-suffix"):
        return bool(mut["text"]) and any(c not in HEX for c in mut["text"]) and b";" not in mut["text"]
    if kind == "size-empty":
        return True
    if kind == "crlf-junk":
        return bool(lay["chunks"]) and bool(mut["text"]) and (mut["text"] + b"\r\n")[:2] != b"\r\n"
    if kind in ("crlf-replace", "crlf-delete"):
        if not lay["chunks"]:
            return False
        if kind == "crlf-replace":
            return mut["byte"] != b"\r\n"[mut["pos"] % 2]
        return True
    if kind == "ext-bad":
        ents = lay["chunks"] + [lay["last"]]
        return any(e["ext"] is not None for e in ents) and mut["byte"] in EXT_DISALLOWED
    return False


# --------------------------------------------------------------------------
# reference decoder for arbitrary bytes (RFC 9112 7.1 + the decoder's documented limits)

EXT_OK = frozenset(EXT_ALLOWED)
HEXSET = frozenset(HEX)
LINE_SAFE = 1000          # stay clear of the 1024-byte size-line limit (boundary not asserted)
TRAILER_SAFE = 60000      # ... and of the 64 KiB trailer limit


def ref_decode(s):
    """Classify a byte string as a (prefix of a) chunked message.
    -> ("ok", body, end) | ("bad", body_so_far) | ("incomplete", body_so_far) | ("skip", why)
    "bad" is only returned once the bytes that prove it have arrived (the terminating CRLF of a
    size line; two bytes after chunk data), which is also all the decoder can know."""
    pos, body = 0, []
    while True:
        eol = s.find(b"\r\n", pos)
        if (eol if eol >= 0 else len(s)) - pos > LINE_SAFE:
            return ("skip", "size line near the length limit")
        if eol < 0:
            return ("incomplete", b"".join(body))
        size, semi, ext = s[pos:eol].partition(b";")
        if 0x5C in ext:
            return ("skip", "backslash in extension (RFC: quoted-pair only; twisted: refused)")
        if not size or any(c not in HEXSET for c in size):
            return ("bad", b"".join(body))
        if any(c not in EXT_OK for c in ext):
            return ("bad", b"".join(body))
        n = int(size, 16)
        pos = eol + 2
        if n == 0:
            start = pos
            while True:
                eol = s.find(b"\r\n", pos)
                if (eol + 2 if eol >= 0 else len(s)) - start > TRAILER_SAFE:
                    return ("skip", "trailers near the size limit")
                if eol < 0:
                    return ("incomplete", b"".join(body))
                if eol == pos:
                    return ("ok", b"".join(body), eol + 2)
                pos = eol + 2
        avail = s[pos:pos + n]
        body.append(avail)
        if len(avail) < n:
            return ("incomplete", b"".join(body))
        pos += n
        if len(s) - pos < 2:
            return ("incomplete", b"".join(body))
        if s[pos:pos + 2] != b"\r\n":
            return ("bad", b"".join(body))
        pos += 2


def after_rejection(ctx, case, dec, got, fin, later):
    """"... are rejected": a rejected stream stays rejected.  Whatever reaches the decoder afterwards
    -- the rest of the same stream (HTTPChannel keeps feeding what it has already read), empty
    wake-ups that make it look at its buffer again, a well-formed tail -- produces no body bytes and
    no completion, and the end of the stream is data loss.  Raising again is allowed, not required."""
    from twisted.web.http import _MalformedChunkedDataError, _DataLoss
    n_got = len(got)
    again = 0
    for seg in list(later) + [b"", b"", b"\r\n", b"0\r\n\r\n", b""]:
        try:
            dec.dataReceived(seg)
        except _MalformedChunkedDataError:
            again += 1
        if len(got) != n_got:
            ctx.violation("body-bytes-delivered-after-rejection", case,
                          f"after the error, feeding {seg[:30]!r} delivered {b''.join(got[n_got:])[:60]!r} (state {dec.state})")
        if fin:
            ctx.violation("completion-signalled-after-rejection", case,
                          f"after the error, feeding {seg[:30]!r} fired finishCallback({fin[0][:40]!r})")
    try:
        dec.noMoreData()
    except _DataLoss:
        pass
    else:
        ctx.violation("no-data-loss-after-rejection", case, f"state {dec.state}")
    ctx.count("fed on after rejection (rest of stream + wake-ups + well-formed tail)")
    if again:
        ctx.count("... and the decoder raised again")


def run_raw(ctx, case):
    """Arbitrary bytes: after every delivery the decoder must be exactly where the reference
    decoder is on the bytes delivered so far."""
    from twisted.web.http import _ChunkedTransferDecoder, _MalformedChunkedDataError, _DataLoss
    stream = case["raw"]
    segments = [x for x in harness.apply_cuts(stream, case["cuts"]) if x]
    got, fin = [], []
    dec = _ChunkedTransferDecoder(got.append, fin.append)
    pos = 0
    verdict = ("incomplete", b"")
    for si, seg in enumerate(segments):
        pos += len(seg)
        verdict = ref_decode(stream[:pos])
        if verdict[0] == "skip":
            ctx.count("raw: skipped (" + verdict[1] + ")")
            return
        try:
            dec.dataReceived(seg)
            raised = None
        except _MalformedChunkedDataError as e:
            raised = e
        data = b"".join(got)
        if verdict[0] == "bad":
            if raised is None:
                ctx.violation("raw-malformed-accepted", case,
                              f"reference: malformed within {stream[:pos][-40:]!r}; decoder: data {data[-40:]!r} finish {fin!r} state {dec.state}")
            ctx.check(not fin, "raw-finish-on-malformed", case, f"{fin!r}")
            ctx.check(verdict[1].startswith(data), "raw-data-not-a-prefix", case, f"{data[:60]!r} vs {verdict[1][:60]!r}")
            after_rejection(ctx, case, dec, got, fin, segments[si + 1:])
            ctx.count("raw: rejected")
            return
        if raised is not None:
            ctx.violation("raw-valid-prefix-rejected", case,
                          f"reference: {verdict[0]}; decoder raised {raised!r} after {pos} bytes ({stream[:pos][-60:]!r})")
        if verdict[0] == "incomplete":
            ctx.check(not fin, "raw-finish-before-the-end", case, f"after {pos} bytes: {fin!r}")
            ctx.check(data == verdict[1], "raw-body-bytes-differ", case,
                      f"after {pos} bytes: decoder {data[-60:]!r} ({len(data)}), reference {verdict[1][-60:]!r} ({len(verdict[1])})")
            continue
        # complete in this delivery
        _, body, end = verdict
        ctx.check(data == body, "raw-body-differs", case, f"decoder {data[-60:]!r} ({len(data)}), reference {body[-60:]!r} ({len(body)})")
        ctx.check(len(fin) == 1, "raw-finish-count", case, f"{fin!r}")
        ctx.check(fin[0] == stream[end:pos], "raw-finish-extra-differs", case, f"{fin[0][:60]!r} vs {stream[end:pos][:60]!r}")
        dec.noMoreData()
        ctx.count("raw: complete")
        if len(segments) >= 2 and b";" in stream[:end]:
            ctx.nontrivial(case)
        return
    try:
        dec.noMoreData()
    except _DataLoss:
        ctx.count("raw: incomplete -> _DataLoss")
    else:
        ctx.violation("raw-no-data-loss-on-incomplete", case, f"state {dec.state} after {stream[-40:]!r}")


# --------------------------------------------------------------------------
# the oracle

def run_case(ctx, case):
    from twisted.web.http import _ChunkedTransferDecoder, _MalformedChunkedDataError, _DataLoss

    if "raw" in case:
        return run_raw(ctx, case)
    msg, lay = encode(case)
    body = b"".join(c["data"] for c in case["chunks"])
    for i, ent in enumerate(lay["chunks"]):
        if ent.get("tochunk_ok") is False:
            ctx.violation("tochunk-encoding-invalid", case,
                          f"toChunk({case['chunks'][i]['data'][:40]!r}) = {ent['tochunk_got'][:80]!r}")
    mut = case.get("mut")
    mut_at = mut_class = None
    if mut is not None:
        if not mutation_valid(case, lay, mut):
            ctx.count("mutation not applicable (skipped)")
            return
        msg2, mut_at, mut_class = apply_mutation(msg, lay, mut)
        stream = msg2 + case["extra"]
        end = None
    else:
        stream = msg + case["extra"]
        end = lay["end"]
    trunc = case.get("trunc")
    if trunc is not None and mut is None:
        trunc = trunc % end                     # a proper prefix of the message
        stream = stream[:trunc]
    else:
        trunc = None
    segments = [s for s in harness.apply_cuts(stream, case["cuts"]) if s]

    got, fin = [], []
    dec = _ChunkedTransferDecoder(got.append, fin.append)
    pos = 0
    rejected_in = None
    fin_seg_end = None
    later = []
    for si, seg in enumerate(segments):
        seg_end = pos + len(seg)
        before = len(fin)
        try:
            dec.dataReceived(seg)
        except _MalformedChunkedDataError as e:
            rejected_in = (pos, seg_end, str(e))
            later = segments[si + 1:]
            break
        pos = seg_end
        if any(len(g) == 0 for g in got):
            pass                                # empty deliveries are harmless; not asserted
        if len(fin) > before:
            if len(fin) > 1:
                ctx.violation("finish-callback-more-than-once", case, f"{fin!r}")
            fin_seg_end = seg_end
            break                               # the owner stops feeding once the body is complete
    data = b"".join(got)

    if mut is not None:
        # ---- rejection half ------------------------------------------------------
        if rejected_in is None:
            ctx.violation(f"malformed-accepted-{mut_class}", case,
                          f"{mut!r} at offset {mut_at}: no error; stream {stream[max(0, mut_at - 20):mut_at + 20]!r}, "
                          f"data {data[:60]!r}, finish {fin!r}")
        if rejected_in[1] <= mut_at:
            ctx.violation("rejected-before-the-malformed-byte-arrived", case,
                          f"error {rejected_in[2]!r} in segment {rejected_in[:2]}, mutation at {mut_at}")
        ctx.check(not fin, "finish-callback-on-malformed-input", case, f"{fin!r}")
        ctx.check(body.startswith(data), "data-not-a-prefix-of-body-before-rejection", case,
                  f"data {data[:80]!r} body {body[:80]!r}")
        after_rejection(ctx, case, dec, got, fin, later)
        ctx.count(f"rejected: {mut_class}")
        if mut["kind"] == "crlf-junk":
            ctx.count("rejected: junk between chunk data and its CRLF (stream well-formed again behind it)")
    elif trunc is not None:
        # ---- truncation half -----------------------------------------------------
        ctx.check(rejected_in is None, "valid-prefix-rejected", case, f"{rejected_in!r}")
        ctx.check(not fin, "finish-callback-before-the-end", case, f"truncated at {trunc}/{end}: {fin!r}")
        ctx.check(body.startswith(data), "data-not-a-prefix-of-body", case, f"{data[:80]!r}")
        # every body byte that has arrived is delivered (the decoder documents no buffering of chunk data)
        arrived = b"".join(msg[a:min(b, trunc)] for a, b in (e["data"] for e in lay["chunks"]) if a < trunc)
        ctx.check(data == arrived, "body-bytes-withheld-or-invented", case,
                  f"arrived {len(arrived)} body bytes, delivered {len(data)}")
        try:
            dec.noMoreData()
        except _DataLoss:
            pass
        else:
            ctx.violation("no-data-loss-on-truncated-stream", case, f"truncated at {trunc}/{end}, state {dec.state}")
        ctx.count("truncated -> _DataLoss")
    else:
        # ---- round trip -------------------------------------------------------------
        ctx.check(rejected_in is None, "valid-message-rejected", case, f"{rejected_in!r}")
        ctx.check(data == body, "body-differs", case,
                  f"decoded {len(data)} bytes {data[:60]!r}, encoded {len(body)} bytes {body[:60]!r}")
        if len(fin) != 1:
            ctx.violation("finish-callback-count", case, f"{len(fin)} calls")
        # the segment that carried the last byte of the message
        p, want_end = 0, None
        for seg in segments:
            p += len(seg)
            if p >= end:
                want_end = p
                break
        if fin_seg_end != want_end:
            ctx.violation("finish-callback-at-wrong-delivery", case,
                          f"finished after {fin_seg_end} bytes, message ends at {end}, that delivery ends at {want_end}")
        if fin[0] != stream[end:want_end]:
            ctx.violation("finish-extra-bytes-differ", case,
                          f"finish got {fin[0][:60]!r}, expected {stream[end:want_end][:60]!r}")
        dec.noMoreData()                        # complete: must not raise
        ctx.count("round trip")

    # ---- bookkeeping -------------------------------------------------------------------
    bounds, p = set(), 0
    for seg in segments[:-1]:
        p += len(seg)
        bounds.add(p)
    cut_in_size = any(a < c <= b + 1 for (a, b) in lay["sizelines"] for c in bounds) if mut is None else False
    has_ext = any(c.get("ext") is not None for c in case["chunks"]) or case["last"].get("ext") is not None
    if len(case["chunks"]) >= 2 and (has_ext or case["trailers"]) and cut_in_size:
        ctx.nontrivial(case)
        ctx.count("nontrivial (>=2 chunks, ext/trailer, cut in a size line)")
        if len(ctx.samples) < 5 and len(stream) < 200 and len(segments) >= 3:
            ctx.sample(case)
    if has_ext:
        ctx.count("has extension")
    if case["trailers"]:
        ctx.count("has trailers")
    if case["extra"]:
        ctx.count("has extra bytes")
    if any(c.get("tochunk") for c in case["chunks"]):
        ctx.count("chunk encoded by toChunk")
    if any(b - a > 200 for a, b in lay["sizelines"]):
        ctx.count("size line > 200 bytes")
    if len(body) > 5000:
        ctx.count("body > 5000 bytes")


# --------------------------------------------------------------------------
# generators

def C(data, upper=False, zeros=0, ext=None, tochunk=False):
    return dict(data=data, upper=upper, zeros=zeros, ext=ext, tochunk=tochunk)


SMALL = [
    dict(chunks=[C(b"hel;lo"), C(b"wor\r\nld!!!!", ext=b"a=b")], last=dict(zeros=0, ext=None), trailers=[], extra=b"GET / HTTP/1.1\r\n"),
    dict(chunks=[C(b"0\r\n\r\n", tochunk=True), C(b"x" * 17, upper=True, zeros=2, ext=b"")], last=dict(zeros=2, ext=b"q=\"a b\""),
         trailers=[b"X-T: 1"], extra=b"\r\n"),
    dict(chunks=[], last=dict(zeros=0, ext=None), trailers=[], extra=b"xyz"),
    dict(chunks=[C(b"a" * 26, upper=True), C(b"b", ext=b"\tk;\xff=\x80")], last=dict(zeros=0, ext=b"z"),
         trailers=[b"A: b", b"Cc:\tdd "], extra=b""),
    dict(chunks=[C(b"\r\n"), C(b"\r"), C(b"\n"), C(b"0")], last=dict(zeros=1, ext=None), trailers=[b":"], extra=b"0\r\n\r\n"),
    dict(chunks=[C(b"abc", zeros=1), C(b"defgh" * 9, ext=b"e" * 20)], last=dict(zeros=0, ext=b""), trailers=[], extra=b"\r"),
    dict(chunks=[C(b"Z" * 171, upper=True, ext=None), C(b"y" * 10, zeros=0)], last=dict(zeros=0, ext=None), trailers=[b"T: " + b"v" * 30], extra=b"P"),
]


def base(m, **kw):
    d = dict(chunks=m["chunks"], last=m["last"], trailers=m["trailers"], extra=m["extra"],
             cuts="whole", trunc=None, mut=None)
    d.update(kw)
    return d


def small_scope(mi):
    m = SMALL[mi]
    msg, lay = encode(m, use_twisted_tochunk=False)
    n = len(msg) + len(m["extra"])
    yield base(m)
    yield base(m, cuts="bytewise")
    for c in range(1, n):
        yield base(m, cuts=[c])
    if n <= 64:
        for a, b in itertools.combinations(range(1, n), 2):
            yield base(m, cuts=[a, b])
    else:
        for a in range(1, n, 3):
            yield base(m, cuts=[a, a + 1])
            yield base(m, cuts=[a, a + 2])
    for t in range(0, lay["end"]):
        yield base(m, trunc=t)
        yield base(m, trunc=t, cuts="bytewise")
        if t > 2:
            yield base(m, trunc=t, cuts=[t // 2])
    # every single structural mutation of the three classes, delivered whole, byte-wise and cut at the mutation
    ents = lay["chunks"] + [lay["last"]]
    muts = []
    for ci, e in enumerate(ents):
        a, b = e["size"]
        for p in range(b - a):
            for byte in (0x67, 0x47, 0x78, 0x20, 0x09, 0x2B, 0x2D, 0x5F, 0x00, 0x0D, 0x0A, 0x2E, 0x3A, 0x80, 0xFF, 0x2F, 0x40, 0x60):
                muts.append(dict(kind="size-replace", chunk=ci, pos=p, byte=byte))
        for p in range(b - a + 1):
            for byte in (0x78, 0x58, 0x20, 0x09, 0x2B, 0x2D, 0x5F, 0x00, 0x0D, 0x0A, 0x68):
                muts.append(dict(kind="size-insert", chunk=ci, pos=p, byte=byte))
        for text in (b"0x", b"0X", b"+", b"-", b" ", b"\t", b"0b", b"0o", b"\xef\xbc\x91"):
            muts.append(dict(kind="size-prefix", chunk=ci, text=text))
        for text in (b" ", b"\t", b"_0", b"h", b"L", b".0", b"\x00", b"\xb2"):
            muts.append(dict(kind="size-suffix", chunk=ci, text=text))
        muts.append(dict(kind="size-empty", chunk=ci))
        if e["ext"] is not None:
            ea, eb = e["ext"]
            ei = [x for x in ents if x["ext"] is not None].index(e)
            for p in range(eb - ea + 1):
                for byte in EXT_DISALLOWED:
                    muts.append(dict(kind="ext-bad", chunk=ei, pos=p, byte=byte))
    for ci, e in enumerate(lay["chunks"]):
        muts.append(dict(kind="crlf-delete", chunk=ci))
        for text in (b"X", b"XY", b"XYZ", b"WXYZ", b"\r", b"\n\r", b"\n", b"0\r", b"ab\r\ncd", b"\x00\x00"):
            muts.append(dict(kind="crlf-junk", chunk=ci, text=text))
        for p in (0, 1):
            for byte in (0x0D, 0x0A, 0x20, 0x00, 0x30, 0x58, 0xFF):
                muts.append(dict(kind="crlf-replace", chunk=ci, pos=p, byte=byte))
    for i, mu in enumerate(muts):
        yield base(m, mut=mu)
        yield base(m, mut=mu, cuts="bytewise")
        if i % 4 == 0:
            _, at, _ = apply_mutation(msg, lay, mu) if mutation_valid(m, lay, mu) else (None, 1, None)
            yield base(m, mut=mu, cuts=[max(1, at), at + 1, at + 2])


def _small_shard(sub, mi):
    enumerate_run(sub, small_scope(mi), run_case)


def case_strategy():
    ext_bytes = st.one_of(
        st.lists(st.sampled_from(list(EXT_ALLOWED)), max_size=12).map(bytes),
        st.sampled_from([b"", b"a", b"a=b", b"a=\"b c\"", b"x;y;z=1", b";;", b" ", b"\t\xff", b"0", b"\x80" * 5]),
        st.integers(200, 990).map(lambda n: (b"e=" + b"v" * n)[:n]))
    opt_ext = st.one_of(st.none(), st.none(), ext_bytes)
    data = st.one_of(
        st.binary(min_size=1, max_size=24),
        st.sampled_from([b"\r\n", b"0\r\n\r\n", b"\r", b"\n", b"0", b"5\r\nhello\r\n", b";", b"a" * 15, b"b" * 16, b"c" * 17,
                         b"d" * 255, b"e" * 256, b"f" * 4096]),
        st.integers(1, 5000).map(lambda n: (b"0123456789abcdef\r\n" * (n // 18 + 1))[:n]))
    chunk = st.builds(lambda d, upper, zeros, ext, tochunk: C(d, upper, 0 if tochunk else zeros, None if tochunk else ext, tochunk),
                      data, st.booleans(), st.sampled_from([0, 0, 0, 1, 2, 7]), opt_ext, st.sampled_from([False, False, True]))
    tok = st.text(alphabet="abcdefghijklmnopqrstuvwxyzABCXYZ0123456789-_!#", min_size=1, max_size=10).map(lambda s: s.encode())
    tval = st.one_of(st.binary(max_size=20).map(lambda b: b.replace(b"\r", b"").replace(b"\n", b"")),
                     st.sampled_from([b"", b"v", b" v ", b"a: b", b"\xff\xfe", b"0"]))
    trailer = st.one_of(
        st.builds(lambda n, v: n + b": " + v, tok, tval),
        st.binary(min_size=1, max_size=20).map(lambda b: b.replace(b"\r", b"").replace(b"\n", b"") or b"x"),
        st.integers(100, 3000).map(lambda n: b"Long: " + b"t" * n))
    mut = st.one_of(
        st.builds(lambda c, p, b: dict(kind="size-replace", chunk=c, pos=p, byte=b), st.integers(0, 8), st.integers(0, 12), st.sampled_from(list(NONHEX))),
        st.builds(lambda c, p, b: dict(kind="size-insert", chunk=c, pos=p, byte=b), st.integers(0, 8), st.integers(0, 12), st.sampled_from(list(NONHEX))),
        st.builds(lambda c, t: dict(kind="size-prefix", chunk=c, text=t), st.integers(0, 8), st.sampled_from([b"0x", b"0X", b"+", b"-", b" ", b"\t", b"\n", b"0b1", b"0_"])),
        st.builds(lambda c, t: dict(kind="size-suffix", chunk=c, text=t), st.integers(0, 8), st.sampled_from([b" ", b"\t", b"_0", b"_", b"h", b"\x00", b"\r"])),
        st.builds(lambda c: dict(kind="size-empty", chunk=c), st.integers(0, 8)),
        st.builds(lambda c, p, b: dict(kind="crlf-replace", chunk=c, pos=p, byte=b), st.integers(0, 8), st.integers(0, 1), st.integers(0, 255)),
        st.builds(lambda c: dict(kind="crlf-delete", chunk=c), st.integers(0, 8)),
        st.builds(lambda c, t: dict(kind="crlf-junk", chunk=c, text=t), st.integers(0, 8),
                  st.one_of(st.binary(min_size=1, max_size=6), st.sampled_from([b"XY", b"WXYZ", b"\n\r", b"0\r"]))),
        st.builds(lambda c, p, b: dict(kind="ext-bad", chunk=c, pos=p, byte=b), st.integers(0, 8), st.integers(0, 1000), st.sampled_from(list(EXT_DISALLOWED))),
    )
    cuts = st.one_of(st.just("whole"), st.just("bytewise"),
                     st.lists(st.integers(1, 120), max_size=10),
                     st.lists(st.integers(1, 12000), max_size=10))
    return st.fixed_dictionaries(dict(
        chunks=st.lists(chunk, max_size=8),
        last=st.fixed_dictionaries(dict(zeros=st.sampled_from([0, 0, 0, 1, 5]), ext=opt_ext)),
        trailers=st.one_of(st.just([]), st.lists(trailer, max_size=4)),
        extra=st.one_of(st.just(b""), st.binary(max_size=20), st.sampled_from([b"\r\n", b"0\r\n\r\n", b"GET / HTTP/1.1\r\n\r\n"])),
        cuts=cuts,
        trunc=st.one_of(st.none(), st.none(), st.none(), st.integers(0, 30000)),
        mut=st.one_of(st.none(), st.none(), mut),
    )).filter(lambda c: not (c["cuts"] == "bytewise" and sum(len(x["data"]) for x in c["chunks"]) > 3000))


RAW_BYTES = [0x00, 0x09, 0x0A, 0x0D, 0x20, 0x2B, 0x2D, 0x2F, 0x30, 0x31, 0x39, 0x3A, 0x3B, 0x3D, 0x40, 0x41, 0x46, 0x47,
             0x58, 0x5F, 0x60, 0x61, 0x66, 0x67, 0x78, 0x7F, 0x80, 0xFF]


def raw_scope(mi):
    """Every single-byte replacement / deletion / insertion (from RAW_BYTES) of a small message."""
    m = SMALL[mi]
    msg, _ = encode(m, use_twisted_tochunk=False)
    s = msg + m["extra"]
    for p in range(len(s)):
        variants = [s[:p] + s[p + 1:]]
        for b in RAW_BYTES:
            if b != s[p]:
                variants.append(s[:p] + bytes([b]) + s[p + 1:])
            variants.append(s[:p] + bytes([b]) + s[p:])
        for v in variants:
            yield dict(raw=v, cuts="whole")
            yield dict(raw=v, cuts="bytewise")
            yield dict(raw=v, cuts=[max(1, p), p + 1])


def _raw_shard(sub, mi):
    enumerate_run(sub, raw_scope(mi), run_case)


def raw_strategy():
    def mutate(c, edits):
        s = bytearray(encode(c, use_twisted_tochunk=False)[0] + c["extra"])
        for kind, pos, b in edits:
            p = pos % (len(s) + 1)
            if kind == 0 and p < len(s):
                s[p] = b
            elif kind == 1:
                s[p:p] = bytes([b])
            elif p < len(s):
                del s[p]
        return dict(raw=bytes(s), cuts=c["cuts"])
    small = case_strategy().filter(lambda c: sum(len(x["data"]) for x in c["chunks"]) < 400)
    edit = st.tuples(st.integers(0, 2), st.integers(0, 600),
                     st.one_of(st.sampled_from(RAW_BYTES), st.integers(0, 255)))
    return st.one_of(
        st.builds(mutate, small, st.lists(edit, min_size=0, max_size=3)),
        st.builds(lambda b, cuts: dict(raw=b, cuts=cuts),
                  st.lists(st.sampled_from([b"0", b"1", b"a", b"F", b"\r\n", b"\r", b"\n", b";", b"x", b" ", b"0\r\n\r\n",
                                            b"3\r\nabc\r\n", b"=", b"\x00", b"T: v\r\n"]), max_size=12).map(b"".join),
                  st.one_of(st.just("whole"), st.just("bytewise"), st.lists(st.integers(1, 60), max_size=5))))


def _hyp_shard(sub, i):
    hyp_run(sub, case_strategy(), run_case, 6000, label=f"shard{i}")
    if not sub.has_violation():
        hyp_run(sub, raw_strategy(), run_case, 6000, label=f"rawshard{i}")


def run(ctx):
    for mi in range(len(SMALL)):               # ~13 000 cases, about a second: no fan-out needed
        if not enumerate_run(ctx, small_scope(mi), run_case):
            return
    ctx.extra["small_scope"] = f"{len(SMALL)} fixed messages x (every single cut, every cut pair if <= 64 bytes, every truncation point, every listed single mutation)"
    # arbitrary single-byte edits against the reference decoder: message 0 in-process (quick),
    # all messages fanned out (thorough)
    if ctx.thorough:
        ctx.shards(_raw_shard, list(range(len(SMALL))))
    else:
        for mi in (0, 4):
            if not enumerate_run(ctx, raw_scope(mi), run_case):
                return
    if ctx.has_violation():
        return
    if ctx.thorough:
        ctx.shards(_hyp_shard, list(range(16)))
        if not ctx.has_violation():
            atheris_campaign(ctx)
    else:
        hyp_run(ctx, case_strategy(), run_case, 1500, label="messages")
        if not ctx.has_violation():
            hyp_run(ctx, raw_strategy(), run_case, 800, label="raw")


# --------------------------------------------------------------------------
# thorough only: coverage-guided bytes (atheris / libFuzzer) against the same reference decoder

ATHERIS_SHARDS = 8
ATHERIS_RUNS = 50000


def _fuzz_case(data):
    """fuzzer bytes -> plain case: first byte selects the segmentation, the rest is the stream."""
    if not data:
        return dict(raw=b"", cuts="whole")
    sel, raw = data[0], bytes(data[1:])
    if sel < 64:
        cuts = "whole"
    elif sel < 128:
        cuts = "bytewise" if len(raw) <= 400 else [sel]
    else:
        n = max(1, len(raw))
        cuts = sorted({1 + (sel * 7) % n, 1 + (sel * 13) % n, 1 + (sel * 29) % n})
    return dict(raw=raw, cuts=cuts)


def atheris_campaign(ctx):
    import os
    import subprocess
    import sys
    from lib.core import VERIF, loads
    deps = os.path.join(VERIF, ".deps")
    if not os.path.isdir(os.path.join(deps, "atheris")):
        ctx.note("atheris not installed (./setup.sh): coverage-guided tier skipped")
        return
    with harness.scratch_dir("C22") as d:
        procs = []
        for i in range(ATHERIS_SHARDS):
            crash = os.path.join(d, f"crash{i}.json")
            corpus = os.path.join(d, f"corpus{i}")
            os.makedirs(corpus)
            for mi, m in enumerate(SMALL):
                msg, _ = encode(m, use_twisted_tochunk=False)
                with open(os.path.join(corpus, f"seed{mi}"), "wb") as f:
                    f.write(bytes([(mi * 37 + i * 11) % 256]) + msg + m["extra"])
            path = [VERIF, deps]
            if os.environ.get("VERIF_REPO"):
                path.insert(0, os.path.join(os.environ["VERIF_REPO"], "src"))
            env = dict(os.environ, PYTHONPATH=os.pathsep.join(path))
            procs.append((crash, subprocess.Popen(
                [sys.executable, os.path.abspath(__file__), "--atheris", crash, corpus,
                 str(int(ctx.seed) * 100 + i), str(ATHERIS_RUNS)],
                env=env, cwd=d, stdout=subprocess.DEVNULL, stderr=subprocess.PIPE)))
        found = []
        for crash, p in procs:
            _, err = p.communicate()
            if os.path.exists(crash):
                with open(crash) as f:
                    found.append(loads(f.read()))
            elif p.returncode != 0:
                ctx.note("atheris shard exited %d: %s" % (p.returncode, err.decode("latin-1")[-300:]))
            else:
                ctx.count("atheris executions", ATHERIS_RUNS)
    # re-execute whatever the fuzzer found through the ordinary oracle (so it is reported and replayable)
    enumerate_run(ctx, found, run_case)


def _atheris_main(argv):
    import os
    import sys
    crash, corpus, seed, runs = argv
    import atheris
    with atheris.instrument_imports(include=["twisted.web.http", "twisted.web._abnf"]):
        import twisted.web.http  # noqa
    from lib.core import Ctx, dumps, PropertyViolation

    class Quiet(Ctx):
        def nontrivial(self, key):
            pass

        def sample(self, obj, force=False):
            pass
    fctx = Quiet("C22", "thorough", int(seed), META, worker=True)
    fctx.known_sigs = set()

    def one(data):
        case = _fuzz_case(data)
        try:
            run_case(fctx, case)
        except BaseException:
            with open(crash, "w") as f:
                f.write(dumps(case))
            os._exit(3)
        fctx._best.clear()
        fctx.classes.clear()

    atheris.Setup([sys.argv[0], corpus, f"-runs={runs}", f"-seed={seed}", "-max_len=600", "-len_control=20",
                   "-print_final_stats=0", "-verbosity=0"], one)
    atheris.Fuzz()


if __name__ == "__main__":
    import sys
    if len(sys.argv) >= 2 and sys.argv[1] == "--atheris":
        _atheris_main(sys.argv[2:])
