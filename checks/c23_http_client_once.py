"""C23 - the HTTP/1.1 client completes every request exactly once with the exact body.

One response (optionally preceded by interim 1xx responses) is serialized by
h11 or by a hand grammar, cut off after `trunc` bytes, cut into segments and
fed to a real HTTP11ClientProtocol; the connection is then lost.  The outcome
is compared with an independent reference parser (ref_parse) run over exactly
the bytes that were delivered to the protocol.
"""
from hypothesis import strategies as st

from lib.core import hyp_run, enumerate_run, guarded, KnownFindingSkip
from lib import harness

META = dict(
    property="C23",
    level="fault_enumeration",
    technique="generated responses (h11 + hand grammar) x every truncation point x segmentation x deliverBody timing against a reference response parser",
    level_text="For each generated response every truncation point 0..len(wire) is executed (connection loss after that many bytes), with a generated segmentation, deliverBody timing (in the callback / after k deliveries / after the loss / never), a transport that ignores pauseProducing / stops reading while paused / additionally hands the held bytes over from inside resumeProducing(), persistent or not; in a third of the random cases (and for every small-scope response) the complete response is followed by a second request on the same persistent connection, issued from the body consumer's connectionLost(ResponseDone) or afterwards, whose exchange is judged by the same oracle. A fixed set of small responses is additionally run with every (truncation, single cut) pair. Bounded by the generated response shapes (bodies <= ~60 bytes, <= 2 interim responses (which may carry entity and connection-control / framing headers of their own), <= 4 chunks).",
    level_note="Trusted: the reference parser ref_parse (written from RFC 9112 sec. 2-7 for the generated grammar), h11 as serializer, the StringTransport double. Responses are well formed except for four marked malformed classes whose only asserted outcome is 'exactly one failure'. While the request body is still being sent only exactly-once is asserted (request() documents RequestTransmissionFailed there).",
    design_ref="§5 C23",
    rule="case = (request method, response structure, trunc, cuts, deliverBody timing, honour_pause, persistent, loss kind). non-trivial = the loss falls after the header block and before the end of a length/chunk-delimited body, or anywhere in a close-delimited body (i.e. inside body data or chunk framing); distinct by (method, wire bytes, trunc).",
)

NO_BODY = (204, 304)


# --------------------------------------------------------------------------
# serialization of the generated response structure

def _hdr_lines(headers, eol):
    return b"".join(n + b": " + v + eol for n, v in headers)


def encode_chunked(resp):
    chunks = [c for c in resp["body"] if c]
    out = []
    upper = resp.get("hexupper")
    ext = resp.get("chunk_ext") or b""
    bad = resp.get("malformed") == "chunk_size"
    for i, c in enumerate(chunks):
        size = ("%X" if upper else "%x") % len(c)
        if resp.get("lead0") and i == 0:
            size = "00" + size
        size = size.encode()
        if bad and i == len(chunks) - 1:
            size = resp.get("badsize") or b"0x1"
        out.append(size + (ext if i % 2 == 0 else b"") + b"\r\n" + c + b"\r\n")
    out.append(b"0" + (ext if resp.get("ext_last") else b"") + b"\r\n")
    for n, v in resp.get("trailers") or []:
        out.append(n + b": " + v + b"\r\n")
    out.append(b"\r\n")
    return b"".join(out)


def build_hand(method, resp):
    eol = resp.get("eol") or b"\r\n"
    out = []
    for code, hs in resp.get("interim") or []:
        out.append(b"HTTP/1.1 %d Continue" % code + eol + _hdr_lines(hs, eol) + eol)
    status = resp["status"]
    line = (resp.get("version") or b"HTTP/1.1") + b" "
    if resp.get("malformed") == "status":
        line += b"2x0"
    else:
        line += b"%d" % status
    reason = resp.get("reason")
    if reason is None:
        pass                       # no reason phrase and no separating space
    else:
        line += b" " + reason
    body = b"".join(resp["body"])
    framing = resp["framing"]
    fh = []
    if framing == "cl":
        fh = [(b"Content-Length", b"%d" % len(body))]
    elif framing == "cl_dup":
        fh = [(b"Content-Length", b"%d" % len(body)), (b"content-length", b"0%d" % len(body))]
    elif framing == "cl_list":
        fh = [(b"Content-Length", b"%d, %d" % (len(body), len(body)))]
    elif framing == "chunked":
        fh = [(b"Transfer-Encoding", resp.get("te") or b"chunked")]
    elif framing == "chunked_cl":
        fh = [(b"Content-Length", b"%d" % (len(body) + 3)), (b"Transfer-Encoding", b"chunked")]
    if resp.get("malformed") == "cl_conflict":
        fh = [(b"Content-Length", b"%d" % len(body)), (b"Content-Length", b"%d" % (len(body) + 1))]
    if resp.get("malformed") == "te_unknown":
        fh = [(b"Transfer-Encoding", b"gzip")]
    hs = [tuple(h) for h in resp.get("headers") or []]
    if resp.get("conn_close"):
        hs.append((b"Connection", b"close"))
    k = min(resp.get("fpos", 0), len(hs))
    hs = hs[:k] + fh + hs[k:]
    head = line + eol
    for i, (n, v) in enumerate(hs):
        if resp.get("fold") and i == 0 and b" " in v:
            a, b = v.split(b" ", 1)
            head += n + b": " + a + eol + b" " + b + eol
        else:
            head += n + b": " + v + eol
    head += eol
    out.append(head)
    if method != b"HEAD" and status not in NO_BODY:
        if framing in ("chunked", "chunked_cl"):
            out.append(encode_chunked(resp))
        else:
            out.append(body)
    return b"".join(out)


def build_h11(method, resp):
    import h11
    conn = h11.Connection(h11.SERVER)
    version = b"1.0" if resp["framing"] == "close" else b"1.1"
    conn.receive_data(method + b" / HTTP/" + version + b"\r\nHost: a\r\n\r\n")
    while True:
        ev = conn.next_event()
        if type(ev) is h11.EndOfMessage:
            break
        if ev is h11.NEED_DATA:
            raise RuntimeError("h11 did not read the request")
    out = []
    for code, hs in resp.get("interim") or []:
        out.append(conn.send(h11.InformationalResponse(status_code=code, headers=[tuple(h) for h in hs])))
    hs = [tuple(h) for h in resp.get("headers") or []]
    body = b"".join(resp["body"])
    if resp["framing"] == "cl":
        hs.append((b"Content-Length", b"%d" % len(body)))
    if resp.get("conn_close"):
        hs.append((b"Connection", b"close"))
    out.append(conn.send(h11.Response(status_code=resp["status"], headers=hs,
                                      reason=resp.get("reason") or b"")))
    if method != b"HEAD" and resp["status"] not in NO_BODY:
        for c in resp["body"]:
            if c:
                out.append(conn.send(h11.Data(data=c)))
    out.append(conn.send(h11.EndOfMessage()))
    return b"".join(x for x in out if x)


def build_wire(method, resp):
    if resp.get("ser") == "h11":
        return build_h11(method, resp)
    return build_hand(method, resp)


# --------------------------------------------------------------------------
# reference parser (independent of twisted): what do these received bytes mean?

HEXDIGITS = b"0123456789abcdefABCDEF"


def ref_chunked(data):
    """-> (body bytes received, state) for a prefix of a chunked body.
    state: 'done' | 'malformed' | where the prefix stops:
    'size' (inside a chunk-size line), 'data', 'crlf', 'trailer'."""
    body = []
    pos = 0
    while True:
        i = data.find(b"\r\n", pos)
        if i < 0:
            return b"".join(body), "size"
        line = data[pos:i]
        sz = line.split(b";", 1)[0]
        if not sz or any(c not in HEXDIGITS for c in sz):
            return b"".join(body), "malformed"
        n = int(sz, 16)
        pos = i + 2
        if n == 0:
            break
        got = data[pos:pos + n]
        body.append(got)
        if len(got) < n:
            return b"".join(body), "data"
        pos += n
        tail = data[pos:pos + 2]
        if len(tail) < 2:
            return b"".join(body), "crlf"
        if tail != b"\r\n":
            return b"".join(body), "malformed"
        pos += 2
    # trailer section: lines until an empty one
    while True:
        i = data.find(b"\r\n", pos)
        if i < 0:
            return b"".join(body), "trailer"
        if i == pos:
            return b"".join(body), "done"
        pos = i + 2


def ref_parse(method, data):
    """Reference reading of the bytes received for one request.

    -> dict(head='incomplete'|'malformed'|'ok', where=..., code, headers,
            framing, body, end='done'|'close'|'truncated', region)"""
    pos = 0
    while True:
        lines = []
        while True:
            i = data.find(b"\n", pos)
            if i < 0:
                return dict(head="incomplete", where="status" if not lines else "headers")
            line = data[pos:i]
            pos = i + 1
            if line.endswith(b"\r"):
                line = line[:-1]
            if not lines:
                parts = line.split(b" ", 2)
                if len(parts) < 2 or not parts[1].isdigit():
                    return dict(head="malformed")
            if not line:
                break
            lines.append(line)
        parts = lines[0].split(b" ", 2)
        code = int(parts[1])
        headers = []
        for l in lines[1:]:
            if l[:1] in b" \t" and headers:
                headers[-1][1] += l
            else:
                n, v = l.split(b":", 1)
                headers.append([n.strip().lower(), v])
        headers = [(n, v.strip()) for n, v in headers]
        if 100 <= code < 200:
            continue
        break
    rest = data[pos:]
    res = dict(head="ok", code=code, headers=headers, head_end=pos)
    te = [v for n, v in headers if n == b"transfer-encoding"]
    cl = [v for n, v in headers if n == b"content-length"]
    if method == b"HEAD" or code in NO_BODY:
        res.update(framing="none", body=b"", end="done", region="complete")
        return res
    if te:
        if te[0].lower() != b"chunked":
            return dict(head="malformed")
        body, state = ref_chunked(rest)
        res.update(framing="chunked", body=body)
        if state == "done":
            res.update(end="done", region="complete")
        else:
            res.update(end="truncated", region="chunk-" + state)
        return res
    if cl:
        vals = set()
        for v in cl:
            for x in v.split(b","):
                x = x.strip(b" \t")
                if not x.isdigit():
                    return dict(head="malformed")
                vals.add(int(x))
        if len(vals) != 1:
            return dict(head="malformed")
        n = vals.pop()
        res.update(framing="cl", body=rest[:n])
        if len(rest) >= n:
            res.update(end="done", region="complete")
        else:
            res.update(end="truncated", region="body" if rest else "headend")
        return res
    res.update(framing="close", body=rest, end="close", region="body" if rest else "headend")
    return res


CONTROL = {b"content-length", b"connection", b"keep-alive", b"te", b"trailers",
           b"transfer-encoding", b"upgrade", b"proxy-connection"}


# --------------------------------------------------------------------------

def _mk_objects():
    from twisted.internet.protocol import Protocol
    from twisted.internet.testing import StringTransport
    from twisted.internet.defer import Deferred
    from twisted.web.iweb import IBodyProducer, UNKNOWN_LENGTH
    from zope.interface import implementer

    class Body(Protocol):
        def __init__(self):
            self.events = []
            self.on_lost = None

        def makeConnection(self, transport):
            self.events.append(("made", None))
            Protocol.makeConnection(self, transport)

        def dataReceived(self, data):
            self.events.append(("data", bytes(data)))

        def connectionLost(self, reason):
            self.events.append(("lost", reason))
            if self.on_lost is not None:
                self.on_lost(reason)

    class Transport(StringTransport):
        """StringTransport that can behave like a buffering transport: bytes held
        back while it was paused are handed over from inside resumeProducing()"""
        on_resume = None

        def resumeProducing(self):
            StringTransport.resumeProducing(self)
            if self.on_resume is not None:
                self.on_resume()

    @implementer(IBodyProducer)
    class Producer:
        def __init__(self, pending, known):
            self.pending = pending
            self.length = 3 if known else UNKNOWN_LENGTH
            self.stopped = 0
            self.d = None

        def startProducing(self, consumer):
            self.d = Deferred()
            if not self.pending:
                consumer.write(b"abc")
                self.d.callback(None)
            return self.d

        def stopProducing(self):
            self.stopped += 1

        def pauseProducing(self):
            pass

        def resumeProducing(self):
            pass

    return Body, Producer, Transport


_OBJ = None


def run_case(ctx, case):
    global _OBJ
    from twisted.internet.error import ConnectionDone, ConnectionLost
    from twisted.python.failure import Failure
    from twisted.web._newclient import (HTTP11ClientProtocol, Request, ResponseDone,
                                        ResponseFailed, ResponseNeverReceived, Response)
    from twisted.web.http import PotentialDataLoss
    from twisted.web.http_headers import Headers
    if _OBJ is None:
        _OBJ = _mk_objects()
    Body, Producer, Transport = _OBJ

    method = case["method"]
    resp = case["resp"]
    wire = build_wire(method, resp)
    trunc = case.get("trunc")
    plan = wire if trunc is None else wire[:trunc]
    segs = [s for s in harness.apply_cuts(plan, case.get("cuts", "whole")) if s]   # a transport never delivers b""
    deliver = case.get("deliver", ("cb",))
    # False: the transport ignores pauseProducing; True: it stops reading while
    # paused; "sync": it stops reading and hands the held bytes over from inside
    # resumeProducing() (in-memory / buffering transports do)
    honour = case.get("honour_pause") or False
    reqbody = case.get("reqbody", "none")     # none | done | pending | pending_cl
    malformed = resp.get("malformed")
    fu = case.get("followup")                 # a second request on the same (persistent) connection

    tr = Transport(lenient=True)
    proto = HTTP11ClientProtocol()
    proto.makeConnection(tr)
    producer = None
    if reqbody != "none":
        producer = Producer(pending=reqbody.startswith("pending"), known=reqbody.endswith("cl"))
    req = Request(method, b"/x", Headers({b"host": [b"a"]}), producer,
                  persistent=bool(case.get("persistent")))
    fired = []
    body = Body()
    st_ = dict(delivered_body=False, response=None, since=0, pos=0, in_dr=False, delivered=b"", dead=False,
               sync_segments=0, depth=0)

    def give_body():
        if not st_["delivered_body"] and st_["response"] is not None:
            st_["delivered_body"] = True
            st_["response"].deliverBody(body)

    def on_ok(r):
        fired.append(("ok", r))
        st_["response"] = r
        if deliver[0] == "cb":
            give_body()

    def on_err(f):
        fired.append(("err", f))

    def pump():
        """deliver the planned segments for as long as the transport would"""
        st_["depth"] += 1
        try:
            while st_["pos"] < len(segs) and not st_["dead"]:
                if tr.disconnecting or tr.disconnected:
                    break
                if (deliver[0] == "after" and st_["response"] is not None
                        and not st_["delivered_body"] and st_["since"] >= deliver[1]):
                    give_body()
                if honour and tr.producerState == "paused":
                    if deliver[0] == "after":
                        give_body()          # nothing else can happen on this connection
                    if tr.producerState == "paused":
                        break
                if st_["pos"] >= len(segs) or tr.disconnecting or tr.disconnected:
                    break                    # a nested pump (resumeProducing) took the rest
                seg = segs[st_["pos"]]
                st_["pos"] += 1
                if st_["depth"] > 1:
                    st_["sync_segments"] += 1
                had = st_["response"] is not None
                st_["in_dr"] = True
                try:
                    proto.dataReceived(seg)
                finally:
                    st_["in_dr"] = False
                st_["delivered"] += seg
                delivered = st_["delivered"]
                if had:
                    st_["since"] += 1
                if not malformed:
                    m = ref_parse(method, delivered)
                    pending = reqbody.startswith("pending")
                    if m["head"] == "incomplete" and fired:
                        ctx.violation("fired-before-headers-complete", case,
                                      f"request Deferred fired ({fired[0][0]}) after {len(delivered)} bytes; header block incomplete: {delivered!r}")
                    if m["head"] == "ok" and not fired and not (pending and m["end"] != "done"):
                        ctx.violation("not-fired-when-headers-complete", case,
                                      f"header block complete after {len(delivered)} bytes but request Deferred has not fired")
        finally:
            st_["depth"] -= 1

    def on_resume():
        # never from inside dataReceived: the bytes of the segment being
        # processed come first
        if honour == "sync" and not st_["in_dr"]:
            pump()
    tr.on_resume = on_resume

    # ---- the follow-up request -------------------------------------------------
    fu_state = dict(started=False, how=None)
    fired2, body2 = [], Body()
    method2 = fu["method"] if fu else None
    delivered2 = b""

    def start_followup(how):
        if fu is None or fu_state["started"] or proto.state != "QUIESCENT":
            return
        fu_state["started"] = True
        fu_state["how"] = how
        req2 = Request(method2, b"/y", Headers({b"host": [b"a"]}), None, persistent=True)

        def ok2(r):
            fired2.append(("ok", r))
            r.deliverBody(body2)
        proto.request(req2).addCallbacks(ok2, lambda f: fired2.append(("err", f)))

    if fu is not None and fu.get("when") == "reentrant":
        # what chaining "read the body, then issue the next request" does on a
        # pooled connection: the next request starts inside connectionLost(ResponseDone)
        body.on_lost = lambda reason: start_followup("reentrant") if reason.check(ResponseDone) else None

    def judge(pfx, method, delivered, fired, body, deliver, reqbody, malformed):
        """the oracle for one request/response exchange; returns the model"""
        m = ref_parse(method, delivered)
        pending = reqbody.startswith("pending")
        ctx.check(len(fired) == 1, pfx + "request-deferred-fired-%d-times" % len(fired), case,
                  f"fired={[(k, repr(v)[:80]) for k, v in fired]} delivered={delivered!r}")
        kind, val = fired[0]
        if m["head"] != "ok":
            ctx.check(kind == "err", pfx + "response-without-complete-headers", case,
                      f"got a response although the header block is {m['head']}: {delivered!r}")
            if reqbody == "none" and not malformed:
                if len(delivered) == 0:
                    ctx.check(val.check(ResponseNeverReceived) is not None, pfx + "no-bytes-not-ResponseNeverReceived", case, repr(val))
                else:
                    ctx.check(val.check(ResponseFailed) is not None and val.check(ResponseNeverReceived) is None,
                              pfx + "partial-head-not-ResponseFailed", case, repr(val))
            ctx.check(not body.events, pfx + "body-events-without-response", case, repr(body.events))
        else:
            if pending and m["end"] != "done" and kind == "err":
                # request still being written: RequestTransmissionFailed is the
                # documented outcome; only exactly-once is asserted (a response,
                # checked below like any other, is accepted as well).
                ctx.count("pending-request: failure")
            else:
                ctx.check(kind == "ok", pfx + "failure-although-headers-complete", case,
                          f"{val!r} delivered={delivered!r}")
                ctx.check(isinstance(val, Response) and val.code == m["code"], pfx + "wrong-status-code", case,
                          f"code={getattr(val, 'code', None)} expected {m['code']}")
                got_h = sorted((n.lower(), v) for n, vs in val.headers.getAllRawHeaders() for v in vs)
                exp_h = sorted((n, v) for n, v in m["headers"]
                               if n not in CONTROL or (n == b"content-length" and method == b"HEAD"))
                ctx.check(got_h == exp_h, pfx + "wrong-response-headers", case, f"got {got_h} expected {exp_h}")
                if deliver[0] != "never":
                    ev = body.events
                    ctx.check(bool(ev) and ev[0][0] == "made" and sum(1 for e in ev if e[0] == "made") == 1,
                              pfx + "body-makeConnection-not-once", case, repr(ev)[:500])
                    losts = [e for e in ev if e[0] == "lost"]
                    ctx.check(len(losts) == 1, pfx + "body-connectionLost-%d-times" % len(losts), case, repr(ev)[:500])
                    ctx.check(ev[-1][0] == "lost", pfx + "body-data-after-connectionLost", case, repr(ev)[:500])
                    data = b"".join(e[1] for e in ev if e[0] == "data")
                    ctx.check(data == m["body"], pfx + "body-bytes-differ", case,
                              f"delivered {data!r} expected {m['body']!r} ({m['framing']}, {m['region']})")
                    reason = losts[0][1]
                    if m["end"] == "done":
                        ctx.check(reason.check(ResponseDone) is not None, pfx + "complete-body-not-ResponseDone", case,
                                  f"{reason!r} framing={m['framing']}")
                    elif m["end"] == "close":
                        ctx.check(reason.check(PotentialDataLoss) is not None, pfx + "close-delimited-not-PotentialDataLoss", case,
                                  repr(reason))
                    else:
                        ctx.check(reason.check(ResponseFailed) is not None, pfx + "truncated-body-not-ResponseFailed", case,
                                  f"{reason!r} framing={m['framing']} region={m['region']} body so far {m['body']!r}")
        return m

    def signalled_at_completion(pfx, method, delivered, body):
        m = ref_parse(method, delivered)
        if m["head"] == "ok" and m["end"] == "done":
            # the whole body has arrived and a consumer is connected: it is
            # told so when the body completes, not when the connection goes
            # (on a persistent connection that might be never)
            n_lost = sum(1 for e in body.events if e[0] == "lost")
            ctx.check(n_lost == 1, pfx + "complete-body-not-signalled-before-connection-loss", case,
                      f"body complete ({m['framing']}) but consumer events are {body.events!r}"[:600])

    with harness.captured_log() as events:
        d = proto.request(req)
        d.addCallbacks(on_ok, on_err)
        pump()
        delivered = st_["delivered"]
        if not malformed and st_["delivered_body"]:
            signalled_at_completion("", method, delivered, body)
        if fu is not None:
            if fu.get("when") != "reentrant":
                start_followup("later")
            if fu_state["started"]:
                wire2 = build_wire(method2, fu["resp"])
                plan2 = wire2 if fu.get("trunc") is None else wire2[:fu["trunc"]]
                for seg in [s for s in harness.apply_cuts(plan2, fu.get("cuts", "whole")) if s]:
                    if tr.disconnecting or tr.disconnected:
                        break
                    proto.dataReceived(seg)
                    delivered2 += seg
                if fired2 and fired2[0][0] == "ok":
                    signalled_at_completion("followup:", method2, delivered2, body2)
        st_["dead"] = True
        loss = ConnectionLost if case.get("loss") == "lost" else ConnectionDone
        proto.connectionLost(Failure(loss("harness")))
        if deliver[0] != "never":
            give_body()

    # ---- oracle ----------------------------------------------------------
    m = judge("", method, delivered, fired, body, deliver, reqbody, malformed)
    if fu_state["started"]:
        judge("followup:", method2, delivered2, fired2, body2, ("cb",), "none", None)
    errs = harness.log_errors(events)
    if errs and reqbody == "none":
        e = errs[0]
        f = e.get("log_failure")
        ctx.violation("logged-error:" + (f.type.__name__ if f is not None else "event"), case,
                      (f.getTraceback()[-1500:] if f is not None else repr(e)[:800]))
    # a failure left in a Response/Deferred must not leak into the log later
    for k, v in fired + fired2:
        if k == "err":
            v.cleanFailure()

    # ---- bookkeeping -----------------------------------------------------
    if m["head"] == "ok":
        ctx.count("framing=" + m["framing"])
        ctx.count("end@" + m["region"])
        if m["region"] not in ("complete",) and (m["framing"] in ("cl", "chunked") and m["region"] != "headend"
                                                   or m["framing"] == "close" and m["region"] == "body"):
            ctx.nontrivial((method, wire, len(delivered)))
            ctx.count("nontrivial")
            if len(ctx.samples) < 5 and len(delivered) % 7 == 3:
                ctx.sample(case)
    else:
        ctx.count("end@head-" + m["head"] + ("-" + m["where"] if "where" in m else ""))
    ctx.count("deliver=" + deliver[0])
    ctx.count("ser=" + (resp.get("ser") or "hand"))
    if resp.get("interim"):
        ctx.count("with interim 1xx")
        ictl = {n.lower() for code, hs in resp["interim"] for n, v in hs} & CONTROL
        if ictl:
            ctx.count("interim 1xx carries a connection-control header")
        if ictl & {b"content-length", b"transfer-encoding"}:
            ctx.count("interim 1xx carries a framing header (CL/TE)")
    if method == b"HEAD" or resp["status"] in NO_BODY:
        ctx.count("bodiless (HEAD/204/304)")
    if malformed:
        ctx.count("malformed=" + malformed)
    if reqbody != "none":
        ctx.count("reqbody=" + reqbody)
    if honour and len(delivered) < len(plan):
        ctx.count("paused transport held data back")
    if st_["sync_segments"]:
        ctx.count("late deliverBody: held bytes delivered from inside resumeProducing()")
    if fu_state["started"]:
        m2 = ref_parse(method2, delivered2)
        bodiless2 = m2["head"] == "ok" and (m2["framing"] == "none" or (m2["framing"] == "cl" and m2["body"] == b"" and m2["end"] == "done"))
        ctx.count("follow-up request on the reused connection: " + fu_state["how"] + (", bodiless response" if bodiless2 else ""))
    elif fu is not None and trunc in (None, len(wire)):
        ctx.count("follow-up request not possible (connection not reusable)")


# --------------------------------------------------------------------------
# generators

def every_truncation(ctx, base):
    """Hypothesis body: one generated response, every truncation point."""
    wire = build_wire(base["method"], base["resp"])
    n = len(wire)
    first = True
    for t in list(range(n + 1)) + [None]:
        if not first:
            ctx.case()
        first = False
        sub = dict(base, trunc=t)
        try:
            guarded(ctx, run_case, sub)
        except KnownFindingSkip:
            continue


TOK = st.sampled_from([b"X-A", b"Server", b"x-b", b"ETag", b"Content-Type", b"Link"])
VAL = st.sampled_from([b"v", b"a b", b"text/html; charset=utf-8", b"W/\"x\"", b"1", b"a  b c", b""])


CTRL_HDR = st.sampled_from([[b"Content-Length", b"0"], [b"Content-Length", b"7"], [b"content-length", b"3"],
                            [b"Transfer-Encoding", b"chunked"], [b"Connection", b"close"],
                            [b"Connection", b"keep-alive"], [b"Keep-Alive", b"timeout=5"],
                            [b"Upgrade", b"h2c"], [b"Trailers", b"X-A"], [b"Proxy-Connection", b"close"],
                            [b"TE", b"trailers"]])


@st.composite
def response(draw):
    ser = draw(st.sampled_from(["hand", "hand", "h11"]))
    method = draw(st.sampled_from([b"GET", b"GET", b"GET", b"POST", b"HEAD"]))
    status = draw(st.sampled_from([200, 200, 200, 404, 500, 301, 204, 304, 206]))
    nchunks = draw(st.integers(0, 4))
    body = [draw(st.binary(min_size=1, max_size=20)) for _ in range(nchunks)]
    if draw(st.integers(0, 5)) == 0:
        # bodies that look like framing
        body = [draw(st.sampled_from([b"0\r\n\r\n", b"\r\n", b"5\r\nhello\r\n", b"HTTP/1.1 200 OK\r\n\r\n", b"\n\n"]))] + body[:2]
    headers = draw(st.lists(st.tuples(TOK, VAL).map(list), max_size=3))
    if ser == "h11":
        headers = [h for h in headers if h[1] != b""]
    # an interim response is ignored as a whole: whatever header it carries,
    # also connection-control / framing ones, says nothing about the final
    # response (h11 refuses to serialize some of those, so hand grammar only)
    ihdr = st.tuples(TOK, VAL.filter(bool)).map(list)
    if ser == "hand":
        ihdr = st.one_of(ihdr, CTRL_HDR, CTRL_HDR)
    interim = draw(st.lists(st.tuples(st.sampled_from([100, 102, 103]),
                                      st.lists(ihdr, max_size=2)).map(list),
                            max_size=2)) if draw(st.booleans()) else []
    resp = dict(ser=ser, status=status, body=body, headers=headers, interim=interim,
                conn_close=draw(st.booleans()))
    if ser == "h11":
        resp["framing"] = draw(st.sampled_from(["cl", "chunked", "close"]))
        resp["reason"] = draw(st.sampled_from([b"OK", b"", b"Not Found"]))
    else:
        resp["framing"] = draw(st.sampled_from(["cl", "cl", "chunked", "chunked", "close", "cl_dup", "cl_list", "chunked_cl"]))
        resp["reason"] = draw(st.sampled_from([b"OK", b"", None, b"Not Found", b"A B  C"]))
        resp["eol"] = draw(st.sampled_from([b"\r\n", b"\r\n", b"\n"]))
        resp["version"] = draw(st.sampled_from([b"HTTP/1.1", b"HTTP/1.1", b"HTTP/1.0"]))
        resp["fold"] = draw(st.booleans())
        resp["fpos"] = draw(st.integers(0, 3))
        if resp["framing"].startswith("chunked"):
            resp["hexupper"] = draw(st.booleans())
            resp["lead0"] = draw(st.booleans())
            resp["chunk_ext"] = draw(st.sampled_from([None, None, b";a=b", b";x", b";q=\"\xc3\xa9 \""]))
            resp["ext_last"] = draw(st.booleans())
            resp["trailers"] = draw(st.lists(st.tuples(TOK, VAL).map(list), max_size=2))
            resp["te"] = draw(st.sampled_from([b"chunked", b"chunked", b"Chunked", b"CHUNKED"]))
        if draw(st.integers(0, 11)) == 0:
            resp["malformed"] = draw(st.sampled_from(["status", "cl_conflict", "te_unknown", "chunk_size"]))
            if resp["malformed"] == "chunk_size":
                resp["framing"] = "chunked"
                resp["body"] = (body or [b"x"])[:3]
                resp["badsize"] = draw(st.sampled_from([b"0x1", b"-1", b"g", b"+1", b"1 ", b""]))
    deliver = draw(st.sampled_from([("cb",), ("cb",), ("after", 0), ("after", 1), ("after", 3), ("lost",), ("never",)]))
    case = dict(method=method, resp=resp,
                cuts=draw(harness.cuts_strategy(120, 6)),
                deliver=deliver,
                honour_pause=draw(st.sampled_from([False, True, "sync", "sync"])),
                persistent=draw(st.booleans()),
                loss=draw(st.sampled_from(["done", "lost"])),
                reqbody=draw(st.sampled_from(["none"] * 7 + ["done", "pending", "pending_cl"]))
                if method == b"POST" else "none")
    if draw(st.integers(0, 2)) == 0:
        # history: the connection is persistent and, once this response is
        # complete, carries a second request (issued from the body consumer's
        # connectionLost, as chained requests on a pooled connection are, or later)
        m2, r2 = FOLLOWUPS[draw(st.integers(0, len(FOLLOWUPS) - 1))]
        case["persistent"] = True
        resp["conn_close"] = False
        case["followup"] = dict(when=draw(st.sampled_from(["reentrant", "reentrant", "later"])), method=m2, resp=r2,
                                cuts=draw(st.sampled_from(["whole", "bytewise", [7], [20, 33]])),
                                trunc=draw(st.sampled_from([None, None, None, 5, 30])))
    return case


def _r(**kw):
    d = dict(ser="hand", status=200, reason=b"OK", headers=[], interim=[], body=[], framing="cl")
    d.update(kw)
    return d


SMALL = [
    (b"GET", _r(framing="cl", body=[b"hello"])),
    (b"GET", _r(framing="cl", body=[])),
    (b"GET", _r(framing="chunked", body=[b"ab", b"c"], trailers=[[b"T", b"v"]])),
    (b"GET", _r(framing="chunked", body=[b"abc"], chunk_ext=b";x", eol=b"\n")),
    (b"GET", _r(framing="close", body=[b"hel\nlo"], reason=None, eol=b"\n")),
    (b"GET", _r(framing="cl", body=[b"xy"], interim=[[100, []]], headers=[[b"X-A", b"a b"]], fold=True)),
    (b"HEAD", _r(framing="cl", body=[b"hello"])),
    (b"GET", _r(framing="cl", body=[b"hello"], status=304)),
    (b"GET", _r(framing="chunked", body=[b"q"], status=204)),
    (b"GET", _r(framing="cl_dup", body=[b"abc"], conn_close=True)),
    (b"GET", _r(ser="h11", framing="chunked", body=[b"ab", b"c"])),
    (b"GET", _r(framing="close", body=[b"abc"], interim=[[100, [[b"Content-Length", b"0"]]]])),
    (b"GET", _r(framing="cl", body=[b"abcd"], interim=[[103, [[b"Transfer-Encoding", b"chunked"], [b"Connection", b"close"]]]])),
    (b"GET", _r(ser="h11", framing="close", body=[b"abc"])),
]

DELIVERS = [("cb",), ("after", 0), ("after", 1), ("lost",)]

# responses to a second request on the same connection (half of them bodiless)
FOLLOWUPS = [
    (b"GET", _r(framing="cl", body=[], status=204)),
    (b"GET", _r(framing="cl", body=[b"zz"], status=304)),
    (b"HEAD", _r(framing="cl", body=[b"hello"])),
    (b"GET", _r(framing="cl", body=[])),
    (b"GET", _r(framing="cl", body=[b"second"])),
    (b"GET", _r(framing="chunked", body=[b"se", b"cond"])),
    (b"GET", _r(framing="close", body=[b"tail"])),
    (b"GET", _r(ser="h11", framing="chunked", body=[b"h11"], interim=[[100, []]])),
]


def _small_cases(idx, thorough):
    method, resp = SMALL[idx]
    wire = build_wire(method, resp)
    n = len(wire)
    head_end = ref_parse(method, wire)["head_end"]
    for t in range(n + 1):
        # a loss inside the header block: every 4th single cut is enough (the
        # line splitter is C18's subject); from the end of the head on: all.
        cutsets = ["whole", "bytewise"] + [[c] for c in range(1, t)
                                           if thorough or t >= head_end - 2 or (c + t) % 4 == 0]
        if thorough:
            cutsets += [[a, b] for a in range(1, t) for b in range(a + 1, t) if (a + b + t) % 3 == 0]
        for ci, cuts in enumerate(cutsets):
            for di, deliver in enumerate(DELIVERS):
                # in-callback delivery resumes the transport before control
                # returns, so a transport that honours the pause is the same case
                # ... and the transport is only ever paused once the header block is complete
                for honour in ((False,) if deliver[0] == "cb" or t < head_end else (False, True, "sync")):
                    yield dict(method=method, resp=resp, trunc=t, cuts=cuts, deliver=deliver,
                               honour_pause=honour, persistent=bool((t + ci + di) % 2),
                               loss="done" if (t + ci) % 3 else "lost", reqbody="none")
    # the complete response on a persistent connection, followed by a second request
    for fi, (m2, r2) in enumerate(FOLLOWUPS):
        for when in ("reentrant", "later"):
            for di, deliver in enumerate(DELIVERS[:3]):
                for cuts in ("whole", "bytewise"):
                    yield dict(method=method, resp=resp, trunc=None, cuts=cuts, deliver=deliver,
                               honour_pause=[False, True, "sync"][(fi + di) % 3], persistent=True,
                               loss="done", reqbody="none",
                               followup=dict(when=when, method=m2, resp=r2, cuts=cuts, trunc=None))


def _small_shard(ctx, idx):
    enumerate_run(ctx, _small_cases(idx, ctx.thorough), run_case)


def _hyp_shard(ctx, i):
    hyp_run(ctx, response(), every_truncation, ctx.pick(0, 2500), label=f"shard{i}")


def run(ctx):
    import h11, twisted.web._newclient, twisted.internet.testing  # noqa: before the fork, so the shards share the imports
    ctx.shards(_small_shard, list(range(len(SMALL))))
    ctx.extra["small_scope"] = f"{len(SMALL)} fixed responses x every truncation x (whole, bytewise, every single cut from the end of the header block on, every 4th inside it) x 4 deliverBody timings x transport pause behaviour (ignore / hold / hold and deliver from resumeProducing), plus 8 follow-up responses x (re-entrant, later) on the reused connection"
    ctx.exhaustive = False
    if ctx.has_violation():
        return
    if ctx.thorough:
        ctx.shards(_hyp_shard, list(range(16)))
    else:
        hyp_run(ctx, response(), every_truncation, 400, label="responses")
