"""C24 - what the HTTP/1.1 client writes for a request is exactly that request.

A generated (method, target, header set, body producer) is written through
Request.writeTo (directly or via HTTP11ClientProtocol.request).  The bytes on
the transport are parsed by a strict structural HTTP/1.1 request parser written
for this check (primary oracle) and, where the header values are valid field
content, by h11 as a server (second opinion).  Invalid methods / targets must
be refused with nothing written.
"""
import re

from hypothesis import strategies as st

from lib.core import hyp_run, enumerate_run

META = dict(
    property="C24",
    level="exploration",
    technique="Hypothesis-generated requests and body-producer write schedules; strict structural request parser + h11 differential",
    level_text="Random methods/targets (valid tokens and every class of invalid byte), header sets (multi-valued, odd whitespace, CR/LF and control bytes in values), bodies absent / known length / unknown length with sync and async write schedules including empty writes and producers that write more or less than they declared, and twisted.web.client.FileBodyProducer over seekable and stream inputs with pipe-like short reads and read sizes 1..65536. Header names also as str, and invalid names (offered to Headers twice: acceptance must not depend on history). Plus a complete enumeration of all 256 byte values at three positions of the method and of the target. Sizes: <= 6 headers, <= 6 writes of <= 40 bytes (some up to 300).",
    level_note="Trusted: the strict parser in this file (RFC 9112 request-line, field lines, Content-Length / chunked framing, nothing after the message) and h11 0.16. Header names that collide with the framing headers the client adds itself (Host, Connection, Content-Length, Transfer-Encoding) are not generated. StringTransport is the transport double.",
    design_ref="§5 C24",
    rule="case = (method, target, headers, persistent, body writes + declared length + how many writes happen synchronously, API path). non-trivial = valid request whose body has unknown length and is non-empty (chunked framing exercised); distinct by (method, target, headers, writes, sync).",
)

TCHAR = b"!#$%&'*+-.^_`|~0123456789ABCDEFGHIJKLMNOPQRSTUVWXYZabcdefghijklmnopqrstuvwxyz"
FRAMING = {b"content-length", b"transfer-encoding", b"connection"}


def is_token(b):
    return len(b) > 0 and all(c in TCHAR for c in b)


def is_target(b):
    return len(b) > 0 and all(0x21 <= c <= 0x7E for c in b)


class Malformed(Exception):
    def __init__(self, why):
        Exception.__init__(self, why)
        self.why = why


_REQLINE = re.compile(rb"\A([!#$%&'*+\-.^_`|~0-9A-Za-z]+) ([\x21-\x7e]+) HTTP/1\.1\Z")
_HEX = re.compile(rb"\A[0-9A-Fa-f]+\Z")


def strict_chunked(data):
    """Decode one complete chunked body; -> (body, leftover). Raises Malformed."""
    pos = 0
    out = []
    while True:
        i = data.find(b"\r\n", pos)
        if i < 0:
            raise Malformed("chunked-truncated-size-line")
        sz = data[pos:i]
        if not _HEX.match(sz):
            raise Malformed("chunked-bad-size-line")
        n = int(sz, 16)
        pos = i + 2
        if n == 0:
            if data[pos:pos + 2] != b"\r\n":
                raise Malformed("chunked-bad-terminator")
            return b"".join(out), data[pos + 2:]
        if len(data) < pos + n + 2:
            raise Malformed("chunked-truncated-data")
        out.append(data[pos:pos + n])
        pos += n
        if data[pos:pos + 2] != b"\r\n":
            raise Malformed("chunked-missing-crlf-after-data")
        pos += 2


def strict_parse(data):
    """-> dict(method, target, headers=[(lowername, value)], framing, body, leftover)."""
    i = data.find(b"\r\n\r\n")
    if i < 0:
        raise Malformed("no-end-of-header-block")
    lines = data[:i].split(b"\r\n")
    rest = data[i + 4:]
    for l in lines:
        if b"\r" in l or b"\n" in l:
            raise Malformed("bare-cr-or-lf-in-head")
    m = _REQLINE.match(lines[0])
    if not m:
        raise Malformed("bad-request-line")
    headers = []
    for l in lines[1:]:
        name, sep, value = l.partition(b":")
        if not sep or not is_token(name):
            raise Malformed("bad-field-line")
        headers.append((name.lower(), value.strip(b" \t")))
    te = [v for n, v in headers if n == b"transfer-encoding"]
    cl = [v for n, v in headers if n == b"content-length"]
    if te and cl:
        raise Malformed("both-content-length-and-transfer-encoding")
    if te:
        if te != [b"chunked"]:
            raise Malformed("unknown-transfer-encoding")
        body, leftover = strict_chunked(rest)
        framing = "chunked"
    elif cl:
        if len(cl) != 1 or not cl[0].isdigit():
            raise Malformed("bad-content-length")
        n = int(cl[0])
        if len(rest) < n:
            raise Malformed("body-shorter-than-content-length")
        body, leftover = rest[:n], rest[n:]
        framing = "cl"
    else:
        body, leftover = b"", rest
        framing = "none"
    return dict(method=m.group(1), target=m.group(2), headers=headers, framing=framing,
                body=body, leftover=leftover)


def norm_value(v):
    """What a recipient may legitimately see for a generated field value: line
    breaks (which the client must not let through) read as whitespace; runs of
    whitespace are not significant for the comparison."""
    return _collapse(v.replace(b"\r", b" ").replace(b"\n", b" "))


def _collapse(v):
    return b" ".join(x for x in v.replace(b"\t", b" ").split(b" ") if x)


_H11_VALUE = re.compile(rb"\A([\x21-\x7e\x80-\xff]([ \t\x21-\x7e\x80-\xff]*[\x21-\x7e\x80-\xff])?)?\Z")


def h11_parse(data):
    import h11
    conn = h11.Connection(h11.SERVER, max_incomplete_event_size=1 << 20)
    conn.receive_data(data)
    req = None
    body = []
    while True:
        ev = conn.next_event()
        if ev is h11.NEED_DATA:
            raise Malformed("h11-incomplete")
        if type(ev) is h11.Request:
            req = ev
        elif type(ev) is h11.Data:
            body.append(bytes(ev.data))
        elif type(ev) is h11.EndOfMessage:
            break
        else:
            raise Malformed("h11-unexpected-" + type(ev).__name__)
    leftover = conn.trailing_data[0]
    return dict(method=bytes(req.method), target=bytes(req.target),
                headers=[(bytes(n), bytes(v)) for n, v in req.headers],
                body=b"".join(body), leftover=bytes(leftover))


_OBJ = None


def _mk():
    from twisted.internet.defer import Deferred
    from twisted.web.iweb import IBodyProducer, UNKNOWN_LENGTH
    from zope.interface import implementer

    @implementer(IBodyProducer)
    class Producer:
        def __init__(self, declared, writes, sync, fire_sync):
            self.length = UNKNOWN_LENGTH if declared is None else declared
            self.writes = list(writes)
            self.sync = sync
            self.fire_sync = fire_sync
            self.stopped = 0
            self.started = 0
            self.consumer = None
            self.next = 0
            self.excess = None

        def _write_upto(self, k):
            while self.next < min(k, len(self.writes)) and not self.stopped:
                w = self.writes[self.next]
                self.next += 1
                self.consumer.write(w)

        def startProducing(self, consumer):
            self.started += 1
            self.consumer = consumer
            self.d = Deferred()
            self._write_upto(self.sync)
            if self.fire_sync and self.next == len(self.writes) and not self.stopped:
                self.d.callback(None)
            return self.d

        def finish(self):
            self._write_upto(len(self.writes))
            if not self.stopped and not self.d.called:
                self.d.callback(None)

        def stopProducing(self):
            self.stopped += 1

        def pauseProducing(self):
            pass

        def resumeProducing(self):
            pass

    class Stream:
        """file-like input whose read(n) may return fewer than n bytes before the
        end (pipe / socket file / raw stream): never across a piece boundary"""

        def __init__(self, pieces):
            self.data = b"".join(pieces)
            self.bounds = []
            t = 0
            for p in pieces:
                t += len(p)
                self.bounds.append(t)
            self.pos = 0
            self.reads = 0
            self.closed = False

        def read(self, n=-1):
            self.reads += 1
            if self.closed:
                return b""
            end = len(self.data)
            for b in self.bounds:
                if b > self.pos:
                    end = b
                    break
            if n is not None and n >= 0:
                end = min(end, self.pos + n)
            out = self.data[self.pos:end]
            self.pos = end
            return out

        def close(self):
            self.closed = True

    class SeekableStream(Stream):
        def seek(self, off, whence=0):
            self.pos = off if whence == 0 else (self.pos + off if whence == 1 else len(self.data) + off)
            return self.pos

        def tell(self):
            return self.pos

    class Sched:
        """scheduler for a task.Cooperator owned by the harness"""

        def __init__(self):
            self.q = []

        def __call__(self, f):
            self.q.append(f)
            sched = self

            class Call:
                def cancel(self_):
                    if f in sched.q:
                        sched.q.remove(f)
            return Call()

        def pump(self, limit=10000):
            n = 0
            while self.q and n < limit:
                n += 1
                self.q.pop(0)()

    Producer.Stream = Stream
    Producer.SeekableStream = SeekableStream
    Producer.Sched = Sched
    return Producer


def run_case(ctx, case):
    global _OBJ
    from twisted.internet.testing import StringTransport
    from twisted.python.failure import Failure
    from twisted.web._newclient import (HTTP11ClientProtocol, Request, RequestGenerationFailed,
                                        WrongBodyLength)
    from twisted.web.http_headers import Headers
    if _OBJ is None:
        _OBJ = _mk()
    Producer = _OBJ

    method, uri = case["method"], case["uri"]
    hdrs = [(n, v) for n, v in case["headers"]]
    persistent = bool(case.get("persistent"))
    via = case.get("via", "writeTo")
    set_after = bool(case.get("set_after"))
    b = case.get("body")
    valid = is_token(method) and is_target(uri)

    # The header set: what Headers accepts.  A name it refuses (InvalidHeaderName)
    # is offered a second time, as a later request of the same process would:
    # whether a name is acceptable must not depend on what happened before.
    from twisted.web.http_headers import InvalidHeaderName
    headers = Headers()
    accepted = []
    bad_name_accepted = None
    for n, v in hdrs:
        nb = n.encode("iso-8859-1") if isinstance(n, str) else n
        vb = v.encode("utf8") if isinstance(v, str) else v
        for attempt in (1, 2):
            try:
                headers.addRawHeader(n, v)
            except InvalidHeaderName:
                continue
            accepted.append((nb, vb))
            if not is_token(nb):
                bad_name_accepted = (nb, attempt)
            break
        if not is_token(nb):
            ctx.count("invalid header name offered (twice)")
        if isinstance(n, str):
            ctx.count("str header name")
    hdrs = accepted
    producer = None
    file_stream = None
    if b is not None and b.get("file"):
        from twisted.internet import task
        from twisted.web.client import FileBodyProducer
        from twisted.web.iweb import UNKNOWN_LENGTH
        pieces = [p for p in b["pieces"] if p]
        file_stream = (Producer.SeekableStream if b.get("seekable") else Producer.Stream)(pieces)
        sched = Producer.Sched()
        per_tick = bool(b.get("per_tick"))
        coop = task.Cooperator(terminationPredicateFactory=lambda: (lambda: per_tick), scheduler=sched)
        producer = FileBodyProducer(file_stream, cooperator=coop, readSize=b["readSize"])
        total_ = len(file_stream.data)
        ctx.check(producer.length == (total_ if b.get("seekable") else UNKNOWN_LENGTH), "file-body-length-wrong", case,
                  f"length={producer.length!r} for {total_} bytes, seekable={b.get('seekable')}")
        orig_start = producer.startProducing

        def counted_start(consumer):
            producer.started += 1
            return orig_start(consumer)
        producer.started = 0
        producer.startProducing = counted_start
        producer.finish = sched.pump
        short = any(len(p) < b["readSize"] for p in pieces[:-1])
        fileinfo = dict(short_read_before_eof=short, readSize=b["readSize"], seekable=bool(b.get("seekable")))
        # from here on the file body is "a body whose writes are the pieces"
        b = dict(declared=total_ if b.get("seekable") else None, writes=pieces, sync=0, file=fileinfo)
    elif b is not None:
        producer = Producer(b["declared"], b["writes"], b.get("sync", 0), bool(b.get("fire_sync")))
    tr = StringTransport()
    outcome = []          # ("ok", None) | ("err", Failure)
    refused = None

    req = None
    try:
        if set_after:
            req = Request(b"GET", b"/", headers, producer, persistent)
            req.method = method
            req.uri = uri
        else:
            req = Request(method, uri, headers, producer, persistent)
    except ValueError as e:
        refused = e
    proto = None
    if req is not None:
        if via == "protocol":
            proto = HTTP11ClientProtocol()
            proto.makeConnection(tr)
            d = proto.request(req)
            d.addCallbacks(lambda r: outcome.append(("ok", r)), lambda f: outcome.append(("err", f)))
            if outcome and outcome[0][0] == "err" and outcome[0][1].check(RequestGenerationFailed):
                inner = outcome[0][1].value.reasons[0]
                if inner.check(ValueError):
                    refused = inner.value
        else:
            try:
                d = req.writeTo(tr)
            except ValueError as e:
                refused = e
                d = None
            if d is not None:
                d.addCallbacks(lambda r: outcome.append(("ok", r)), lambda f: outcome.append(("err", f)))
    wire_before_async = tr.value()

    # ---- refusal half ------------------------------------------------------
    if not valid:
        ctx.count("invalid method" if not is_token(method) else "invalid target")
        ctx.check(refused is not None, "invalid-%s-not-refused" % ("method" if not is_token(method) else "target"),
                  case, f"method={method!r} target={uri!r} wrote {tr.value()!r}")
        ctx.check(tr.value() == b"", "bytes-written-before-refusal", case, repr(tr.value()))
        ctx.check(producer is None or producer.started == 0, "body-producer-started-before-refusal", case, "")
        ctx.check(file_stream is None or file_stream.reads == 0, "body-file-read-before-refusal", case, "")
        return
    ctx.check(refused is None, "valid-request-refused", case, f"method={method!r} target={uri!r}: {refused!r}")

    # ---- let the producer finish --------------------------------------------
    if producer is not None:
        ctx.check(producer.started == 1, "startProducing-called-%d-times" % producer.started, case, "")
        producer.finish()
    wire = tr.value()
    if via == "writeTo":
        ctx.check(len(outcome) == 1, "writeTo-deferred-fired-%d-times" % len(outcome), case, repr(outcome))
        res_kind, res_val = outcome[0]
    else:
        # via the protocol the request Deferred stays pending (waiting for a
        # response) unless generation failed
        ctx.check(len(outcome) <= 1, "request-deferred-fired-twice", case, repr(outcome))
        res_kind, res_val = outcome[0] if outcome else ("ok", None)

    total = sum(len(w) for w in b["writes"]) if b is not None else 0
    mismatch = b is not None and b["declared"] is not None and b["declared"] != total

    # ---- a producer that lies about its length --------------------------------
    if mismatch:
        ctx.count("declared length != written: " + ("too many" if total > b["declared"] else "too few"))
        ctx.check(res_kind == "err", "wrong-body-length-not-reported", case,
                  f"declared {b['declared']} wrote {total}; wire={wire!r}")
        f = res_val
        if via == "protocol":
            ctx.check(f.check(RequestGenerationFailed) is not None, "wrong-body-length-not-RequestGenerationFailed", case, repr(f))
            f = f.value.reasons[0]
        ctx.check(f.check(WrongBodyLength) is not None, "wrong-body-length-wrong-failure", case, repr(f))
        i = wire.find(b"\r\n\r\n")
        ctx.check(i >= 0, "unparsable:no-end-of-header-block", case, repr(wire))
        sent_body = wire[i + 4:]
        ctx.check(len(sent_body) <= b["declared"], "more-body-bytes-than-declared-on-the-wire", case,
                  f"declared {b['declared']} sent {len(sent_body)}: {sent_body!r}")
        joined = b"".join(b["writes"])
        ctx.check(joined.startswith(sent_body), "body-bytes-differ", case, f"{sent_body!r} vs {joined!r}")
        if res_kind == "err":
            res_val.cleanFailure()
        return

    ctx.check(res_kind == "ok", "request-generation-failed", case, f"{res_val!r}")

    # ---- primary oracle: strict structural parse --------------------------------
    exp_body = b"".join(b["writes"]) if b is not None else b""
    unknown = b is not None and b["declared"] is None
    has_empty_write = unknown and any(len(w) == 0 for w in b["writes"])

    def classify(default):
        if bad_name_accepted is not None:
            return ("invalid-header-name-on-the-wire:" +
                    ("accepted-at-once" if bad_name_accepted[1] == 1 else "accepted-after-being-refused"))
        # the one known root cause gets its own signature: every write, also
        # an empty one, became a chunk of its own
        if has_empty_write:
            i = wire.find(b"\r\n\r\n")
            naive = b"".join(b"%x\r\n%s\r\n" % (len(w), w) for w in b["writes"]) + b"0\r\n\r\n"
            if i >= 0 and wire[i + 4:] == naive:
                return "chunked-empty-write-emits-last-chunk"
        return default

    try:
        p = strict_parse(wire)
    except Malformed as e:
        ctx.violation(classify("unparsable:" + e.why), case, f"{e.why}: {wire!r}")
    if p["leftover"]:
        ctx.violation(classify("bytes-after-the-request"), case,
                      f"parsed body {p['body']!r}, then {p['leftover']!r} follows; wire={wire!r}")
    ctx.check(p["method"] == method, "method-differs", case, f"{p['method']!r} vs {method!r}")
    ctx.check(p["target"] == uri, "target-differs", case, f"{p['target']!r} vs {uri!r}")
    ctx.check(p["body"] == exp_body, classify("body-differs"), case, f"{p['body']!r} vs {exp_body!r}")
    if b is None:
        cls = [v for n, v in p["headers"] if n == b"content-length"]
        ctx.check(p["framing"] == "none" or cls == [b"0"], "framing-for-absent-body", case, repr(p["headers"]))
    elif unknown:
        ctx.check(p["framing"] == "chunked", "unknown-length-body-not-chunked", case, repr(p["headers"]))
    else:
        ctx.check(p["framing"] == "cl", "known-length-body-not-content-length", case, repr(p["headers"]))
    got = sorted((n, _collapse(v)) for n, v in p["headers"] if n not in FRAMING)
    exp = sorted((n.lower(), norm_value(v)) for n, v in hdrs)
    ctx.check(got == exp, classify("headers-differ"), case, f"on the wire {got}\nintended {exp}\nwire={wire!r}")
    conn = [v.lower() for n, v in p["headers"] if n == b"connection"]
    ctx.check(conn == ([] if persistent else [b"close"]), "connection-header-wrong", case,
              f"persistent={persistent} Connection={conn}")

    # ---- second opinion: h11 ---------------------------------------------------
    wire_values = [v for n, v in p["headers"]]
    if all(_H11_VALUE.match(v) for v in wire_values):
        ctx.count("h11 consulted")
        import h11
        try:
            q = h11_parse(wire)
        except Malformed as e:
            ctx.violation("h11:" + e.why, case, repr(wire))
        except h11.RemoteProtocolError as e:
            ctx.violation("h11-rejects-request", case, f"{e!r}: {wire!r}")
        ctx.check(q["method"] == method and q["target"] == uri, "h11-method-or-target-differs", case, repr(q))
        ctx.check(q["body"] == exp_body and not q["leftover"], "h11-body-differs", case,
                  f"{q['body']!r} + {q['leftover']!r} vs {exp_body!r}")
        qh = sorted((n, _collapse(v)) for n, v in q["headers"] if n not in FRAMING)
        ctx.check(qh == exp, "h11-headers-differ", case, f"{qh} vs {exp}")
    else:
        ctx.count("h11 not consulted (control bytes in a value)")

    # ---- bookkeeping ------------------------------------------------------------
    kind = "none" if b is None else ("unknown" if unknown else "known")
    ctx.count("body=" + kind)
    if b is not None and b.get("file"):
        ctx.count("body from FileBodyProducer (" + ("seekable" if b["file"]["seekable"] else "stream") + ")")
        if b["file"]["short_read_before_eof"]:
            ctx.count("file body: short read before the end of the input")
    ctx.count("via=" + via + (" set_after" if set_after else ""))
    if b is not None:
        n = len(b["writes"])
        s = min(b.get("sync", 0), n)
        ctx.count("writes " + ("all sync" if s == n else "all async" if s == 0 else "mixed"))
        if any(len(w) == 0 for w in b["writes"]):
            ctx.count("has empty write (" + kind + ")")
        if any(len(w) >= 16 for w in b["writes"]):
            ctx.count("has write >= 16 bytes")
    if any(b"\r" in v or b"\n" in v for n, v in hdrs):
        ctx.count("CR/LF in a header value")
    if unknown and exp_body:
        ctx.nontrivial((method, uri, hdrs, b["writes"], b.get("sync", 0)))
        ctx.count("nontrivial")
        if len(exp_body) % 5 == 2:
            ctx.sample(case)


# --------------------------------------------------------------------------
# generators

_tok = st.text(alphabet=TCHAR.decode(), min_size=1, max_size=8).map(lambda s: s.encode())
METHOD_OK = st.one_of(st.sampled_from([b"GET", b"POST", b"PUT", b"HEAD", b"DELETE", b"OPTIONS", b"PATCH"]), _tok)
BADBYTES = st.sampled_from([b" ", b"\r", b"\n", b"\r\n", b"\t", b"\x00", b"\x7f", b"\x80", b"\xff", b"\x0b", b"\x1f",
                            b"(", b")", b",", b"/", b":", b";", b"<", b"=", b">", b"?", b"@", b"[", b"\\", b"]",
                            b"{", b"}", b"\"", b"\xc3\xa9"])
TARGET_OK = st.one_of(
    st.sampled_from([b"/", b"*", b"/a/b?c=d&e=%20", b"http://example.com:8080/x?y#z", b"example.com:443",
                     b"/%00/~!$&'()*+,;=:@[]{}|\\^`\"<>"]),
    st.binary(min_size=1, max_size=12).map(lambda x: bytes(0x21 + c % 94 for c in x)))
TARGET_BAD = st.sampled_from([b" ", b"\r", b"\n", b"\r\n", b"\t", b"\x00", b"\x7f", b"\x80", b"\xff", b"\x0b", b"\x1f",
                              b"\x20", b"\xc3\xa9", b"\x0c", b"\x1b"])


@st.composite
def insert_bad(draw, base, bad):
    s = draw(base)
    x = draw(bad)
    i = draw(st.integers(0, len(s)))
    return s[:i] + x + s[i:]


HNAME = st.one_of(st.sampled_from([b"Accept", b"User-Agent", b"X-Thing", b"cookie", b"ETag", b"te", b"x", b"A-b-C"]),
                  _tok).filter(lambda n: n.lower() not in FRAMING and n.lower() != b"host")
HNAME_BAD = st.one_of(
    st.sampled_from([b"X-Trace\r\nX-Admin", b"X A", b"", b"X:", b"X\n", b"\xe9", b"A\x00B", b"X-Bad ",
                     b"X\r\n\r\nGET /evil HTTP/1.1\r\nHost", b"(x)", "X Str", "X-Str\r\nY", "caf\u00e9"]),
    insert_bad(HNAME, BADBYTES))
_vtext = st.binary(max_size=14).map(lambda x: bytes(0x20 + c % 95 for c in x))
HVALUE = st.one_of(
    st.sampled_from([b"", b"a", b"text/html, */*;q=0.8", b" lead", b"trail ", b"a  b", b"\xc3\xa9t\xe9", b"x\ty"]),
    _vtext, _vtext,
    st.sampled_from([b"a\r\nX-Injected: 1", b"a\nb", b"a\rb", b"\r\n", b"a\r\n\r\nGET /2 HTTP/1.1", b"a\r\n b",
                     b"nul\x00", b"\x7f", b"\x01\x02", b"a\x0bb", b"a\x0cb", b"a\x1c\x1d\x1eb", b"a\x85b"]))
_WRITE = st.one_of(
    st.binary(min_size=1, max_size=12), st.binary(min_size=1, max_size=40),
    st.sampled_from([b"0\r\n\r\n", b"\r\n", b"0", b"5\r\nhello\r\n", b"x" * 10, b"y" * 16, b"z" * 255, b"w" * 300,
                     b"GET / HTTP/1.1\r\nHost: b\r\n\r\n"]))
# empty writes are legal for an IConsumer; kept rare so that most unknown-length
# cases are not swallowed by the known finding about them
WRITE = st.integers(0, 14).flatmap(lambda k: st.just(b"") if k == 0 else _WRITE)


@st.composite
def request(draw):
    cls = draw(st.integers(0, 9))
    method = draw(METHOD_OK)
    uri = draw(TARGET_OK)
    if cls == 0:
        method = draw(st.one_of(insert_bad(METHOD_OK, BADBYTES), st.just(b"")))
    elif cls == 1:
        uri = draw(st.one_of(insert_bad(TARGET_OK, TARGET_BAD), st.just(b"")))
    headers = [[b"Host", draw(st.sampled_from([b"example.com", b"a:8080", b"[::1]"]))]]
    for _ in range(draw(st.integers(0, 5))):
        k = draw(st.integers(0, 11))
        if k == 0:
            headers.append([draw(HNAME_BAD), draw(HVALUE)])
        elif k == 1:
            headers.append([draw(HNAME).decode("ascii"), draw(st.sampled_from(["v", "caf\u00e9", "a b", ""]))])
        else:
            headers.append([draw(HNAME), draw(HVALUE)])
    k = draw(st.integers(0, len(headers) - 1))
    headers = headers[1:k + 1] + headers[:1] + headers[k + 1:]
    bk = draw(st.sampled_from(["none", "known", "known", "unknown", "unknown", "file", "file"]))
    body = None
    if bk == "file":
        # the stock producer of twisted.web.client over a file-like object whose
        # reads are segmented like a pipe's: each read returns at most one piece
        body = dict(file=True, pieces=draw(st.lists(_WRITE, max_size=5)),
                    readSize=draw(st.sampled_from([1, 2, 3, 4, 5, 8, 16, 64, 65536])),
                    seekable=draw(st.booleans()), per_tick=draw(st.booleans()))
    elif bk != "none":
        writes = draw(st.lists(WRITE, max_size=6))
        if bk == "known" and draw(st.integers(0, 3)) == 0:
            writes = [w for w in writes] or [b""]
        total = sum(len(w) for w in writes)
        declared = None
        if bk == "known":
            declared = total
            if draw(st.integers(0, 5)) == 0:
                declared = max(0, total + draw(st.sampled_from([-1, 1, -3, 5, -total])))
        body = dict(declared=declared, writes=writes, sync=draw(st.integers(0, len(writes))),
                    fire_sync=draw(st.booleans()))
    return dict(method=method, uri=uri, headers=headers, persistent=draw(st.booleans()),
                via=draw(st.sampled_from(["writeTo", "protocol"])),
                set_after=draw(st.sampled_from([False, False, True])), body=body)


def _byte_cases():
    """every byte value at the start / middle / end of a method and of a target,
    through both validation sites (constructor; writeTo after assignment)."""
    for v in range(256):
        c = bytes([v])
        for pos in range(3):
            m = [c + b"ET", b"G" + c + b"T", b"GE" + c][pos]
            u = [c + b"ab", b"/" + c + b"b", b"/a" + c][pos]
            for set_after in (False, True):
                for via in ("writeTo", "protocol"):
                    base = dict(headers=[[b"Host", b"a"]], persistent=False, via=via, set_after=set_after)
                    yield dict(base, method=m, uri=b"/", body=None)
                    yield dict(base, method=b"POST", uri=u,
                               body=dict(declared=None, writes=[b"abc"], sync=1, fire_sync=True))


def _hyp_shard(ctx, i):
    hyp_run(ctx, request(), run_case, 15000, label=f"shard{i}")


def run(ctx):
    enumerate_run(ctx, _byte_cases(), run_case, stop_after_violation=False)
    ctx.extra["byte_enumeration"] = "all 256 byte values x 3 positions in method and in target x 2 validation sites x 2 API paths"
    ctx.exhaustive = False
    if ctx.has_violation():
        return
    if ctx.thorough:
        ctx.shards(_hyp_shard, list(range(16)))
    else:
        hyp_run(ctx, request(), run_case, 3000, label="requests")
