"""C25 — static.File byte ranges vs an RFC 9110 §14 reference, through a real Site/HTTPChannel."""
import contextlib
import itertools
import os
import re

from hypothesis import strategies as st

from lib.core import hyp_run, enumerate_run
from lib import harness

META = dict(
    property="C25",
    level="exploration",
    technique="grammar-generated Range headers + complete small scope, served by static.File over Site/HTTPChannel with an owned cooperator, compared with an RFC 9110 §14 reference; multipart bodies split by an independent MIME parser",
    level_text="Every case is one GET/HEAD for a generated file (size 0..64 KiB+1) with a generated Range value; status, Content-Range, Content-Length, body (and every multipart part) are compared with a reference written from RFC 9110 §14.1-14.4/§15.3.7/§15.5.17, any 5xx or logged error is a violation, and a plain follow-up request on the same connection must still be answered. A case may be a short history: the same Site (in mode putchild the same static.File object, as installed with putChild) serves further requests after the file was replaced by content of another size; every response is judged against the content the file has when the request arrives. Some cases serve through the documented openForReading()/getFileSize() hooks a logical file that is a window of a longer file on disk (hidden header/trailer), so that the logical and the on-disk size differ. Small scope (sizes 0..4, all single specs and all pairs of valid specs over positions 0..4) is enumerated completely; everything else is sampled.",
    level_note="Reference parser/oracle trusted. Non-strict spellings (unit case, white space other than SP/HT, '+1', '1_0', negative numbers) are accepted either as malformed (200) or by their Python-int reading; an empty range set and a satisfiable suffix on an empty file accept 200 or 416. HEAD accepts 200-with-full-length or the GET-equivalent status. StaticProducer.bufferSize is lowered (256..4096) in some cases so that the multi-read paths run with small files; File.openForReading returns a wrapper that refuses read(-1) like read(-2) and enforces a read-call budget, so that an endless producer loop becomes a logged failure instead of hanging the check. If-Range/conditional requests, several Range header lines and HTTP/1.0 are not generated.",
    design_ref="§5 C25",
    rule="case = (size, fill, method, Range bytes or None, bufsize [, mode dir|putchild, then=[further requests, each after replacing the file by other content of another size]]). Range values come from a grammar over positions relative to the file size (0,1,2,size-2..size+1,2*size,huge), spec kinds (a-b, a-, -n, reversed, junk), numeral decorations, unit/separator variants and raw garbage. non-trivial = header has >= 2 specs, or a suffix >= size, or size 0 (with a Range header); distinct by (size, method, Range bytes, bufsize).",
)

FIXED_DATE = b"Thu, 01 Jan 1970 00:00:00 GMT"
PINNED_TIME = 1700000000.0          # -> boundary "60a5a2e4b5000" + "1234": responses are a pure function of the case
PINNED_PID = 0x1234
_PATTERN = bytes(b for b in range(256) if b != 0x2D)  # no '-': a MIME delimiter cannot occur in the content


def make_content(size, fill):
    k = fill % len(_PATTERN)
    pat = _PATTERN[k:] + _PATTERN[:k]
    return (pat * (size // len(pat) + 1))[:size]


# --------------------------------------------------------------------------
# reference: RFC 9110 §14

_SPEC = re.compile(rb"(\d+)-(\d*)|-(\d+)")


def strict_parse(v):
    """ranges-specifier per RFC 9110 §14.1.1 with unit 'bytes' -> [(first,last|None) | (None,suffix)] or None."""
    if not v.startswith(b"bytes="):
        return None
    specs = []
    for el in v[6:].split(b","):
        el = el.strip(b" \t")
        if not el:
            continue                      # empty list elements are ignored (RFC 9110 §5.6.1.2)
        m = _SPEC.fullmatch(el)
        if not m:
            return None
        if m.group(3) is not None:
            specs.append((None, int(m.group(3))))
        else:
            first = int(m.group(1))
            last = int(m.group(2)) if m.group(2) else None
            if last is not None and last < first:
                return None               # invalid int-range -> invalid header
            specs.append((first, last))
    return specs or None


def lenient_parse(v):
    """A forgiving reading (unit case, any ASCII white space, Python-int numerals).
    Returns a list of specs (possibly empty = 'empty set') or None if even that fails."""
    if b"=" not in v:
        return None
    kind, rest = v.split(b"=", 1)
    if kind.strip().lower() != b"bytes":
        return None
    specs = []
    for el in rest.split(b","):
        el = el.strip()
        if not el:
            continue
        if b"-" not in el:
            return None
        a, b = el.split(b"-", 1)
        try:
            a = int(a) if a else None
            b = int(b) if b else None
        except ValueError:
            return None
        if a is None and b is None:
            return None
        if a is not None and b is not None and a > b:
            return None
        specs.append((a, b))
    return specs


def resolve(specs, size):
    """-> list of satisfiable (a, b) inclusive, in request order."""
    out = []
    for first, last in specs:
        if first is None:
            n = last
            if n > 0 and size > 0:
                out.append((max(0, size - n), size - 1))
        elif first < size:
            out.append((first, size - 1 if last is None else min(last, size - 1)))
    return out


def classify(rng, size):
    """-> (input class, list of acceptable outcomes, n specs, strict?)
    outcome = ("200",) | ("416",) | ("206", [(a,b)...])"""
    if rng is None:
        return "absent", [("200",)], 0, True
    v = rng.strip(b" \t")
    strict = strict_parse(v)
    specs = strict if strict is not None else lenient_parse(v)
    if specs is None:
        try:
            v.decode("utf-8")
        except UnicodeDecodeError:
            return "malformed-nonutf8", [("200",)], 0, False
        return "malformed", [("200",)], 0, False
    if not specs:
        return "empty-set", [("200",), ("416",)], 0, False
    alts = [] if strict is not None else [("200",)]
    # (a negative "suffix length", only reachable through the lenient reading, is simply unsatisfiable)
    long_suffix = any(f is None and n > size for f, n in specs)
    multi = len(specs) > 1
    sat = resolve(specs, size)
    if size == 0 and any(f is None and n > 0 for f, n in specs):
        # satisfiable per RFC but nothing to send and no expressible Content-Range
        alts += [("200",), ("416",)]
    elif sat:
        alts.append(("206", sat))
    else:
        alts.append(("416",))
    if long_suffix:
        cls = "multi-suffix-gt-size" if multi else "suffix-gt-size"
    elif not sat:
        cls = "multi-none-sat" if multi else "single-unsat"
    elif multi:
        cls = "multi-one-sat" if len(sat) == 1 else "multi-sat"
    else:
        cls = "single-sat"
    return cls, alts, len(specs), strict is not None


# --------------------------------------------------------------------------
# independent response / multipart parsing

class Malformed(Exception):
    pass


def parse_head(buf):
    i = buf.find(b"\r\n\r\n")
    if i < 0:
        raise Malformed("no header terminator")
    lines = buf[:i].split(b"\r\n")
    m = re.fullmatch(rb"HTTP/1\.[01] (\d{3}) ?(.*)", lines[0])
    if not m:
        raise Malformed(f"bad status line {lines[0]!r}")
    headers = []
    for ln in lines[1:]:
        if b":" not in ln:
            raise Malformed(f"bad header line {ln!r}")
        k, val = ln.split(b":", 1)
        headers.append((k.strip().lower(), val.strip(b" \t")))
    return int(m.group(1)), headers, buf[i + 4:]


def header(headers, name):
    vals = [v for k, v in headers if k == name]
    if len(vals) > 1:
        raise Malformed(f"duplicate {name!r} header")
    return vals[0] if vals else None


def split_multipart(body, ctype):
    m = re.fullmatch(rb'multipart/byteranges;\s*boundary=(?:"([^"]+)"|([^\s;"]+))', ctype, re.I)
    if not m:
        raise Malformed(f"content-type {ctype!r}")
    boundary = m.group(1) or m.group(2)
    delim = b"\r\n--" + boundary
    if body.startswith(b"--" + boundary):
        body = b"\r\n" + body
    segs = body.split(delim)
    # segs[0] is the preamble; ignored
    parts = []
    closed = False
    for k, seg in enumerate(segs[1:], 1):
        if seg.startswith(b"--"):
            if seg[2:].strip(b"\r\n \t") or k != len(segs) - 1:
                raise Malformed("data after the close delimiter")
            closed = True
            break
        seg = seg.lstrip(b" \t")
        if not seg.startswith(b"\r\n"):
            raise Malformed("delimiter not followed by CRLF")
        seg = seg[2:]
        if seg.startswith(b"\r\n"):
            hdrs, pbody = [], seg[2:]
        else:
            j = seg.find(b"\r\n\r\n")
            if j < 0:
                raise Malformed("part without header terminator")
            hdrs = []
            for ln in seg[:j].split(b"\r\n"):
                if b":" not in ln:
                    raise Malformed(f"bad part header {ln!r}")
                kk, vv = ln.split(b":", 1)
                hdrs.append((kk.strip().lower(), vv.strip(b" \t")))
            pbody = seg[j + 4:]
        parts.append((hdrs, pbody))
    if not closed:
        raise Malformed("no close delimiter")
    return parts


_CR = re.compile(rb"bytes (\d+)-(\d+)/(\d+)")


# --------------------------------------------------------------------------
# serving one request deterministically

@contextlib.contextmanager
def _owned(bufsize):
    from twisted.internet import task, _producer_helpers
    from twisted.web import server, static
    queue = []

    class _Call:
        def cancel(self):
            pass

        def active(self):
            return True

    def sched(f):
        queue.append(f)
        return _Call()

    class _Time:                      # static.py builds the multipart boundary from time.time() and os.getpid()
        @staticmethod
        def time():
            return PINNED_TIME

    class _Os:
        @staticmethod
        def getpid():
            return PINNED_PID

        def __getattr__(self, name):
            return getattr(os, name)

    coop = task.Cooperator(scheduler=sched, terminationPredicateFactory=lambda: (lambda: True), started=True)
    saved = (_producer_helpers.cooperate, server.datetimeToString, static.StaticProducer.bufferSize,
             static.time, static.os)
    _producer_helpers.cooperate = coop.cooperate
    server.datetimeToString = lambda *a: FIXED_DATE
    static.StaticProducer.bufferSize = bufsize
    static.time = _Time
    static.os = _Os()
    try:
        yield queue
    finally:
        (_producer_helpers.cooperate, server.datetimeToString, static.StaticProducer.bufferSize,
         static.time, static.os) = saved


class _GuardedReader:
    """What File.openForReading() hands to the producers: the real file, except that
    * read(n) with n < 0 raises the ValueError io gives for n < -1 also for n == -1
      (which would mean 'everything' and sends MultipleRangeStaticProducer into an endless loop), and
    * a generous budget of read() calls turns any other endless producer loop into a logged failure.
    Budgets are counts, never times.

    It also is the "decrypt on the fly" kind of file object the openForReading()/getFileSize() hooks exist for:
    the served (logical) file is the window [base, base + length) of the file on disk, so that the logical size
    can differ from the on-disk size (hidden header and/or trailer)."""

    def __init__(self, f, budget, base=0, length=None):
        self._f = f
        self._budget = budget
        self._base = base
        self._length = length
        if base:
            f.seek(base)

    def read(self, n=-1):
        if n is None or n < 0:
            raise ValueError("read length must be non-negative or -1")
        self._budget -= 1
        if self._budget < 0:
            raise RuntimeError("C25 harness: read budget exhausted, the producer does not terminate")
        if self._length is not None:
            n = max(0, min(n, self._length - self.tell()))
        return self._f.read(n)

    def seek(self, pos, whence=0):
        if whence == 1:
            pos += self.tell()
        elif whence == 2:
            pos += self._length if self._length is not None else self._f.seek(0, 2) - self._base
        if pos < 0:
            raise OSError(22, "Invalid argument")
        self._f.seek(self._base + pos)
        return pos

    def tell(self):
        return self._f.tell() - self._base

    def close(self):
        return self._f.close()


_CLS = {}


def _guarded_file_class():
    from twisted.web import static
    if "c" not in _CLS:
        class GuardedFile(static.File):
            readBudget = 1000
            hide = (0, 0)          # bytes of the on-disk file before / after the logical file

            def openForReading(self):
                if self.hide == (0, 0):
                    return _GuardedReader(static.File.openForReading(self), self.readBudget)
                return _GuardedReader(static.File.openForReading(self), self.readBudget,
                                      self.hide[0], self.getFileSize())

            def getFileSize(self):
                return static.File.getFileSize(self) - self.hide[0] - self.hide[1]

            def createSimilarFile(self, path):
                f = static.File.createSimilarFile(self, path)
                f.readBudget = self.readBudget
                f.hide = self.hide
                return f
        _CLS["c"] = GuardedFile
    return _CLS["c"]


def _pump(queue, limit):
    n = 0
    while queue and n < limit:
        queue.pop(0)()
        n += 1
    return not queue


_ROOT = {}      # pid -> (scratch directory kept open by run()/shard, (size, fill) currently in f.bin)


@contextlib.contextmanager
def _workdir():
    """One scratch directory per process for a whole run (a directory per case costs more than the case)."""
    pid = os.getpid()
    if pid in _ROOT:
        yield
        return
    with harness.scratch_dir("C25") as d:
        _ROOT[pid] = [d, None]
        try:
            yield
        finally:
            del _ROOT[pid]


def _file_for(case, content, hide=(0, 0)):
    ent = _ROOT[os.getpid()]
    key = (case["size"], case["fill"], tuple(hide))
    if ent[1] != key:
        with open(os.path.join(ent[0], "f.bin"), "wb") as f:
            f.write(b"#" * hide[0] + content + b"%" * hide[1])
        ent[1] = key
    return ent[0]


def steps_of(case):
    """A case is one request (flat keys) optionally followed by more requests ("then") that the SAME Site --
    in mode "putchild" the same static.File object -- serves after the file was replaced by other content."""
    first = dict(size=case["size"], fill=case["fill"], method=case["method"], range=case["range"])
    return [first] + [dict(st) for st in case.get("then", [])]


def serve(case):
    """-> ([(step, content, response bytes, error events so far, quiesced)], bytes written for the final plain GET)"""
    from twisted.internet import task
    from twisted.internet.error import ConnectionDone
    from twisted.internet.testing import StringTransport
    from twisted.python.failure import Failure
    from twisted.web import resource, server
    bufsize = case["bufsize"]
    results = []
    with _workdir(), _owned(bufsize) as queue, harness.captured_log() as events:
        d = _ROOT[os.getpid()][0]
        if case.get("mode", "dir") == "putchild":        # one long-lived File object for the file itself
            fileres = _guarded_file_class()(os.path.join(d, "f.bin"))
            root = resource.Resource()
            root.putChild(b"f.bin", fileres)
        else:                                            # directory resource: a fresh child File per request
            fileres = root = _guarded_file_class()(d)
        hide = tuple(case.get("hide", (0, 0)))
        fileres.hide = hide
        site = server.Site(root, timeout=None, reactor=task.Clock())
        ch = site.buildProtocol(None)
        tr = StringTransport()
        ch.makeConnection(tr)
        second = None
        ok = True
        for step in steps_of(case):
            content = make_content(step["size"], step["fill"])
            _file_for(step, content, hide)
            size = len(content)
            rng = step["range"]
            # every spec may read the whole file once, in pieces of bufsize (plus short reads around separators)
            fileres.readBudget = ((rng or b"").count(b",") + 2) * (2 * (size // bufsize) + 6) + 20
            h = b"" if rng is None else b"Range: " + rng + b"\r\n"
            tr.clear()
            ch.dataReceived(step["method"].encode() + b" /f.bin HTTP/1.1\r\nHost: x\r\n" + h + b"\r\n")
            quiet = _pump(queue, 200 + 8 * (size // max(1, bufsize) + 1))
            errors = list(harness.log_errors(events))
            results.append((step, content, tr.value(), errors, quiet))
            ok = quiet and not errors and not tr.disconnecting
            if not ok:
                break
        if ok:
            tr.clear()
            fileres.readBudget = 1000
            ch.dataReceived(b"GET /f.bin HTTP/1.1\r\nHost: x\r\n\r\n")
            with _buf(65536):
                quiet = _pump(queue, 200)
            second = tr.value()
            if list(harness.log_errors(events)) or not quiet:
                second = second or b""
        ch.connectionLost(Failure(ConnectionDone()))
        _pump(queue, 50)
    return results, second


@contextlib.contextmanager
def _buf(n):
    from twisted.web import static
    old = static.StaticProducer.bufferSize
    static.StaticProducer.bufferSize = n
    try:
        yield
    finally:
        static.StaticProducer.bufferSize = old


def _describe(errors):
    out = []
    for e in errors[:2]:
        f = e.get("log_failure")
        out.append(f"{f.type.__name__}: {f.value}" if f is not None else str(e.get("log_format"))[:80])
    return "; ".join(out)


def _crash(errors):
    """(exception type name, file:function of the innermost twisted frame, message) of the first logged failure."""
    for e in errors:
        f = e.get("log_failure")
        if f is None:
            continue
        where = "?"
        for fr in f.frames:
            if "/twisted/" in fr[1]:
                where = f"{os.path.basename(fr[1])}:{fr[0]}"
        return f.type.__name__, where, str(f.value)
    return "message", "?", ""


def separator_overshoots(sat, size, bufsize):
    """Attribution helper for the known finding 'multirange-read-negative' (not part of the oracle).

    Replays the buffer arithmetic of MultipleRangeStaticProducer.resumeProducing for the
    parts `sat` with the pinned boundary: True iff some separator is appended when fewer
    than len(separator) bytes of the buffer are left, which is what makes the following
    read() length negative."""
    blen = len("%x%x" % (int(PINNED_TIME * 1000000), PINNED_PID))
    ctype = "application/octet-stream"
    items = []
    for a, b in sat:
        cr = "bytes %d-%d/%d" % (a, b, size)
        items.append((len("\r\n--\r\nContent-type: \r\nContent-range: \r\n\r\n") + blen + len(ctype) + len(cr), b - a + 1))
    items.append((len("\r\n----\r\n") + blen, 0))
    idx, pending, written = 0, True, 0
    for _ in range(10 ** 6):
        used = 0
        while used < bufsize:
            if pending:
                used += items[idx][0]
                pending = False
                if used > bufsize:
                    return True
            n = min(bufsize - used, items[idx][1] - written)
            written += n
            used += n
            if written == items[idx][1]:
                idx += 1
                if idx == len(items):
                    return False
                pending, written = True, 0
    return False


def crash_signature(cls, rng, size, errors, bufsize):
    """Name the root-cause class of a 5xx / logged failure.

    A crash is attributed to one of the named causes only if it happened at that
    cause's site *and* the request has the input feature that cause needs;
    anything else gets the generic signature <input class>/crash:<Type>@<site>."""
    etype, where, msg = _crash(errors)
    v = (rng or b"").strip(b" \t")
    specs = strict_parse(v)
    if specs is None:
        specs = lenient_parse(v)
    specs = specs or []
    long_suffix = any(f is None and n > size for f, n in specs)
    unpack = etype == "ValueError" and msg.startswith("not enough values to unpack")
    if (long_suffix and where in ("static.py:start", "static.py:_nextRange") and not unpack
            and (etype == "OSError" or (etype == "ValueError" and "cannot fit" in msg))):
        return "crash:suffix-longer-than-file"          # negative offset handed to seek()
    if len(specs) != 1 and where == "static.py:_nextRange" and unpack:
        return "crash:multirange-none-satisfiable"      # ([], b"") handed to MultipleRangeStaticProducer
    if len(specs) >= 2 and where == "static.py:resumeProducing" and etype == "ValueError":
        parts = []
        for f, n in specs:                              # parts the producer gets to before a long suffix stops it
            if f is None and n > size:
                break
            parts += resolve([(f, n)], size)
        if (parts and separator_overshoots(parts, size, bufsize)) or separator_overshoots(resolve(specs, size), size, bufsize):
            return "crash:multirange-read-negative"     # separator overshoots bufferSize -> read(<0)
    if cls == "malformed-nonutf8" and where == "static.py:makeProducer" and etype == "UnicodeDecodeError":
        return "crash:malformed-range-not-utf8"         # log line decodes the header
    return f"{cls}/crash:{etype}@{where}"


def run_case(ctx, case):
    results, second = serve(case)
    prev = None
    for idx, (step, content, first, errors, quiet) in enumerate(results):
        last = idx == len(results) - 1
        judge(ctx, case, idx, prev, step, content, first, errors, quiet, second if last else b"skip")
        prev = step
    if len(results) < len(steps_of(case)):
        raise AssertionError("C25 harness: a step was skipped although the one before it passed")
    mode = case.get("mode", "dir")
    ctx.count("mode=" + mode)
    if tuple(case.get("hide", (0, 0))) != (0, 0):
        ctx.count("hooked File: logical size (getFileSize/openForReading) differs from the on-disk size")
    for a, b in zip(steps_of(case), steps_of(case)[1:]):
        kind = "grew" if b["size"] > a["size"] else "shrank" if b["size"] < a["size"] else "same size"
        ctx.count(f"history ({'same File object' if mode == 'putchild' else 'fresh child File'}): file {kind} between requests")


def judge(ctx, case, idx, prev, step, content, first, errors, quiet, second):
    """the oracle for one request/response; `second` is the output of the plain GET sent after the last step"""
    size, method, rng = step["size"], step["method"], step["range"]
    cls, alts, nspecs, strict = classify(rng, size)
    # a divergence that shows only after the file was replaced is a different root-cause class
    after = "" if idx == 0 or (prev["size"], prev["fill"]) == (size, step["fill"]) else "after-file-change:"

    def bad(obs, detail):
        sig = obs if obs.startswith("crash:") or "/crash:" in obs else f"{cls}/{obs}"
        hist = "" if idx == 0 else f" [request {idx + 1} of a {case.get('mode', 'dir')}-mode history; before: {prev!r}]"
        ctx.violation(after + sig, case,
                      f"size={size} {method} Range={rng!r} bufsize={case['bufsize']} hidden on disk={tuple(case.get('hide', (0, 0)))}{hist}: {detail}; acceptable={alts!r}; "
                      f"response head={first[:300]!r}")

    try:
        code, headers, body = parse_head(first)
        clen = header(headers, b"content-length")
        crange = header(headers, b"content-range")
        ctype = header(headers, b"content-type")
    except Malformed as e:
        if errors:
            bad(crash_signature(cls, rng, size, errors, case["bufsize"]), "logged failure, no parsable response: " + _describe(errors))
        bad("unparsable", str(e))
    if code >= 500:
        bad(crash_signature(cls, rng, size, errors, case["bufsize"]), f"status {code}; {_describe(errors)}")
    if errors:
        bad(crash_signature(cls, rng, size, errors, case["bufsize"]), f"status {code} but a failure was logged: {_describe(errors)}")
    if not quiet:
        bad("never-quiesces", "cooperator still has work after the pump limit")
    if clen is not None and not re.fullmatch(rb"\d+", clen):
        bad("content-length", f"Content-Length {clen!r}")

    if method == "HEAD":
        ok_codes = {200} | {int(a[0]) for a in alts}
        if code not in ok_codes:
            bad(f"head-status-{code}", f"status {code}")
        if body:
            bad("head-body", f"{len(body)} body bytes on HEAD")
        if code == 200 and (clen is None or int(clen) != size):
            bad("head-content-length", f"Content-Length {clen!r} for a file of {size}")
        if code == 206 and crange is not None:
            m = _CR.fullmatch(crange)
            if not m or int(m.group(3)) != size or not (int(m.group(1)) <= int(m.group(2)) < size):
                bad("head-content-range", f"Content-Range {crange!r}")
    else:
        # which acceptable outcome does the status select?
        chosen = [a for a in alts if int(a[0]) == code]
        if not chosen:
            bad(f"status-{code}", f"status {code}")
        a = chosen[0]
        if code in (200, 206) and clen is None:
            bad("content-length", "no Content-Length")
        if clen is not None and int(clen) != len(body):
            bad("content-length", f"Content-Length {clen!r} but {len(body)} body bytes sent")
        if code == 200:
            if body != content:
                bad("body", f"200 body differs from the file ({len(body)} vs {size} bytes)")
            if crange is not None:
                bad("content-range", f"Content-Range {crange!r} on a 200")
        elif code == 416:
            if crange is None or crange != b"bytes */%d" % size:
                bad("content-range", f"416 Content-Range {crange!r}, want 'bytes */{size}'")
        else:
            want = a[1]
            is_multi = ctype is not None and ctype.lower().startswith(b"multipart/")
            if not is_multi:
                if nspecs > 1 and len(want) != 1:
                    bad("not-multipart", f"{len(want)} satisfiable ranges answered with Content-Type {ctype!r}")
                (x, y), = want
                if crange is None or crange != b"bytes %d-%d/%d" % (x, y, size):
                    bad("content-range", f"Content-Range {crange!r}, want 'bytes {x}-{y}/{size}'")
                if body != content[x:y + 1]:
                    bad("body", f"body is {len(body)} bytes, want content[{x}:{y + 1}] ({y + 1 - x} bytes); "
                                f"first bytes {body[:8]!r} vs {content[x:x + 8]!r}")
            else:
                if nspecs <= 1:
                    bad("multipart-for-single", "multipart answer to a single-range request")
                try:
                    parts = split_multipart(body, ctype)
                    got = []
                    for hdrs, pbody in parts:
                        pcr = header(hdrs, b"content-range")
                        m = _CR.fullmatch(pcr or b"")
                        if not m:
                            raise Malformed(f"part Content-Range {pcr!r}")
                        got.append((int(m.group(1)), int(m.group(2)), int(m.group(3)), pbody))
                except Malformed as e:
                    bad("multipart", str(e))
                if [(g[0], g[1]) for g in got] != want:
                    bad("parts", f"parts {[(g[0], g[1]) for g in got]!r}, want {want!r}")
                for x, y, total, pbody in got:
                    if total != size:
                        bad("content-range", f"part complete-length {total}, file is {size}")
                    if pbody != content[x:y + 1]:
                        bad("body", f"part {x}-{y} carries {len(pbody)} bytes, want {y + 1 - x}; "
                                    f"{pbody[:8]!r} vs {content[x:x + 8]!r}")
    # the connection must still be usable: plain GET answered with the whole file
    if second != b"skip":
        if second is None:
            bad("connection-closed", "transport was asked to close")
        try:
            code2, headers2, body2 = parse_head(second)
        except Malformed as e:
            bad("followup", f"follow-up request not answered: {e} ({second[:80]!r})")
        if code2 != 200 or body2 != content:
            bad("followup", f"follow-up GET gave {code2} with {len(body2)} bytes")

    # bookkeeping
    ctx.count("class=" + cls)
    ctx.count("method=" + method)
    ctx.count(f"status={code}")
    if rng is not None and not strict and cls not in ("malformed", "malformed-nonutf8"):
        ctx.count("lenient spelling")
    if case["bufsize"] < 65536 and size > case["bufsize"]:
        ctx.count("several reads")
    v = (rng or b"").strip(b" \t")
    sp = strict_parse(v) or lenient_parse(v) or []
    suffix_ge = any(f is None and n is not None and n >= size for f, n in sp)
    if rng is not None and (nspecs >= 2 or suffix_ge or size == 0):
        ctx.nontrivial((size, method, rng, case["bufsize"], idx, case.get("mode", "dir"),
                        None if prev is None else (prev["size"], prev["range"])))
        ctx.count("nontrivial")
        if nspecs >= 2:
            ctx.count("nt: >=2 specs")
        if suffix_ge:
            ctx.count("nt: suffix >= size")
        if size == 0:
            ctx.count("nt: empty file")
        if len(ctx.samples) < 5 and (size + len(rng)) % 7 == 3 and (idx > 0 or len(ctx.samples) < 3):
            ctx.sample(case)


# --------------------------------------------------------------------------
# generators

def _atoms(n):
    out = []
    for a in range(n):
        out.append(b"%d-" % a)
        out.append(b"-%d" % a)
        for b in range(n):
            out.append(b"%d-%d" % (a, b))
    return out


def _enum_size(ctx, size):
    atoms = _atoms(5)

    def cases():
        for m in ("GET", "HEAD"):
            yield dict(size=size, fill=size, method=m, range=None, bufsize=65536)
        for a in atoms:
            for m in ("GET", "HEAD"):
                yield dict(size=size, fill=size, method=m, range=b"bytes=" + a, bufsize=65536)
        for a in atoms:            # File subclass whose logical file is shorter than the file on disk
            yield dict(size=size, fill=size, method="GET", range=b"bytes=" + a, bufsize=65536, hide=[2, 0])
            yield dict(size=size, fill=size, method="GET", range=b"bytes=" + a + b",0-0", bufsize=65536, hide=[0, 3],
                       mode="putchild")
        valid = [a for a in atoms if strict_parse(b"bytes=" + a)]     # reversed specs only as singles
        for a, b in itertools.product(valid, valid):
            yield dict(size=size, fill=size, method="GET", range=b"bytes=" + a + b"," + b, bufsize=65536)
    with _workdir():
        enumerate_run(ctx, cases(), run_case, stop_after_violation=False)


@st.composite
def _number(draw, size):
    n = draw(st.one_of(
        st.sampled_from([0, 1, 2, size - 2, size - 1, size, size + 1, 2 * size, size // 2, 10 ** 20]),
        st.integers(0, size + 2)))
    n = max(0, n)
    deco = draw(st.sampled_from([""] * 90 + ["zeros", "zeros", "+", "_", "sp", "x", "e", "neg", "utf", "dot"]))
    s = str(n)
    if deco == "zeros":
        s = "00" + s
    elif deco == "+":
        s = "+" + s
    elif deco == "_":
        s = s[0] + "_" + s[1:] if len(s) > 1 else s + "_0"
    elif deco == "sp":
        s = draw(st.sampled_from([" %s", "%s ", "\t%s", "\x0b%s", "%s\x0c"])) % s
    elif deco == "x":
        s = "0x" + s
    elif deco == "e":
        s = s + "e1"
    elif deco == "neg":
        s = "-" + s
    elif deco == "dot":
        s = s + ".0"
    b = s.encode()
    if deco == "utf":
        b = "".join(chr(0x660 + int(c)) for c in str(n)).encode("utf-8")   # ARABIC-INDIC digits
    return n, b


@st.composite
def _spec(draw, size):
    kind = draw(st.sampled_from(["ab"] * 12 + ["a-"] * 6 + ["-n"] * 8 + ["rev", "junk"]))
    if kind == "ab":
        a, b = sorted([draw(_number(size)), draw(_number(size))])     # reversed pairs are kind "rev"
        return a[1] + b"-" + b[1]
    if kind == "a-":
        return draw(_number(size))[1] + b"-"
    if kind == "-n":
        return b"-" + draw(_number(size))[1]
    if kind == "rev":
        a = draw(st.integers(1, size + 3))
        return b"%d-%d" % (a, draw(st.integers(0, a - 1)))
    return draw(st.sampled_from([b"-", b"", b"1-2-3", b"abc", b"1", b"--", b"1--", b"a-b", b"-\xff", b"\xe2\x82\xac-1",
                                 b"0-0-", b"*", b"0 -", b"- 1"]))


_HEADER_BYTES = [b for b in range(1, 256) if b not in (0x0A, 0x0D)]


@st.composite
def _range_value(draw, size):
    mode = draw(st.sampled_from(["none"] + ["gram"] * 14 + ["raw"]))
    if mode == "none":
        return None
    if mode == "raw":
        return draw(st.one_of(
            st.binary(max_size=12).map(lambda b: bytes(x for x in b if x in _HEADER_BYTES)),
            st.lists(st.sampled_from([b"bytes", b"=", b"-", b",", b"0", b"1", b"9", b" ", b"\xff", b"b"]),
                     max_size=10).map(b"".join)))
    unit = draw(st.sampled_from([b"bytes"] * 50 + [b"Bytes", b"BYTES", b"bytes ", b" bytes", b"byte", b"items", b"", b"\xffbytes"]))
    sep = draw(st.sampled_from([b"="] * 40 + [b"", b"==", b" = ", b":", b"= "]))
    n = draw(st.sampled_from([0, 1, 1, 1, 1, 2, 2, 2, 3, 3, 4, 6]))
    specs = [draw(_spec(size)) for _ in range(n)]
    comma = draw(st.sampled_from([b","] * 8 + [b", ", b" ,", b",\t", b",,", b", ,"]))
    lead = draw(st.sampled_from([b""] * 8 + [b",", b" ", b", "]))
    trail = draw(st.sampled_from([b""] * 8 + [b",", b" ", b" ,"]))
    return unit + sep + lead + comma.join(specs) + trail


def _enum_history(ctx, _arg=None):
    """one static.File object (putChild), file replaced between two requests: every ordered pair of different
    sizes 0..3 x {plain GET, HEAD, every single spec over 0..4} as the second request"""
    atoms = [None] + [b"bytes=" + a for a in _atoms(5)]

    def cases():
        for a, b in itertools.permutations(range(4), 2):
            for first in (None, b"bytes=0-"):
                for rng in atoms:
                    for m in (("GET", "HEAD") if rng is None else ("GET",)):
                        yield dict(size=a, fill=a, method="GET", range=first, bufsize=65536, mode="putchild",
                                   then=[dict(size=b, fill=b + 7, method=m, range=rng)])
    with _workdir():
        enumerate_run(ctx, cases(), run_case, stop_after_violation=False)


@st.composite
def _cases(draw):
    case = draw(_one_request())
    case["mode"] = draw(st.sampled_from(["dir", "dir", "putchild"]))
    if draw(st.integers(0, 4)) == 0:
        case["hide"] = [draw(st.sampled_from([0, 1, 7, 300])), draw(st.sampled_from([0, 0, 1, 5, 70000]))]
    if draw(st.integers(0, 2)) == 0:
        then, size = [], case["size"]
        for _ in range(draw(st.integers(1, 2))):
            new = draw(st.one_of(st.integers(0, 300), st.sampled_from([0, 1, size, size + 1, max(0, size - 1), 2 * size, size // 2]),
                                 st.integers(0, 65536)))
            then.append(dict(size=new, fill=draw(st.integers(0, 254)), method=draw(st.sampled_from(["GET", "GET", "GET", "HEAD"])),
                             range=draw(_range_value(draw(st.sampled_from([new, new, size]))))))    # aimed at the new or the old size
            size = new
        case["then"] = then
    return case


@st.composite
def _one_request(draw):
    size = draw(st.one_of(st.sampled_from([0, 1, 2, 3, 10]), st.integers(0, 300), st.integers(0, 65536),
                          st.sampled_from([65535, 65536, 65537])))
    bufsize = draw(st.sampled_from([65536, 65536, 65536, 256, 300, 1000, 4096]))
    return dict(size=size, fill=draw(st.integers(0, 254)),
                method=draw(st.sampled_from(["GET", "GET", "GET", "HEAD"])),
                range=draw(_range_value(size)), bufsize=bufsize)


def _hyp_shard(sub, i):
    with _workdir():
        hyp_run(sub, _cases(), run_case, 3000, label=f"shard{i}")


def run(ctx):
    sizes = [0, 1, 2, 3, 4]
    for s in sizes:
        _enum_size(ctx, s)
    _enum_history(ctx)
    ctx.extra["exhaustive_scope"] = "sizes 0..4 x {every single spec a-, -a, a-b (GET,HEAD), every ordered pair of valid specs (GET)} with a,b in 0..4; one File object (putChild) serving two requests with the file replaced in between: every ordered pair of different sizes 0..3 x second request in {plain GET, HEAD, every single spec}"
    ctx.exhaustive = False
    if ctx.has_violation():
        return
    if ctx.thorough:
        ctx.shards(_enum_size, [5, 6, 7, 8])
        ctx.shards(_hyp_shard, list(range(16)))
    else:
        with _workdir():
            hyp_run(ctx, _cases(), run_case, 2000, label="grammar")

