"""C26 — static.File and FilePath.child/preauthChild/descendant never leave their directory."""
import contextlib
import itertools
import os
import re
import sys

from hypothesis import strategies as st

from lib.core import hyp_run, enumerate_run, REPO_SRC, VERIF
from lib import harness

META = dict(
    property="C26",
    level="exploration",
    technique="hostile request paths served by static.File over Site/HTTPChannel under a filesystem audit hook + secret markers; hostile names into FilePath.child/preauthChild/descendant checked lexically; complete small scope of names built from 11 atoms",
    level_text="Tree T/root/{a.txt,.hidden,sub/{b.txt,deep/c.txt}} with T/secret, T/root.secret, T/rootsib/{secret,x} beside it. (1) Requests whose target is built from a hostile alphabet (.., ., %2e, %2f, %5c, %00, overlong UTF-8, non-UTF-8, double encoding, sibling names, absolute paths) are served by static.File (ignoredExts none, ['*'], ['.txt',''], ['.secret']; document root an existing directory, a path that does not exist, or a regular file, each with prefix-sharing siblings <root>.secret/<root>.txt/<root>.d beside it) through the real Site/HTTPChannel; a sys.addaudithook records every open/listdir/scandir/mkdir/remove/rename/... and each recorded path must resolve inside realpath(root) (interpreter/library source files excepted); no response may contain the marker of a file outside root; a 200 file body must be the content of a file under root. (2) child(n) must return root or a direct child or raise InsecurePath; preauthChild(n) and descendant(segs) must return a path inside root's subtree or raise InsecurePath; str and bytes modes for root and name. All names of <= 4 atoms over 11 atoms are enumerated; longer ones are sampled.",
    level_note="Containment of returned FilePaths is lexical (normpath of .path against root and root+sep), as the statement excludes symbolic links and no links are created. The audit sees the Python-level events open/os.listdir/os.scandir/os.mkdir/os.rmdir/os.remove/os.rename/os.chmod/os.truncate/os.symlink/os.link; stat-type probes are not audited. 5xx answers and logged errors are counted, not asserted (the statement is about escape, not about failure). Linux path semantics only.",
    design_ref="§5 C26",
    rule="case = fp:(op, root mode, name mode, atoms | segments) or http:(ignoredExts variant, docroot kind, target bytes). non-trivial = the (decoded) name/target contains a '..' component, a separator, backslash or NUL inside a segment, an absolute path, or a sibling's name; distinct by the whole case.",
)

FIXED_DATE = b"Thu, 01 Jan 1970 00:00:00 GMT"
SECRETS = {
    "secret": b"OUTSIDE-MARKER-parent-secret-7f3a",
    "root.secret": b"OUTSIDE-MARKER-prefix-file-91bc",
    "rootsib/secret": b"OUTSIDE-MARKER-sibling-secret-55d0",
    "rootsib/x": b"OUTSIDE-MARKER-sibling-x-0e21",
    # beside a document root that does not exist (T/ghost) and one that is a regular file (T/filedoc)
    "ghost.secret": b"OUTSIDE-MARKER-ghost-secret-a4a4",
    "ghost.txt": b"OUTSIDE-MARKER-ghost-txt-b5b5",
    "ghost.d/inner": b"OUTSIDE-MARKER-ghost-d-inner-c6c6",
    "filedoc.secret": b"OUTSIDE-MARKER-filedoc-secret-d7d7",
    "filedoc.txt": b"OUTSIDE-MARKER-filedoc-txt-e8e8",
}
DOCROOTS = {"dir": "root", "missing": "ghost", "file": "filedoc"}     # what static.File is pointed at
PUBLIC = {
    "root/a.txt": b"public a.txt 3b1f",
    "root/.hidden": b"public hidden 88aa",
    "root/sub/b.txt": b"public sub/b.txt c2d4",
    "root/sub/deep/c.txt": b"public sub/deep/c.txt 6e6e",
    "root/name with space": b"public spaced 1212",
    "filedoc": b"public filedoc 7a7a",
}

# --------------------------------------------------------------------------
# filesystem audit (a hook cannot be removed: install once, gate with a flag)

_AUDIT = {"installed": False, "on": False, "log": []}
_EVENTS = {
    "open": (0,), "os.listdir": (0,), "os.scandir": (0,), "os.mkdir": (0,), "os.rmdir": (0,),
    "os.remove": (0,), "os.rename": (0, 1), "os.chmod": (0,), "os.truncate": (0,),
    "os.symlink": (0, 1), "os.link": (0, 1), "os.utime": (0,), "os.chown": (0,),
}


def _hook(event, args):
    if _AUDIT["on"] and event in _EVENTS:
        for i in _EVENTS[event]:
            if i < len(args):
                _AUDIT["log"].append((event, args[i]))


@contextlib.contextmanager
def audited():
    if not _AUDIT["installed"]:
        sys.addaudithook(_hook)
        _AUDIT["installed"] = True
    _AUDIT["log"] = []
    _AUDIT["on"] = True
    try:
        yield _AUDIT["log"]
    finally:
        _AUDIT["on"] = False


def _code_dirs():
    import twisted
    dirs = {sys.prefix, sys.base_prefix, sys.exec_prefix, REPO_SRC,
            os.path.dirname(os.path.dirname(os.path.abspath(twisted.__file__))),
            os.path.join(VERIF, "lib"), os.path.join(VERIF, "checks"), os.path.join(VERIF, "vendor"),
            os.path.join(VERIF, ".deps")}
    return tuple(os.path.realpath(d) + os.sep for d in dirs if d)


def _inside(path, top):
    return path == top or path.startswith(top + os.sep)


def outside_accesses(log, root):
    """audited (event, path) pairs that resolve outside realpath(root)."""
    rroot = os.path.realpath(root)
    code = _code_dirs()
    bad = []
    for event, p in log:
        if isinstance(p, int) or p is None:
            continue                                   # file descriptor / cwd
        if isinstance(p, bytes):
            p = os.fsdecode(p)
        elif not isinstance(p, str):
            p = os.fspath(p)
            if isinstance(p, bytes):
                p = os.fsdecode(p)
        ap = os.path.abspath(p)
        rp = ap if "\x00" in ap else os.path.realpath(ap)
        if _inside(rp, rroot):
            continue
        if (rp + os.sep).startswith(code) and not _inside(rp, os.path.join(VERIF, ".work")):
            continue                                   # interpreter / library sources (tracebacks, lazy imports)
        bad.append((event, p))
    return bad


# --------------------------------------------------------------------------
# scratch tree, one per process and run

_TREE = {}


@contextlib.contextmanager
def _tree():
    pid = os.getpid()
    if pid in _TREE:
        yield _TREE[pid]
        return
    with harness.scratch_dir("C26") as T:
        for rel, data in list(SECRETS.items()) + list(PUBLIC.items()):
            p = os.path.join(T, rel)
            os.makedirs(os.path.dirname(p), exist_ok=True)
            with open(p, "wb") as f:
                f.write(data)
        _TREE[pid] = T
        try:
            yield T
        finally:
            del _TREE[pid]


# --------------------------------------------------------------------------
# FilePath half

def _subst(atom, T):
    return atom.replace("{T}", T).replace("{ROOT}", os.path.join(T, "root"))


def _as_mode(text, mode):
    return text if mode == "str" else text.encode("utf-8", "surrogateescape")


def _lex(p):
    if isinstance(p, bytes):
        p = p.decode("utf-8", "surrogateescape")
    return os.path.normpath(p)


def _name_is_hostile(text):
    parts = text.split("/")
    return (".." in parts or "/" in text.strip("/") or text.startswith("/") or "\\" in text or "\x00" in text
            or "rootsib" in text or "secret" in text)


def run_fp(ctx, case, T):
    from twisted.python.filepath import FilePath, InsecurePath
    rootpath = os.path.join(T, "root")
    root = FilePath(_as_mode(rootpath, case["root_mode"]))
    op = case["op"]
    if op == "descendant":
        texts = ["".join(_subst(a, T) for a in seg) for seg in case["segments"]]
        arg = [_as_mode(t, case["name_mode"]) for t in texts]
        text = "/".join(texts)
    else:
        text = "".join(_subst(a, T) for a in case["name"])
        arg = _as_mode(text, case["name_mode"])
    try:
        if op == "child":
            r = root.child(arg)
        elif op == "preauth":
            r = root.preauthChild(arg)
        else:
            r = root.descendant(arg)
    except InsecurePath:
        ctx.count(f"fp {op}: InsecurePath")
        r = None
    hostile = _name_is_hostile(text) or (op == "descendant" and any(_name_is_hostile(t) or t in ("", ".") for t in texts))
    if r is not None:
        got = _lex(r.path)
        if op == "child":
            ok = got == rootpath or os.path.dirname(got) == rootpath
        else:
            ok = _inside(got, rootpath)
        if not ok:
            if op == "child" and _inside(got, rootpath):
                sig = "fp-child-returns-deeper-descendant"
            elif got.startswith(rootpath):
                sig = f"fp-{op}-escapes-to-sibling-sharing-prefix"
            else:
                sig = f"fp-{op}-escapes"
            ctx.violation(sig, case, f"FilePath({rootpath!r}).{op}({arg!r}) returned {r.path!r}"
                                     f"{' (exists)' if os.path.lexists(got) and chr(0) not in got else ''}")
        ctx.count(f"fp {op}: returned " + ("root" if got == rootpath else "inside"))
    if hostile:
        ctx.nontrivial(("fp", op, case["root_mode"], case["name_mode"], text))
        ctx.count("nontrivial fp")
        if len(ctx.samples) < 2 and r is None and len(text) > 6:
            ctx.sample(case)


# --------------------------------------------------------------------------
# HTTP half

@contextlib.contextmanager
def _owned():
    from twisted.internet import task, _producer_helpers
    from twisted.web import server
    queue = []

    class _Call:
        def cancel(self):
            pass

        def active(self):
            return True

    def sched(f):
        queue.append(f)
        return _Call()

    coop = task.Cooperator(scheduler=sched, terminationPredicateFactory=lambda: (lambda: True))
    saved = (_producer_helpers.cooperate, server.datetimeToString)
    _producer_helpers.cooperate = coop.cooperate
    server.datetimeToString = lambda *a: FIXED_DATE
    try:
        yield queue
    finally:
        _producer_helpers.cooperate, server.datetimeToString = saved


VARIANTS = {"plain": (), "star": ("*",), "txt": (".txt", ""), "secret": (".secret",)}
_PCT = re.compile(rb"%([0-9a-fA-F]{2})")


def _decode_target(target):
    """The decoded path segments a server following RFC 3986 sees (split on '/', then unquote)."""
    path = target.split(b"?", 1)[0]
    return [_PCT.sub(lambda m: bytes([int(m.group(1), 16)]), s) for s in path.split(b"/")]


def run_http(ctx, case, T):
    from twisted.internet import task
    from twisted.internet.error import ConnectionDone
    from twisted.internet.testing import StringTransport
    from twisted.python.failure import Failure
    from twisted.web import server, static
    docroot = case.get("docroot", "dir")
    rootrel = DOCROOTS[docroot]
    rootpath = os.path.join(T, rootrel)
    target = case["target"]
    with _owned() as queue, harness.captured_log() as events:
        site = server.Site(static.File(rootpath, ignoredExts=VARIANTS[case["variant"]]),
                           timeout=None, reactor=task.Clock())
        ch = site.buildProtocol(None)
        tr = StringTransport()
        ch.makeConnection(tr)
        with audited() as log:
            ch.dataReceived(b"GET /" + target + b" HTTP/1.1\r\nHost: x\r\n\r\n")
            n = 0
            while queue and n < 500:
                queue.pop(0)()
                n += 1
        out = tr.value()
        ch.connectionLost(Failure(ConnectionDone()))
        while queue and n < 600:
            queue.pop(0)()
            n += 1
        errors = harness.log_errors(events)
    detail = f"GET /{target.decode('latin-1')} (ignoredExts {VARIANTS[case['variant']]!r}, docroot {rootrel} = {docroot}): "
    bad = outside_accesses(log, rootpath)
    if bad:
        ev, p = bad[0]
        rp = os.path.abspath(p)
        kind = "sibling-sharing-prefix" if rp.startswith(rootpath) else ("scratch-tree" if _inside(rp, T) else "elsewhere")
        ctx.violation(f"http-audit-{ev}-outside-root-{kind}", case, detail + f"{ev}({p!r}) while serving; root is {rootpath!r}")
    for rel, marker in SECRETS.items():
        if marker in out:
            ctx.violation("http-served-outside-content", case, detail + f"response contains the content of T/{rel}")
    m = re.match(rb"HTTP/1\.[01] (\d{3})", out)
    code = int(m.group(1)) if m else 0
    head, _, body = out.partition(b"\r\n\r\n")
    segs = _decode_target(target)
    if code == 200:
        if b"<title>Directory listing for" in body:
            ctx.count("http 200 listing")      # which directory was listed is checked through the audit log
        elif body in [v for k, v in PUBLIC.items() if k == rootrel or k.startswith(rootrel + "/")]:
            ctx.count("http 200 file")
        else:
            ctx.violation("http-200-unknown-content", case, detail + f"200 with a body that is no file under root: {body[:80]!r}")
    ctx.count(f"http status {code}")
    ctx.count("http docroot=" + docroot)
    if docroot != "dir" and case["variant"] != "plain" and segs and segs[0] in (b".", b""):
        ctx.count("class: docroot that is no directory + ignoredExts + first segment '.' or empty")
    if errors:
        ctx.count("http logged error (not asserted)")
    opened = [p for ev, p in log if ev == "open"]
    if opened:
        ctx.count("http opened a file")
    hostile = any(s in (b"..",) or b"/" in s or b"\\" in s or b"\x00" in s or b"secret" in s or b"rootsib" in s
                  for s in segs) or b"%25" in target
    if hostile:
        ctx.nontrivial(("http", case["variant"], docroot, target))
        ctx.count("nontrivial http")
        if len(ctx.samples) < 5 and len(target) > 8 and len(target) % 3 == 0:
            ctx.sample(case)


def run_case(ctx, case):
    with _tree() as T:
        if case["kind"] == "fp":
            run_fp(ctx, case, T)
        else:
            run_http(ctx, case, T)
    ctx.count("kind=" + case["kind"])


# --------------------------------------------------------------------------
# generators

ENUM_ATOMS = ["..", ".", "/", "a.txt", "sub", "rootsib", "secret", "x", "root", "\x00", "{ROOT}"]
FP_ATOMS = ENUM_ATOMS + ["\\", "..\\", "../", "./", "//", "{T}", "{T}/", "{ROOT}sib", "{ROOT}/", "{ROOT}.secret", ".secret",
                         "sib", "\udcff", "‮", "~", ":", " ", "deep", "b.txt", "c.txt", "*", "a" * 300, "..."]


def _enum_fp(ctx, shard):
    """every name of 0..4 atoms; shard = first atom (or None for the short ones)"""
    def names():
        if shard is None:
            for n in range(0, 4):
                yield from itertools.product(ENUM_ATOMS, repeat=n)
        else:
            for rest in itertools.product(ENUM_ATOMS, repeat=3):
                yield (shard,) + rest

    def cases():
        for name in names():
            name = list(name)
            for op in ("child", "preauth"):
                yield dict(kind="fp", op=op, root_mode="str", name_mode="str", name=name)
            if shard is None:
                for rm, nm in (("str", "bytes"), ("bytes", "str"), ("bytes", "bytes")):
                    for op in ("child", "preauth"):
                        yield dict(kind="fp", op=op, root_mode=rm, name_mode=nm, name=name)
            # the same atoms as descendant segments, split at '/'
            segs, cur = [], []
            for a in name:
                if a == "/":
                    segs.append(cur)
                    cur = []
                else:
                    cur.append(a)
            segs.append(cur)
            yield dict(kind="fp", op="descendant", root_mode="str", name_mode="str", segments=segs)
    with _tree():
        enumerate_run(ctx, cases(), run_case, stop_after_violation=False)


HTTP_ATOMS = [b"..", b".", b"%2e", b"%2E%2e", b".%2e", b"%2f", b"%2F", b"%5c", b"\\", b"%00", b"%ff", b"%c0%af", b"%c0%ae",
              b"%e2%80%ae", b"%252e%252e", b"%252f", b"a.txt", b"a", b"sub", b"deep", b"b.txt", b"c.txt", b"secret", b"rootsib",
              b"root", b"root.secret", b".secret", b"sib", b"x", b"ghost", b"ghost.secret", b"ghost.txt", b"ghost.d", b"filedoc",
              b"filedoc.secret", b"inner", b".txt", b"%2e/", b"./", b".hidden", b"name%20with%20space", b"~", b":", b"+", b"*", b";",
              b"%2e%2e%2f", b"..%2f", b"..%5c", b"%2e%2e%5c", b"a" * 300, b"...", b"%", b"%2", b"%zz", b"\xc0\xaf", b"\xff"]


@st.composite
def _http_case(draw):
    nseg = draw(st.integers(0, 6))
    segs = []
    for _ in range(nseg):
        segs.append(b"".join(draw(st.lists(st.sampled_from(HTTP_ATOMS), min_size=0, max_size=3))))
    # bias: known-good prefixes followed by climbing out
    if draw(st.integers(0, 3)) == 0:
        segs = draw(st.sampled_from([[b"sub"], [b"sub", b"deep"], [b"a.txt"], [b""], [b"sub", b""]])) + segs
    sep = draw(st.sampled_from([b"/"] * 8 + [b"//", b"/./"]))
    target = sep.join(segs)
    if draw(st.integers(0, 9)) == 0:
        target += b"?" + draw(st.sampled_from([b"", b"x=../../secret", b"/../secret"]))
    return dict(kind="http", variant=draw(st.sampled_from(["plain", "plain", "star", "txt", "secret"])),
                docroot=draw(st.sampled_from(["dir", "dir", "dir", "missing", "file"])), target=target)


@st.composite
def _fp_case(draw):
    op = draw(st.sampled_from(["child", "preauth", "preauth", "descendant"]))
    rm = draw(st.sampled_from(["str", "str", "bytes"]))
    nm = draw(st.sampled_from(["str", "str", "bytes"]))
    atoms = st.lists(st.sampled_from(FP_ATOMS), min_size=0, max_size=7)
    if op == "descendant":
        return dict(kind="fp", op=op, root_mode=rm, name_mode=nm,
                    segments=draw(st.lists(st.lists(st.sampled_from(FP_ATOMS), min_size=0, max_size=3), min_size=0, max_size=5)))
    return dict(kind="fp", op=op, root_mode=rm, name_mode=nm, name=draw(atoms))


def _http_fixed():
    """a fixed list of classic traversal spellings, every variant"""
    T = [b"", b"a.txt", b"sub/b.txt", b"sub/", b"sub", b"../secret", b"..%2fsecret", b"%2e%2e/secret", b"%2e%2e%2fsecret",
         b"sub/../../secret", b"sub/%2e%2e/%2e%2e/secret", b"../rootsib/secret", b"..%2frootsib%2fsecret", b"%2e%2e/rootsib/x",
         b"../root.secret", b"..%5csecret", b"..\\secret", b"....//secret", b"..;/secret", b"%c0%ae%c0%ae/secret",
         b"%252e%252e/secret", b"a.txt/../../secret", b"a.txt%00/../../secret", b"secret", b"rootsib/secret", b"/secret",
         b"//secret", b"./a.txt", b"sub/./b.txt", b"sub//b.txt", b"%00", b"a.txt%00", b"%ff", b"sub/deep/c.txt", b".hidden",
         b"name%20with%20space", b"a", b"sub/b", b".", b"%2e", b"./", b"%2e/", b"./secret", b"%2e/inner", b"./.", b"././secret",
         b"../ghost.secret", b"../filedoc.secret", b"ghost.secret", b".secret", b".txt"]
    for docroot in DOCROOTS:
        for v in VARIANTS:
            for t in T:
                yield dict(kind="http", variant=v, docroot=docroot, target=t)


def _hyp_shard(sub, i):
    with _tree():
        hyp_run(sub, st.one_of(_http_case(), _fp_case()), run_case, 4000, label=f"shard{i}")


def run(ctx):
    with _tree():
        enumerate_run(ctx, _http_fixed(), run_case, stop_after_violation=False)
    for shard in [None] + ENUM_ATOMS:          # ~2 s of CPU in total: not worth 12 processes
        _enum_fp(ctx, shard)
    ctx.extra["exhaustive_scope"] = ("FilePath: child/preauthChild of every concatenation of <= 4 atoms from %r "
                                     "(descendant: same atoms split at '/'), str mode; all four mode pairs for <= 3 atoms"
                                     % (ENUM_ATOMS,))
    ctx.exhaustive = False
    if ctx.has_violation():
        return
    if ctx.thorough:
        ctx.shards(_hyp_shard, list(range(16)))
    else:
        with _tree():
            hyp_run(ctx, _http_case(), run_case, 2000, label="http")
            hyp_run(ctx, _fp_case(), run_case, 2500, label="fp")
