"""C27 - redirect-following agents: target resolution, limit, method rule, credential confinement.

A RedirectAgent / BrowserLikeRedirectAgent is wrapped around a fake inner agent
that records every request and answers request i with the i-th element of a
generated chain of (status code, Location) pairs.  The recorded requests are
compared, hop by hop, with a model written from the statement, RFC 3986 sec. 5.2
(reference resolution, implemented here) and the two classes' docstrings.
"""
import re

from hypothesis import strategies as st

from lib.core import hyp_run, enumerate_run

META = dict(
    property="C27",
    level="exploration",
    technique="complete enumeration of redirect chains up to length 3 over a small universe + Hypothesis chains up to length 8; hop-by-hop model with an RFC 3986 reference resolver",
    level_text="All chains of length 0..3 over 6 Location forms x 3 status codes, for 8 (method, agent class, limit) combinations are enumerated; random chains of length 0..8 over origins {http,https} x {a,b} x {default port, explicit default port, 8080}, Location forms absolute / scheme-relative / path-absolute / relative / dot-segments / query-only / empty / missing, codes 301 302 303 307 308 (+ non-redirect codes), methods GET HEAD POST PUT, limits 0..5, sensitive + configured (also names with unusual Header-Case: letter after digit/underscore/dot, ETag, DNT, X-XSS-Protection) + innocuous request headers; in half of the random cases a second request goes through the same agent object, interleaved with the first by a generated schedule.",
    level_note="Trusted: the reference resolver in this file (RFC 3986 5.2.2 / 5.2.4, no fragments generated) and the origin function (scheme, host, effective port). The inner agent is a fake: nothing is sent; bodies are not generated. Only the statement's three default sensitive names plus the configured ones are asserted. A redirect the agent class documents as not followed automatically (non GET/HEAD method on 301/302/307/308 for RedirectAgent, on 307 for BrowserLikeRedirectAgent) must fail with PageRedirect and issue no request.",
    design_ref="§5 C27",
    rule="case = (agent class, limit, method, start URI, request headers, configured sensitive names, chain of (code, Location)). non-trivial = at least two redirects are followed and some hop after a cross-origin hop has a relative (non-absolute) Location; distinct by the whole case.",
)

REDIRECTS = (301, 302, 303, 307, 308)

# --------------------------------------------------------------------------
# reference: RFC 3986 section 5.2 (written from the RFC's pseudo code)

_URI = re.compile(rb"\A(?:([^:/?#]+):)?(?://([^/?#]*))?([^?#]*)(?:\?([^#]*))?(?:#(.*))?\Z", re.S)


def _split(u):
    m = _URI.match(u)
    return m.group(1), m.group(2), m.group(3), m.group(4)


def _remove_dot_segments(path):
    inp = path
    out = []
    while inp:
        if inp.startswith(b"../"):
            inp = inp[3:]
        elif inp.startswith(b"./"):
            inp = inp[2:]
        elif inp.startswith(b"/./"):
            inp = inp[2:]
        elif inp == b"/.":
            inp = b"/"
        elif inp.startswith(b"/../"):
            inp = inp[3:]
            if out:
                out.pop()
        elif inp == b"/..":
            inp = b"/"
            if out:
                out.pop()
        elif inp in (b".", b".."):
            inp = b""
        else:
            i = inp.find(b"/", 1)
            if i < 0:
                i = len(inp)
            out.append(inp[:i])
            inp = inp[i:]
    return b"".join(out)


def ref_resolve(base, ref):
    bs, ba, bp, bq = _split(base)
    rs, ra, rp, rq = _split(ref)
    if rs is not None:
        ts, ta, tp, tq = rs, ra, _remove_dot_segments(rp), rq
    else:
        if ra is not None:
            ta, tp, tq = ra, _remove_dot_segments(rp), rq
        else:
            if rp == b"":
                tp = bp
                tq = rq if rq is not None else bq
            else:
                if rp.startswith(b"/"):
                    tp = _remove_dot_segments(rp)
                else:
                    if ba is not None and bp == b"":
                        merged = b"/" + rp
                    else:
                        merged = bp[:bp.rfind(b"/") + 1] + rp
                    tp = _remove_dot_segments(merged)
                tq = rq
            ta = ba
        ts = bs
    out = b""
    if ts is not None:
        out += ts + b":"
    if ta is not None:
        out += b"//" + ta
    out += tp
    if tq is not None:
        out += b"?" + tq
    return out


def origin(u):
    s, a, p, q = _split(u)
    a = a or b""
    host, sep, port = a.rpartition(b":")
    if not sep or not port.isdigit():
        host, port = a, None
    s = (s or b"").lower()
    if port is None:
        port = {b"http": 80, b"https": 443}.get(s)
    else:
        port = int(port)
    return (s, host, port)


def _nofrag(u):
    return u.split(b"#", 1)[0]


def is_relative_location(loc):
    s, a, p, q = _split(loc)
    return s is None and a is None


DEFAULT_SENSITIVE = (b"authorization", b"cookie", b"proxy-authorization")


def rule(agent, code, method):
    """-> (set of methods the next request may use, set of failure kinds allowed)
    for a redirect `code` answered to a request with `method`."""
    idem = method in (b"GET", b"HEAD")
    if agent == "strict":
        if code == 303:
            return {b"GET"}, set()
        return ({method}, set()) if idem else (set(), {"PageRedirect"})
    # browser-like: documented: 301/302 behave like 303 (any method -> GET)
    if code in (301, 302, 303):
        return {b"GET"}, set()
    if code == 307:
        return ({method}, set()) if idem else (set(), {"PageRedirect"})
    # 308: the statement: method preserved.  Following with the same method or
    # declining to follow a non GET/HEAD method automatically are both accepted.
    return ({method}, set()) if idem else ({method}, {"PageRedirect"})


_OBJ = None


def _mk():
    from twisted.internet.defer import Deferred, succeed
    from twisted.web._newclient import Response
    from twisted.web.http_headers import Headers
    from twisted.web.iweb import IAgent
    from zope.interface import implementer

    @implementer(IAgent)
    class Inner:
        """Recording inner agent shared by all top-level requests of a case.
        A request made while the harness works on behalf of top-level request
        `owner` (its start, or the delivery of one of its responses) belongs to
        that request: redirects are followed synchronously in the callback."""

        def __init__(self, chains, sync):
            self.chains = chains            # owner -> chain
            self.sync = sync
            self.owner = 0
            self.requests = {k: [] for k in chains}
            self.responses = {k: [] for k in chains}
            self.pending = {k: [] for k in chains}

        def _response(self, owner, i):
            chain = self.chains[owner]
            code, loc = chain[i] if i < len(chain) else (200, None)
            h = Headers()
            if loc is not None:
                h.addRawHeader(b"Location", loc)
            r = Response((b"HTTP", 1, 1), code, b"X", h, None)
            self.responses[owner].append(r)
            return r

        def request(self, method, uri, headers=None, bodyProducer=None):
            o = self.owner
            i = len(self.requests[o])
            self.requests[o].append((method, uri,
                                     None if headers is None else
                                     [(n, list(vs)) for n, vs in headers.getAllRawHeaders()]))
            if self.sync:
                return succeed(self._response(o, i))
            d = Deferred()
            self.pending[o].append((i, d))
            return d

        def step(self, owner):
            """answer the oldest unanswered inner request of `owner`; False if none"""
            if not self.pending[owner]:
                return False
            i, d = self.pending[owner].pop(0)
            self.owner = owner
            d.callback(self._response(owner, i))
            return True

    return Inner


def _judge(ctx, case, agent_kind, limit, custom, req, reqs, responses, out, problems_found, tag):
    """Compare what one top-level request did with the model; appends
    (signature, detail) to problems_found, raises directly for stop-branch
    violations, does the per-request bookkeeping."""
    from twisted.web._newclient import ResponseFailed
    method, uri, hdrs = req["method"], req["uri"], req.get("headers")
    chain = [tuple(x) for x in req["chain"]]
    ctx.check(len(out) == 1, "result-deferred-fired-%d-times" % len(out), case, tag + repr(out))
    kind, val = out[0]
    ctx.check(len(reqs) >= 1 and reqs[0][0] == method and reqs[0][1] == uri, "first-request-altered", case, tag + repr(reqs[:1]))

    # ---- credential confinement (independent of everything else) ---------------
    o0 = origin(uri)
    sens = set(DEFAULT_SENSITIVE) | {c.lower() for c in custom}
    crossed = False
    kept_same_origin = 0
    for j, (m, u, hs) in enumerate(reqs):
        oj = origin(u)
        names = {n.lower() for n, vs in (hs or [])}
        if oj != o0:
            crossed = True
            leaked = sorted(names & sens)
            if leaked:
                which = ("scheme" if oj[0] != o0[0] else "host" if oj[1] != o0[1] else "port")
                problems_found.append(("sensitive-header-sent-cross-origin:" + which,
                                       f"{tag}request {j} to {u!r} (origin {oj}, original {o0}) carries {leaked}"))
        elif j > 0 and names & sens:
            kept_same_origin += 1

    # ---- hop by hop -------------------------------------------------------------
    exp_m = method
    count = 0
    i = 0
    while True:
        code, loc = chain[i] if i < len(chain) else (200, None)
        if code not in REDIRECTS:
            ctx.check(len(reqs) == i + 1, "request-after-final-response", case,
                      f"{tag}response {i} has code {code} but {len(reqs)} requests were made: {reqs!r}"[:700])
            ctx.check(kind == "ok" and val is responses[i], "final-response-not-delivered", case, tag + repr(out))
            break
        follow, fails = rule(agent_kind, code, exp_m)
        if follow:
            problems = set()
            if count >= limit:
                problems.add("InfiniteRedirection")
            if loc is None:
                problems.add("RedirectWithNoLocation")
            if problems:
                follow, fails = set(), fails | problems
        if len(reqs) > i + 1:
            nm, nu, nh = reqs[i + 1]
            if not follow:
                if "InfiniteRedirection" in fails:
                    ctx.violation("redirect-followed-beyond-limit", case,
                                  f"{tag}limit {limit}, {count} already followed, yet request {i + 1} was made: {reqs!r}"[:700])
                ctx.violation("redirect-followed-where-documented-not-to", case,
                              f"{tag}{agent_kind} agent, {exp_m!r} got {code}: must fail with {sorted(fails)}; next request {reqs[i + 1]!r}"[:700])
            if nm not in follow:
                if code in (307, 308):
                    sig = "method-not-preserved-on-%d:%s" % (code, agent_kind)
                elif code == 303:
                    sig = "method-not-GET-after-303"
                else:
                    sig = "wrong-method-after-%d:%s" % (code, agent_kind)
                problems_found.append((sig, f"{tag}{agent_kind} agent: {exp_m!r} request got {code}; next request uses {nm!r}, allowed {sorted(follow)}"))
            want = ref_resolve(_nofrag(reqs[i][1]), loc)
            if _nofrag(nu) != want:
                vs_original = ref_resolve(_nofrag(uri), loc)
                if i >= 1 and _nofrag(nu) == vs_original:
                    sig = "later-hop-location-resolved-against-original-uri"
                else:
                    sig = "wrong-redirect-target"
                problems_found.append((sig, f"{tag}hop {i + 1}: request {i} went to {reqs[i][1]!r} and got Location {loc!r}: "
                                            f"next request goes to {nu!r}, expected {want!r} (original URI {uri!r})"))
            exp_m = nm
            count += 1
            i += 1
            continue
        # the agent stopped here
        ctx.check(bool(fails), "redirect-not-followed", case,
                  f"{tag}{agent_kind} agent, {exp_m!r} got {code} Location {loc!r} with {count}/{limit} followed: result {out!r}"[:700])
        ctx.check(kind == "err" and val.check(ResponseFailed) is not None, "stopped-without-ResponseFailed", case, tag + repr(out))
        inner_f = val.value.reasons[0]
        got = type(inner_f.value).__name__
        ctx.check(got in fails, "wrong-failure:" + got, case, f"{tag}allowed {sorted(fails)}; {inner_f!r}")
        ctx.check(val.value.response is responses[i], "failure-carries-wrong-response", case, tag)
        break
    # ---- bookkeeping ------------------------------------------------------------
    hops = len(reqs) - 1
    ctx.count("hops=%d" % min(hops, 6) + ("+" if hops > 6 else ""))
    ctx.count("outcome=" + (kind if kind == "ok" else type(val.value.reasons[0].value).__name__))
    if crossed:
        ctx.count("cross-origin request made")
    if kept_same_origin:
        ctx.count("sensitive header kept on same-origin redirect")
    special = {c.lower() for c in custom} & SPECIAL_CASED
    if special and crossed and hdrs and {n.lower() for n, v in hdrs} & special:
        ctx.count("configured name with unusual Header-Case sent, then cross-origin hop")
    rel_after_cross = False
    seen_cross = False
    for j in range(1, len(reqs)):
        loc = chain[j - 1][1]
        if seen_cross and loc is not None and is_relative_location(loc):
            rel_after_cross = True
        if origin(reqs[j][1]) != origin(reqs[j - 1][1]):
            seen_cross = True
    if any(m != method for m, u, h in reqs):
        ctx.count("method switched")
    return hops >= 2 and rel_after_cross, crossed


def run_case(ctx, case):
    global _OBJ
    from twisted.web import client
    from twisted.web.http_headers import Headers
    if _OBJ is None:
        _OBJ = _mk()
    Inner = _OBJ

    agent_kind = case["agent"]
    limit = case["limit"]
    custom = list(case.get("custom") or [])
    tops = [case]
    if case.get("second") is not None:
        tops.append(case["second"])
    schedule = list(case.get("schedule") or [])
    concurrent = len(tops) > 1

    inner = Inner({k: [tuple(x) for x in t["chain"]] for k, t in enumerate(tops)}, sync=not concurrent)
    cls = client.RedirectAgent if agent_kind == "strict" else client.BrowserLikeRedirectAgent
    # ONE agent object serves all top-level requests of the case
    agent = cls(inner, redirectLimit=limit, sensitiveHeaderNames=custom)
    outs = {k: [] for k in range(len(tops))}
    started = set()

    def start(k):
        t = tops[k]
        headers = None
        if t.get("headers") is not None:
            headers = Headers()
            for n, v in t["headers"]:
                headers.addRawHeader(n, v)
        started.add(k)
        inner.owner = k
        d = agent.request(t["method"], t["uri"], headers)
        d.addCallbacks(lambda r: outs[k].append(("ok", r)), lambda f: outs[k].append(("err", f)))

    start(0)
    overlap = False
    for k in schedule:
        if k >= len(tops):
            continue
        if k not in started:
            if any(inner.pending[j] for j in started):
                overlap = True
            start(k)
        else:
            inner.step(k)
    for k in range(len(tops)):
        if k not in started:
            if any(inner.pending[j] for j in started):
                overlap = True
            start(k)
        while inner.step(k):
            pass

    problems_found = []
    nt = False
    crossed_any = False
    for k, t in enumerate(tops):
        tag = "" if not concurrent else "[request %d] " % k
        a, c = _judge(ctx, case, agent_kind, limit, custom, t, inner.requests[k], inner.responses[k], outs[k],
                      problems_found, tag)
        nt = nt or a
        crossed_any = crossed_any or c
    ctx.count("agent=" + agent_kind)
    if concurrent:
        ctx.count("two requests through one agent object: " + ("in flight together" if overlap else "one after the other"))
        if overlap and origin(tops[0]["uri"]) != origin(tops[1]["uri"]) and crossed_any:
            ctx.count("two requests in flight, different origins, a cross-origin hop")
    if nt:
        ctx.nontrivial((agent_kind, limit, custom, [(t["method"], t["uri"], t.get("headers"), t["chain"]) for t in tops], schedule))
        ctx.count("nontrivial")
        if len(case["chain"]) % 3 == 1:
            ctx.sample(case)

    # ---- report: a root cause that is not a listed finding goes first ------------
    problems_found.sort(key=lambda p: p[0] in ctx.known_sigs)
    for sig, detail in problems_found[:1]:
        ctx.violation(sig, case, detail)


# --------------------------------------------------------------------------
# generators

ORIGINS = [b"http://a", b"https://a", b"http://b", b"https://b", b"http://a:8080", b"https://a:8080",
           b"http://b:8080", b"https://b:8080", b"http://a:80", b"https://a:443", b"http://a:443", b"https://b:80"]
PATHS = [b"/", b"/x/y", b"/x/y/", b"/deep/er/z?q=1", b"", b"/p?k=v"]
REL = [b"r", b"r/s", b"../u", b"./v", b"../../w", b"?n=1", b"", b"..", b".", b"r?x=y", b"s/"]
PATHABS = [b"/m", b"/m/n/", b"/m/../o", b"/"]


def _location(k, a, b):
    """Location form number k built from the indices a, b (plain integers, so
    that a whole case is a single cheap draw and shrinks towards simple forms)."""
    if k <= 2:
        return ORIGINS[a % len(ORIGINS)] + PATHS[b % len(PATHS)]
    if k == 3:
        o = ORIGINS[a % len(ORIGINS)]
        return o[o.index(b"//"):] + PATHS[b % len(PATHS)]
    if k <= 5:
        return PATHABS[a % len(PATHABS)]
    if k <= 8:
        return REL[a % len(REL)]
    return None


SENS_HDRS = [b"Authorization", b"authorization", b"Cookie", b"COOKIE", b"Proxy-Authorization", b"X-Token", b"x-token",
             b"X-Api-Key",
             # names whose Header-Case is not what a naive title-casing gives: a letter after a digit / '_' / '.',
             # and the names Headers capitalizes specially
             b"X-3scale-Secret", b"x_api_key", b"X-Auth.Session", b"ETag", b"dnt", b"X-XSS-Protection",
             b"x-b3-traceid", b"Www-Authenticate-2fa"]
# lower-cased names of that kind (for the class histogram only)
SPECIAL_CASED = {b"x-3scale-secret", b"x_api_key", b"x-auth.session", b"etag", b"dnt", b"x-xss-protection",
                 b"www-authenticate-2fa"}
PLAIN_HDRS = [b"Accept", b"User-Agent", b"X-Plain"]
ALL_HDRS = SENS_HDRS + PLAIN_HDRS
CODES_TAME = [301, 302, 303, 307, 308]
CODES_WILD = [301, 302, 303, 307, 308, 301, 302, 303, 307, 308, 200, 404, 304, 300]
CUSTOMS = [[], [b"X-Token"], [b"x-tOkEn", b"X-API-KEY"], [b"x-api-key"],
           [b"X-3scale-Secret", b"x_api_key"], [b"x-auth.session", b"etag", b"DNT"],
           [b"X-Xss-Protection", b"X_API_KEY", b"WWW-Authenticate-2FA"], [b"x-3SCALE-secret", b"ETag", b"X-Token"]]
METHODS = [b"GET", b"GET", b"GET", b"HEAD", b"POST", b"PUT"]


def _build_req(tame, steps, hsel, meth, o, p):
    chain = []
    for c, k, a, b in steps:
        if tame:
            chain.append((CODES_TAME[c % 5], _location(k % 9, a, b)))
        else:
            chain.append((CODES_WILD[c % len(CODES_WILD)], _location(k, a, b)))
    hdrs = None
    if hsel is not None:
        seen = set()
        hdrs = []
        for i, h in enumerate(hsel):
            nm = ALL_HDRS[h]
            if nm.lower() not in seen:
                seen.add(nm.lower())
                hdrs.append([nm, b"secret-%d" % i])
    return dict(method=METHODS[meth], uri=ORIGINS[o] + PATHS[p], headers=hdrs, chain=chain)


def _build(t):
    tame, steps, hsel, misc, second = t
    tame = tame > 0          # mostly chains that can be followed to the end
    lim, cust, meth, agent, o, p = misc
    case = _build_req(tame, steps, hsel, meth, o, p)
    n = len(case["chain"])
    limit = [n, n + 1, 8, 20][lim % 4] if (tame and lim >= 6) else lim % 6
    case.update(agent=["strict", "browser"][agent], limit=limit, custom=CUSTOMS[cust])
    if second is not None:
        # a second request through the SAME agent object, interleaved with the
        # first one as the schedule says (0 / 1 = next step of that request)
        steps2, hsel2, (meth2, o2, p2), schedule, aim = second
        case["second"] = _build_req(True, steps2, hsel2, meth2, o2, p2)
        case["schedule"] = schedule
        if aim and case["chain"]:
            # the first request is redirected to where the second one is going
            k = (aim - 1) % len(case["chain"])
            case["chain"][k] = (case["chain"][k][0], case["second"]["uri"])
    return case


def redirect_case():
    step = st.tuples(st.integers(0, 13), st.integers(0, 9), st.integers(0, 11), st.integers(0, 10))
    hsel = st.one_of(st.none(), st.lists(st.integers(0, len(ALL_HDRS) - 1), max_size=5))
    second = st.tuples(st.lists(step, max_size=3), hsel,
                       st.tuples(st.integers(0, 5), st.integers(0, len(ORIGINS) - 1), st.integers(0, len(PATHS) - 1)),
                       st.lists(st.integers(0, 1), max_size=10), st.integers(0, 3))
    return st.tuples(
        st.integers(0, 3),
        st.lists(step, max_size=8),
        hsel,
        st.tuples(st.integers(0, 23), st.integers(0, len(CUSTOMS) - 1), st.integers(0, 5), st.integers(0, 1),
                  st.integers(0, len(ORIGINS) - 1), st.integers(0, len(PATHS) - 1)),
        st.one_of(st.none(), second),
    ).map(_build)


SMALL_LOCS = [b"http://b/p/q", b"https://a/s/t", b"/m", b"r", b"../u", None]
SMALL_CODES = [302, 303, 308]
SMALL_HDRS = [[b"Authorization", b"s1"], [b"X-Token", b"s2"], [b"Accept", b"*/*"], [b"x-3scale-Secret", b"s3"], [b"ETag", b"s4"]]
SMALL_CUSTOM = [b"x-token", b"X-3SCALE-secret", b"etag"]


def _small_cases(arg):
    import itertools
    method, agent, limit = arg
    steps = [(c, l) for c in SMALL_CODES for l in SMALL_LOCS]
    for n in range(0, 4):
        for chain in itertools.product(steps, repeat=n):
            yield dict(agent=agent, limit=limit, method=method, uri=b"http://a/x/y", headers=SMALL_HDRS,
                       custom=SMALL_CUSTOM, chain=list(chain))


SMALL_SCHEDULES = [[1, 0, 0, 1, 0, 1], [0, 1, 0, 1, 0, 1], [1, 1, 0, 0, 0], [0, 0, 1, 1]]
SMALL_SECOND = [(u, ch) for u in (b"http://b/p/q", b"https://a/s/t", b"http://a/z")
                for ch in ([], [(302, b"http://a/x/z")], [(302, b"r")])]


def _small_concurrent_cases(agent):
    """two requests through one agent object: the first over all chains of
    length 0..2, the second from three origins, four interleavings"""
    import itertools
    steps = [(c, l) for c in (302, 303) for l in SMALL_LOCS]
    for n in range(0, 3):
        for chain in itertools.product(steps, repeat=n):
            for u2, ch2 in SMALL_SECOND:
                for sched in SMALL_SCHEDULES:
                    yield dict(agent=agent, limit=5, method=b"GET", uri=b"http://a/x/y", headers=SMALL_HDRS,
                               custom=SMALL_CUSTOM, chain=list(chain),
                               second=dict(method=b"GET", uri=u2, headers=[[b"Cookie", b"c2"]], chain=list(ch2)),
                               schedule=sched)


def _small_shard(ctx, arg):
    if arg[0] == "concurrent":
        enumerate_run(ctx, _small_concurrent_cases(arg[1]), run_case, stop_after_violation=False)
        return
    enumerate_run(ctx, _small_cases(arg), run_case, stop_after_violation=False)


def _hyp_shard(ctx, i):
    hyp_run(ctx, redirect_case(), run_case, 40000, label=f"shard{i}")


def run(ctx):
    import twisted.web.client  # noqa: imported before the fork so that the shards share it
    args = [(b"GET", "strict", 5), (b"GET", "browser", 5), (b"POST", "strict", 5), (b"POST", "browser", 5),
            (b"HEAD", "browser", 2), (b"GET", "strict", 2), (b"GET", "browser", 1), (b"POST", "browser", 2)]
    ctx.shards(_small_shard, args + [("concurrent", "strict"), ("concurrent", "browser")])
    ctx.extra["small_scope"] = ("all chains of length 0..3 over 3 codes x 6 Location forms, start http://a/x/y, for "
                                + ", ".join(f"{m.decode()}/{a}/limit {l}" for m, a, l in args)
                                + "; two requests through one agent object: first over all chains of length 0..2 (2 codes x 6 Locations), "
                                  "second from 3 origins x 3 chains, 4 interleavings, both agent classes")
    ctx.exhaustive = False
    if ctx.has_violation():
        return
    if ctx.thorough:
        ctx.shards(_hyp_shard, list(range(16)))
    else:
        hyp_run(ctx, redirect_case(), run_case, 3000, label="chains")
