"""C28 — template flattening never lets content become markup.

A generated stan tree (plain data) is (a) built into real twisted.web.template
objects and flattened with flattenString, (b) evaluated by a small independent
model into the structure a parser must see.  The flattened bytes are parsed by
expat (XML) and by the vendored html5lib (HTML5 tokenizer + tree builder) and
the parsed structure is compared with the model's.  A third, metamorphic
oracle loads the output with twisted's own XMLString loader, flattens the
loaded stan again and requires the same XML structure.
"""
import copy
import itertools
import xml.parsers.expat as expat
import xml.etree.ElementTree as ET

from hypothesis import strategies as st

from lib.core import hyp_run, enumerate_run, HarnessError, dumps

META = dict(
    property="C28",
    level="exploration",
    technique="random stan trees over a hostile alphabet + complete short-string enumeration per escaping context; flattened output re-parsed by expat and by html5lib and compared with an independent structure model; XMLString reload/re-flatten round trip",
    level_text="Trees (depth <= 5) of Tag / text / bytes / Comment / CDATA / CharRef / slot / list / tuple / generator / Deferred (fired and unfired) / coroutine / IRenderable / Element renderers with content drawn from markup-significant tokens are flattened by the real flattenString; the bytes are parsed by expat (when every character is XML-representable and no comment contains '--', which XML cannot carry) and by html5lib 1.1 (when no CDATA node is present and tag names come from a set without HTML5 implied-end-tag / raw-text rules) and the resulting element/attribute/text/comment structure must equal the model's, modulo the parsers' own input normalisation (CR/CRLF->LF, XML attribute white space, HTML NUL handling) and modulo the documented comment rewriting ('-->' -> '--&gt;', trailing '-' gets a space). In addition all strings up to length 3-4 over a per-context alphabet are enumerated completely in text, attribute, comment and CDATA position, a nested same-name slot fill (innermost fill wins) is enumerated with all strings up to length 2, and single strings whose escaped form is 65535/65536/65537 bytes (the flattener's buffer size; plain, and reached through '<', '&', '\"' escaping) are placed in text, attribute, comment, CDATA, slot and after-Deferred position behind already buffered markup. Random trees re-fill slot names on descendants where the documented innermost-wins rule is unambiguous and carry a buffer-sized string in about 1 case of 20. Sampled beyond that; no proof.",
    level_note="Trusted: expat, vendored html5lib 1.1 (+webencodings, six) as the HTML5 reference, the ~80-line structure model in this file. CDATA is checked with XML only (in HTML content '<![CDATA[' is a bogus comment - a CDATA node is never safe there). Markup nested inside an attribute is checked by re-parsing the attribute value; attribute values that mix top-level strings with markup nodes are only checked for presence. Comments containing NUL are not given to html5lib (its 1.1 tokenizer mishandles NUL in the comment-start states). Bytes content is generated as valid UTF-8.",
    design_ref="§5 C28",
    rule="case = {root: node tree, late: order in which unfired Deferreds are fired}. non-trivial = at least one string in comment / CDATA / attribute / text position contains a markup-significant token (< > & quote -- ]]>) and at least one parser oracle ran; distinct by the canonical JSON of the case.",
)

HTML_SAFE = ("div", "span", "section", "foo", "x-y")
HTML_VOID = ("br", "img", "hr", "input")
XML_ONLY = ("Root", "ns:el", "_a.b", "p", "table", "script", "title", "textarea", "a")
ATTR_HTML = ("id", "class", "title", "data-x", "href", "onclick")
ATTR_XML = ("xml:lang", "A", "_b", "n:at")

TEMPLATE_NS = "http://twistedmatrix.com/ns/twisted.web.template/0.1"


# --------------------------------------------------------------------------
# building the real objects

class _Built:
    def __init__(self):
        self.late = []      # (Deferred, value) to be fired by the harness


def build(node, b):
    from twisted.internet import defer
    from twisted.web.template import Tag, slot, Comment, CDATA, CharRef, Element, renderer, TagLoader
    from twisted.web.iweb import IRenderable
    from zope.interface import implementer
    k = node["k"]
    if k == "text":
        return node["s"]
    if k == "bytes":
        return node["s"].encode("utf-8")
    if k == "comment":
        return Comment(node["s"].encode("utf-8") if node.get("b") else node["s"])
    if k == "cdata":
        return CDATA(node["s"].encode("utf-8") if node.get("b") else node["s"])
    if k == "charref":
        return CharRef(node["n"])
    if k == "slot":
        d = node.get("default")
        return slot(node["name"], default=None if d is None else build(d, b))
    if k in ("tag", "render"):
        name = node["name"]
        attrs = {}
        for an, av in node.get("attrs", []):
            key = an.encode("ascii") if node.get("bn") else an
            attrs[key] = build(av, b)
        t = Tag(name.encode("ascii") if node.get("bn") else name, attributes=attrs,
                children=[build(c, b) for c in node.get("children", [])])
        if node.get("slots"):
            t.fillSlots(**{n: build(v, b) for n, v in node["slots"]})
        if k == "tag":
            return t
        t.render = "meth"
        extra = [build(c, b) for c in node.get("extra", [])]
        fill = {n: build(v, b) for n, v in node.get("fill", [])}
        mode = node.get("mode", "same")

        class E(Element):
            @renderer
            def meth(self, request, tag):
                if mode == "clear":
                    tag.clear()
                tag(*extra)
                if fill:
                    tag.fillSlots(**fill)
                return tag
        return E(loader=TagLoader(t))
    if k == "wrap":
        w = node["w"]
        kids = [build(c, b) for c in node["c"]]
        if w == "list":
            return kids
        if w == "tuple":
            return tuple(kids)
        if w == "gen":
            return (x for x in kids)
        if w == "transparent":
            return Tag("", children=kids)
        if w == "deferred":
            return defer.succeed(kids)
        if w == "late":
            d = defer.Deferred()
            b.late.append((d, kids))
            return d
        if w == "coroutine":
            async def co():
                return kids
            return co()
        if w == "renderable":
            @implementer(IRenderable)
            class R:
                def render(self, request):
                    return kids

                def lookupRenderMethod(self, name):
                    raise HarnessError("unexpected renderer lookup " + name)
            return R()
    raise HarnessError("bad node %r" % (node,))


# --------------------------------------------------------------------------
# the model: node -> items
#   ["t", str] text   ["r", ordinal] char ref   ["c", str] comment
#   ["d", str] cdata  ["e", name, {attr: value}, [items]]
#   attribute value: ["s", str] | ["m", items] | ["?"] (mixed, unchecked)

def comment_escape(s):
    s = s.replace("-->", "--&gt;")
    if s.endswith("-"):
        s += " "
    return s


def comment_norm(s):
    """Comment data cannot be carried verbatim (there is no escape inside a
    comment): the flattener documents '-->' -> '--&gt;' and a space after a
    trailing '-'.  Comments are compared modulo '>' <-> '&gt;' and that space,
    so that any repair in the same style (e.g. '--!&gt;', a leading '&gt;')
    is accepted too; what is asserted is that the comment is ONE comment with
    this content, ending where the Comment node ends."""
    s = s.replace("&gt;", ">")
    if s.endswith("- "):
        s = s[:-1]
    return s


_MODEL_STATS = {}


def model(node, env):
    k = node["k"]
    if k in ("text", "bytes"):
        return [["t", node["s"]]]
    if k == "comment":
        return [["c", node["s"]]]
    if k == "cdata":
        return [["d", node["s"]]]
    if k == "charref":
        return [["r", node["n"]]]
    if k == "slot":
        for depth, frame in enumerate(reversed(env)):
            if frame is not None and node["name"] in frame:
                # documented rule: the innermost enclosing fill wins
                outer = [f for f in env[:len(env) - 1 - depth] if f is not None and node["name"] in f
                         and f[node["name"]] is not frame[node["name"]]]
                if outer:
                    _MODEL_STATS["slot-use-with-same-name-filled-further-out"] = \
                        _MODEL_STATS.get("slot-use-with-same-name-filled-further-out", 0) + 1
                return model(frame[node["name"]], env)
        if node.get("default") is not None:
            return model(node["default"], env)
        raise HarnessError("generated an unfilled slot")
    if k in ("tag", "render"):
        frame = dict((n, v) for n, v in node.get("slots", [])) or None
        if k == "render":
            # the render tag pushes its own slot data, the returned clone pushes
            # its own (plus what the renderer filled) again
            frame2 = dict(frame or {})
            frame2.update((n, v) for n, v in node.get("fill", []))
            env2 = env + [frame, frame2 or None]
            kids = ([] if node.get("mode") == "clear" else list(node.get("children", []))) + list(node.get("extra", []))
        else:
            env2 = env + [frame]
            kids = node.get("children", [])
        attrs = {}
        for an, av in node.get("attrs", []):
            items = model(av, env2)
            if all(i[0] == "t" for i in items):
                attrs[an] = ["s", "".join(i[1] for i in items)]
            elif not any(i[0] == "t" for i in items):
                attrs[an] = ["m", items]
            else:
                attrs[an] = ["?"]
        children = []
        for c in kids:
            children.extend(model(c, env2))
        return [["e", node["name"], attrs, children]]
    if k == "wrap":
        out = []
        env2 = env + [None] if node["w"] == "transparent" else env
        for c in node["c"]:
            out.extend(model(c, env2))
        return out
    raise HarnessError("bad node %r" % (node,))


def walk(node):
    """All nodes of a case tree (including attribute values, slot values, defaults)."""
    yield node
    k = node["k"]
    if k in ("tag", "render"):
        for _, v in node.get("attrs", []):
            yield from walk(v)
        for c in node.get("children", []):
            yield from walk(c)
        for _, v in node.get("slots", []):
            yield from walk(v)
        for c in node.get("extra", []):
            yield from walk(c)
        for _, v in node.get("fill", []):
            yield from walk(v)
    elif k == "wrap":
        for c in node["c"]:
            yield from walk(c)
    elif k == "slot" and node.get("default") is not None:
        yield from walk(node["default"])


def canon(items, textfn, attrfn, commentfn, droptext=None):
    """Normalise model items for comparison: char refs and cdata become text,
    adjacent text merged, empty text dropped, string normalisation applied."""
    # text nodes that are adjacent in the tree are adjacent in the output (a CR
    # ending one and an LF starting the next are one line end to the parser);
    # CDATA sections and character references are separated by their markup
    joined = []
    for i in items:
        if i[0] == "t" and joined and joined[-1][0] == "t":
            joined[-1] = ["t", joined[-1][1] + i[1]]
        else:
            joined.append(i)
    out = []
    for i in joined:
        if i[0] in ("t", "d"):
            s = textfn(i[1])
        elif i[0] == "r":
            s = chr(i[1])
        elif i[0] == "c":
            out.append(["c", commentfn(i[1])])
            continue
        else:
            attrs = {}
            for an, av in i[2].items():
                if av[0] == "s":
                    attrs[an] = ["s", attrfn(av[1])]
                else:
                    attrs[an] = av
            out.append(["e", i[1], attrs, canon(i[3], textfn, attrfn, commentfn)])
            continue
        if out and out[-1][0] == "t":
            out[-1][1] += s
        else:
            out.append(["t", s])
    return [i for i in out if not (i[0] == "t" and i[1] == "")]


# --------------------------------------------------------------------------
# parsers -> same item shape (attribute values are plain str here)

class XMLIllFormed(Exception):
    pass


def parse_xml(data):
    stack = [[]]

    def start(name, attrs):
        el = ["e", name, dict(attrs), []]
        stack[-1].append(el)
        stack.append(el[3])

    def end(name):
        stack.pop()

    def chars(s):
        cur = stack[-1]
        if cur and cur[-1][0] == "t":
            cur[-1][1] += s
        else:
            cur.append(["t", s])

    def comment(s):
        stack[-1].append(["c", s])

    p = expat.ParserCreate("utf-8")
    p.buffer_text = True
    p.StartElementHandler = start
    p.EndElementHandler = end
    p.CharacterDataHandler = chars
    p.CommentHandler = comment
    try:
        p.Parse(data, True)
    except expat.ExpatError as e:
        raise XMLIllFormed(str(e))
    return stack[0]


def _from_etree(el):
    out = []

    def text(s):
        if s:
            if out and out[-1][0] == "t":
                out[-1][1] += s
            else:
                out.append(["t", s])
    text(el.text)
    for ch in el:
        if ch.tag is ET.Comment:
            out.append(["c", ch.text or ""])
        elif isinstance(ch.tag, str):
            out.append(["e", ch.tag, dict(ch.attrib), _from_etree(ch)])
        else:
            out.append(["x", repr(ch.tag), {}, []])
        text(ch.tail)
    return out


def parse_html(text):
    import html5lib
    doc = html5lib.parse(text, treebuilder="etree", namespaceHTMLElements=False)
    top = _from_etree(doc)
    # expected shape: <html><head/><body> ...content... </body></html>
    if (len(top) == 2 and top[0][:2] == ["e", "head"] and not top[0][3] and not top[0][2]
            and top[1][:2] == ["e", "body"] and not top[1][2] and not doc.attrib):
        return top[1][3]
    return [["x", "document-shape", {}, top]]


class Mismatch(Exception):
    pass


def compare(exp, got, reparse, nestfn, path="/"):
    """exp: canon()ed model items; got: parser items."""
    if len(exp) != len(got):
        raise Mismatch(f"{path}: expected {len(exp)} nodes {brief(exp)}, parsed {len(got)} {brief(got)}")
    for n, (e, g) in enumerate(zip(exp, got)):
        here = f"{path}{n}"
        if e[0] != g[0]:
            raise Mismatch(f"{here}: expected kind {e[0]} {brief([e])}, parsed {brief([g])}")
        if e[0] == "c":
            if comment_norm(e[1]) != comment_norm(g[1]):
                raise Mismatch(f"{here}: comment expected {e[1]!r} (modulo the documented rewriting), parsed {g[1]!r}")
            continue
        if e[0] == "t":
            if e[1] != g[1]:
                raise Mismatch(f"{here}: {'text' if e[0] == 't' else 'comment'} expected {e[1]!r}, parsed {g[1]!r}")
            continue
        if e[1] != g[1]:
            raise Mismatch(f"{here}: element {e[1]!r} parsed as {g[1]!r}")
        if sorted(e[2]) != sorted(g[2]):
            raise Mismatch(f"{here}<{e[1]}>: attributes expected {sorted(e[2])}, parsed {sorted(g[2])}")
        for an, av in e[2].items():
            gv = g[2][an]
            if av[0] == "s":
                if av[1] != gv:
                    raise Mismatch(f"{here}<{e[1]}>@{an}: value expected {av[1]!r}, parsed {gv!r}")
            elif av[0] == "m":
                inner = reparse(gv, f"{here}<{e[1]}>@{an}")
                compare(nestfn(av[1]), inner, reparse, nestfn, f"{here}<{e[1]}>@{an}/")
        compare(e[3], g[3], reparse, nestfn, here + "/")


def brief(items):
    def b(i):
        if i[0] == "e" or i[0] == "x":
            return f"<{i[1]}>"
        return f"{i[0]}:{i[1]!r}"
    return "[" + ", ".join(b(i) for i in items[:8]) + (" ..." if len(items) > 8 else "") + "]"


# -- string normalisations ---------------------------------------------------

def xml_text(s):
    return s.replace("\r\n", "\n").replace("\r", "\n")


def xml_attr(s):
    return xml_text(s).replace("\n", " ").replace("\t", " ")


def html_text(s):
    return xml_text(s).replace("\x00", "")


def html_attr(s):
    return xml_text(s).replace("\x00", "�")


def xml_char_ok(o):
    return o in (9, 10, 13) or 0x20 <= o <= 0xD7FF or 0xE000 <= o <= 0xFFFD or 0x10000 <= o <= 0x10FFFF


HOSTILE = ("<", ">", "&", '"', "'", "--", "]]>")

# comment contents that end an HTML5 comment although they contain no '-->'
def comment_trigger(s):
    if s.startswith(">"):
        return "leading-gt"
    if s.startswith("->"):
        return "leading-dash-gt"
    if "--!>" in s:
        return "dash-dash-bang-gt"
    return None


# --------------------------------------------------------------------------

def flatten_case(case):
    from twisted.web.template import flattenString
    b = _Built()
    root = build(case["root"], b)
    res = []
    d = flattenString(None, root)
    d.addBoth(res.append)
    late = list(b.late)
    if case.get("late") == "reverse":
        late.reverse()
    for dd, value in late:
        dd.callback(value)
    return res


def analyse(case):
    nodes = list(walk(case["root"]))
    info = dict(cdata=False, names_html=True, xml_chars=True, comment_dd=False,
                colon=False, hostile=False, triggers=[], kinds=set(), comment_nul=False)
    for n in nodes:
        k = n["k"]
        info["kinds"].add(n["w"] if k == "wrap" else k)
        if k in ("text", "bytes", "comment", "cdata"):
            s = n["s"]
            if not all(xml_char_ok(ord(c)) for c in s):
                info["xml_chars"] = False
            if any(h in s for h in HOSTILE):
                info["hostile"] = True
        if k == "cdata":
            info["cdata"] = True
        if k == "comment":
            if "--" in comment_escape(n["s"]):
                info["comment_dd"] = True
            if "\x00" in n["s"]:
                # html5lib 1.1 mis-tokenises NUL in its comment-start states
                # ('<!---\0-->' yields '-\ufffd-'): reference quirk, not twisted's
                info["comment_nul"] = True
            t = comment_trigger(n["s"])
            if t:
                info["triggers"].append(t)
        if k == "charref":
            o = n["n"]
            if not xml_char_ok(o):
                info["xml_chars"] = False
        if k in ("tag", "render"):
            nm = n["name"]
            void_with_kids = nm in HTML_VOID and (n.get("children") or n.get("extra"))
            if (nm not in HTML_SAFE and nm not in HTML_VOID) or void_with_kids:
                info["names_html"] = False
            if ":" in nm:
                info["colon"] = True
            for an, _ in n.get("attrs", []):
                if an not in ATTR_HTML:
                    info["names_html"] = False
                if ":" in an:
                    info["colon"] = True
    return info


def check_xml(ctx, case, out, expected, sigprefix=""):
    def reparse(value, where):
        try:
            return parse_xml(b"<r>" + value.encode("utf-8") + b"</r>")[0][3]
        except XMLIllFormed as e:
            raise Mismatch(f"{where}: markup inside the attribute value {value!r} is ill-formed: {e}")

    def nest(items):
        # the nested markup went through attribute-value normalisation once
        return canon(items, xml_attr, xml_attr, xml_attr)
    try:
        got = parse_xml(out)
    except XMLIllFormed as e:
        ctx.violation(sigprefix + "xml-not-well-formed", case, f"{e}; output={out!r}")
    try:
        compare(canon(expected, xml_text, xml_attr, xml_text), got, reparse, nest)
    except Mismatch as m:
        ctx.violation(sigprefix + "xml-structure-differs", case, f"{m}; output={out!r}")
    return got


def html_diff(out, expected):
    def reparse(value, where):
        return parse_html("<div>" + value + "</div>")[0][3]

    def nest(items):
        # text nested in an attribute was tokenised as attribute value first
        return canon(items, html_attr, html_attr, html_attr)
    got = parse_html(out.decode("utf-8"))
    try:
        compare(canon(expected, html_text, html_attr, html_attr), got, reparse, nest)
    except Mismatch as m:
        return str(m)
    return None


def sanitised(case):
    c = copy.deepcopy(case)
    for n in walk(c["root"]):
        if n["k"] == "comment" and comment_trigger(n["s"]):
            n["s"] = "c"
    return c


def run_case(ctx, case):
    from twisted.python.failure import Failure
    info = analyse(case)
    _MODEL_STATS.clear()
    expected = model(case["root"], [])
    for k_, v_ in _MODEL_STATS.items():
        ctx.count(k_, v_)
    biggest = max((len(n["s"]) for n in walk(case["root"]) if "s" in n), default=0)
    if biggest >= 10000:
        ctx.count("has-string>=10000-chars")
    res = flatten_case(case)
    if not res:
        ctx.violation("flatten-never-finished", case, "flattenString's Deferred did not fire after all Deferreds fired")
    if isinstance(res[0], Failure):
        ctx.violation("flatten-failed:" + res[0].type.__name__, case, res[0].getTraceback()[-1500:])
    out = res[0]
    if not isinstance(out, bytes):
        ctx.violation("flatten-result-not-bytes", case, repr(out)[:200])
    try:
        out.decode("utf-8")
    except UnicodeDecodeError as e:
        ctx.violation("output-not-utf8", case, f"{e}: {out!r}")

    do_xml = info["xml_chars"] and not info["comment_dd"]
    do_html = info["names_html"] and not info["cdata"] and not info["comment_nul"]
    for kd in sorted(info["kinds"]):
        ctx.count("has:" + kd)
    ctx.count("oracle:" + ("xml+html" if do_xml and do_html else "xml" if do_xml else "html" if do_html else "none"))

    if do_xml:
        got1 = check_xml(ctx, case, out, expected)
        if not info["colon"]:
            # metamorphic: twisted's own loader + a second flattening
            from twisted.web.template import XMLString, flattenString
            stan = XMLString(out).load()
            res2 = []
            flattenString(None, stan).addBoth(res2.append)
            if not res2 or isinstance(res2[0], Failure):
                ctx.violation("reload-flatten-failed", case, repr(res2)[:600])
            try:
                got2 = parse_xml(res2[0])
            except XMLIllFormed as e:
                ctx.violation("reload-xml-not-well-formed", case, f"{e}; first={out!r} second={res2[0]!r}")
            if got2 != got1:
                ctx.violation("reload-structure-differs", case, f"first={out!r} second={res2[0]!r}")
            ctx.count("reload-roundtrip")

    if do_html:
        diff = html_diff(out, expected)
        if diff is not None:
            if info["triggers"]:
                s = sanitised(case)
                res_s = flatten_case(s)
                if res_s and isinstance(res_s[0], bytes) and html_diff(res_s[0], model(s["root"], [])) is None:
                    trig = sorted(set(info["triggers"]))[0]
                    ctx.violation("html5-comment-ends-early:" + trig, case, f"{diff}; output={out!r}")
            ctx.violation("html5-structure-differs", case, f"{diff}; output={out!r}")

    if (do_xml or do_html) and info["hostile"]:
        ctx.nontrivial(dumps(case))
        ctx.count("nontrivial")
        for n in walk(case["root"]):
            if n["k"] in ("comment", "cdata") and any(h in n["s"] for h in HOSTILE):
                ctx.count("hostile-in:" + n["k"])
        for n in walk(case["root"]):
            if n["k"] in ("tag", "render"):
                for _, av in n.get("attrs", []):
                    if any(x["k"] in ("text", "bytes") and any(h in x["s"] for h in HOSTILE) for x in walk(av)):
                        ctx.count("hostile-in:attribute")
                        break
        if any(a[0] == "m" for e in _elements(expected) for a in e[2].values()):
            ctx.count("markup-inside-attribute")
        small = str(case.get("profile", "")).startswith("small-")
        if len(ctx.samples) < 5 and len(dumps(case)) % 7 == 3 and (not small or not ctx.samples):
            ctx.sample(case)


def _elements(items):
    for i in items:
        if i[0] == "e":
            yield i
            yield from _elements(i[3])
            for a in i[2].values():
                if a[0] == "m":
                    yield from _elements(a[1])


# --------------------------------------------------------------------------
# generators

TOKENS = ["<", ">", "&", '"', "'", "-", "--", "-->", "--!>", "->", "!", "]]>", "]]", "]", "<!--",
          "<![CDATA[", "</x>", "</div>", "<script>", "<div a=\"", "&amp;", "&lt;", "&#60;", "&quot;",
          " ", "\n", "\r", "\r\n", "\t", "x", "=", "/", ";", "é", "€", "\U0001F600",
          "�", " ", "﻿", "\x7f", "\x85"]
CTRL = ["\x00", "\x01", "\x0c", "\x1b", "￾"]
CHARREFS = [38, 60, 62, 34, 39, 233, 0x20AC, 0x1F600, 9, 10, 0xA0, 65, 0x2028]


_INT = {n: st.integers(0, n - 1) for n in range(1, 64)}
_BOOL = st.booleans()
WR = ("list", "tuple", "gen", "transparent", "deferred", "late", "coroutine", "renderable")
WR_REUSABLE = ("list", "tuple", "transparent", "deferred", "late", "renderable")


@st.composite
def tree(draw, profile):
    """One case.  All strategies used here are module-level objects (building
    strategies inside the draw costs more than running the case)."""
    ctrl = profile == "html-ctrl"
    toks = TOKENS + (CTRL if ctrl else [])
    names = HTML_SAFE if profile != "xml" else HTML_SAFE + XML_ONLY
    voids = HTML_VOID
    attrnames = ATTR_HTML if profile != "xml" else ATTR_HTML + ATTR_XML
    ctr = [0]
    big = [None]        # decided at first use: at most one buffer-sized string per case, in 1 case of 20
    tainted = set()     # slot names whose fill by an already flattened Tag may have leaked

    def integer(lo, hi):
        return lo + draw(_INT[hi - lo + 1])

    def pick(seq):
        return seq[draw(_INT[len(seq)])]

    def boolean():
        return draw(_BOOL)

    def S():
        if big[0] is None:
            big[0] = 1 if integer(0, 19) == 0 else 0
        if big[0] and integer(0, 5) == 0:
            big[0] = 0
            # one string whose escaped form is around the flattener's 64 KiB buffer
            ch = pick(["x", "<", "&", '"', "é", ">"])
            width = {"x": 1, "<": 4, "&": 5, '"': 6, "é": 2, ">": 4}[ch]
            target = 65536 + pick([-1, 0, 1, 0, 4000])
            return ch * (target // width) + "y" * pick([0, 1, 2, 3, 5])
        return "".join(pick(toks) for _ in range(integer(0, 5)))

    def subset(seq, maxn):
        out = []
        for _ in range(integer(0, maxn)):
            x = pick(seq)
            if x not in out:
                out.append(x)
        return out

    def leaf(markup):
        opts = ["text", "text", "bytes"]
        if markup:
            opts += ["comment", "comment", "charref"]
            if profile == "xml":
                opts += ["cdata", "cdata"]
        k = pick(opts)
        if k in ("text", "bytes"):
            return dict(k=k, s=S())
        if k == "charref":
            return dict(k=k, n=pick(CHARREFS))
        return dict(k=k, s=S(), b=boolean())

    def attr_value(depth, scope, reusable):
        kind = pick(["s", "s", "s", "s", "s", "m", "x"])
        if kind == "s":
            return node(depth, scope, stringy=True, reusable=reusable)
        if kind == "m":
            return node(depth, scope, stringy=False, reusable=reusable, onlymarkup=True)
        return dict(k="wrap", w="list", c=[node(depth, scope, stringy=boolean(), reusable=reusable)
                                             for _ in range(integer(1, 2))])

    def node(depth, scope, stringy=False, reusable=False, noslot=False, onlymarkup=False):
        """stringy: evaluates to text only. onlymarkup: evaluates to no top-level text."""
        choices = ["mleaf"] if onlymarkup else ["leaf", "leaf"]
        if depth > 0:
            choices += ["wrap"]
            if not stringy:
                choices += ["tag", "tag", "render", "void"]
            if not noslot:
                choices += ["slot"]
        elif not stringy and onlymarkup:
            choices += ["void"]
        c = pick(choices)
        if c == "leaf":
            return leaf(markup=not stringy)
        if c == "mleaf":
            if boolean():
                return dict(k="comment", s=S(), b=boolean())
            return dict(k="charref", n=pick(CHARREFS))
        if c == "wrap":
            w = pick(WR_REUSABLE if reusable else WR)
            n = integer(1 if onlymarkup else 0, 3)
            return dict(k="wrap", w=w, c=[node(depth - 1, scope, stringy, reusable, noslot, onlymarkup) for _ in range(n)])
        if c == "slot":
            if scope and integer(0, 3) > 0:
                # filled by an ancestor; what it evaluates to was decided there
                cands = [s for s in scope if (not stringy or s[1] == "s") and (not onlymarkup or s[1] == "m")
                         and s[0] not in tainted]
                if cands:
                    nm = pick(cands)[0]
                    dflt = None
                    if boolean():
                        dflt = node(0, (), stringy=True, reusable=True, noslot=True)
                    return dict(k="slot", name=nm, default=dflt)
            # a name nobody fills: the default is used
            ctr[0] += 1
            return dict(k="slot", name="u%d" % ctr[0],
                        default=node(max(depth - 1, 0), (), stringy, True, True, onlymarkup))
        if c == "void":
            nm = pick(voids)
            attrs = [[an, attr_value(max(depth - 1, 0), scope, reusable)] for an in subset(attrnames, 2)]
            kids = []
            if profile == "xml" and integer(0, 3) == 0:
                kids = [leaf(True)]
            return dict(k="tag", name=nm, bn=boolean(), attrs=attrs, children=kids)
        # tag / render
        nm = pick(names)
        newscope = list(scope)
        slots = []
        fill = []
        shadowed = []
        for _ in range(integer(0, 2)):
            # A fill either gets a name of its own or re-fills (shadows) a name an
            # ancestor fills: inside this Tag the innermost fill wins by the
            # documented rule.  Slot data is not popped after a plain Tag and leaks
            # to whatever is flattened later (scoping, outside this property), so a
            # shadowed name is "tainted" for everything generated after this Tag:
            # it is not used there unless filled again.
            free = [s_[0] for s_ in newscope if s_[0] not in shadowed and s_[0] not in [x[0] for x in slots + fill]]
            if free and integer(0, 1) == 0:
                sn = pick(free)
                shadowed.append(sn)
                newscope = [s_ for s_ in newscope if s_[0] != sn]
            else:
                ctr[0] += 1
                sn = "s%d" % ctr[0]
            kind = pick(["s", "m", "x"])
            if kind == "s":
                v = node(max(depth - 1, 0), (), True, True, True)
            elif kind == "m":
                v = node(max(depth - 1, 0), (), False, True, True, onlymarkup=True)
            else:
                v = node(max(depth - 1, 0), (), False, True, True)
            newscope.append((sn, kind))
            (fill if c == "render" and boolean() else slots).append([sn, v])
        newscope = tuple(newscope)
        tainted.difference_update(shadowed)
        # a render tag's attributes are deep-cloned: keep them reusable
        attrs = [[an, attr_value(depth - 1, newscope, reusable or c == "render")] for an in subset(attrnames, 3)]
        kids = [node(depth - 1, newscope, False, reusable, noslot) for _ in range(integer(0, 3))]
        for sn in shadowed:
            # use the re-filled name inside this Tag: as a child, and in an
            # attribute when its value is plain text
            if sn in tainted:
                continue        # a descendant filled it yet again: its frame may have leaked
            if integer(0, 3) > 0:
                kids.insert(integer(0, len(kids)), dict(k="slot", name=sn, default=None))
            kind_ = [s_[1] for s_ in newscope if s_[0] == sn][0]
            free_attr = [a for a in attrnames if a not in [x[0] for x in attrs]]
            if kind_ == "s" and free_attr and boolean():
                attrs.append([pick(free_attr), dict(k="slot", name=sn, default=None)])
        out = dict(k=c, name=nm, bn=boolean(), attrs=attrs, children=kids)
        if slots:
            out["slots"] = slots
        if c == "render":
            out["extra"] = [node(depth - 1, newscope, False, reusable, noslot) for _ in range(integer(0, 2))]
            out["mode"] = pick(["same", "same", "clear"])
            if fill:
                out["fill"] = fill
        tainted.update(shadowed)
        return out

    depth = integer(1, 4)
    kids = [node(depth, (), False) for _ in range(integer(1, 3))]
    root = dict(k="tag", name="div", attrs=[], children=kids)
    return dict(root=root, late=pick(["forward", "reverse"]), profile=profile)


def small_cases(which, alphabet, maxlen):
    for n in range(0, maxlen + 1):
        for tup in itertools.product(alphabet, repeat=n):
            s = "".join(tup)
            if which == "text":
                kid = dict(k="text", s=s)
            elif which == "comment":
                kid = dict(k="comment", s=s)
            elif which == "cdata":
                kid = dict(k="cdata", s=s)
            elif which == "attr":
                kid = dict(k="tag", name="span", attrs=[["title", dict(k="text", s=s)]], children=[])
            elif which == "attr-tag":
                kid = dict(k="tag", name="span", attrs=[["title", dict(k="tag", name="foo", attrs=[["id", dict(k="text", s=s)]],
                                                                           children=[dict(k="text", s=s)])]], children=[])
            elif which == "slot-nested":
                # same slot names filled on the enclosing and on the nested element,
                # used in the nested element's text and attribute
                kid = dict(k="tag", name="section", attrs=[["id", dict(k="slot", name="a", default=None)]],
                           slots=[["v", dict(k="text", s="outer" + s)], ["a", dict(k="text", s="outer-a")]],
                           children=[
                               dict(k="slot", name="v", default=None),
                               dict(k="tag", name="span", attrs=[["title", dict(k="slot", name="a", default=None)]],
                                    slots=[["v", dict(k="text", s=s)], ["a", dict(k="text", s=s + "'")]],
                                    children=[dict(k="slot", name="v", default=None)])])
            yield dict(root=dict(k="tag", name="div", attrs=[], children=[dict(k="text", s="a"), kid, dict(k="text", s="b")]),
                       late="forward", profile="small-" + which)


BIG_TARGETS = (65535, 65536, 65537)


def big_cases():
    """One string whose ESCAPED form sits at the flattener's buffer size
    (BUFFER_SIZE = 65536), preceded by already buffered markup."""
    def fit(ch, width, target):
        return ch * (target // width) + "y" * (target % width)
    for target in BIG_TARGETS:
        kids = []
        for ch, w in (("x", 1), ("<", 4), ("&", 5)):
            kids.append(("text", dict(k="text", s=fit(ch, w, target))))
        for ch, w in (("x", 1), ('"', 6), ("<", 4)):
            kids.append(("attr", dict(k="tag", name="span", attrs=[["title", dict(k="bytes", s=fit(ch, w, target))]], children=[])))
        kids.append(("comment", dict(k="comment", s=fit("x", 1, target))))
        kids.append(("cdata", dict(k="cdata", s=fit("x", 1, target))))
        kids.append(("slot", dict(k="tag", name="span", attrs=[], slots=[["v", dict(k="text", s=fit("<", 4, target))]],
                                  children=[dict(k="slot", name="v", default=None)])))
        kids.append(("after-deferred", dict(k="wrap", w="late", c=[dict(k="text", s="z"), dict(k="text", s=fit("x", 1, target))])))
        for which, kid in kids:
            yield dict(root=dict(k="tag", name="div", attrs=[["id", dict(k="text", s="i")]],
                                 children=[dict(k="text", s="a"), kid, dict(k="text", s="b")]),
                       late="forward", profile="big-" + which)


SMALL = [
    ("text", ["<", ">", "&", '"', "'", ";", "x", "]"], 3),
    ("attr", ['"', "'", "<", ">", "&", "=", " ", "x"], 3),
    ("attr-tag", ['"', "<", ">", "&", "x"], 3),
    ("comment", ["-", "!", ">", "<", "x", "&"], 4),
    ("cdata", ["]", ">", "<", "&", "x", "["], 4),
    ("slot-nested", ["<", '"', "&", "x"], 2),
]


def _shard(sub, i):
    prof = ("html", "xml", "html-ctrl", "html")[i % 4]
    hyp_run(sub, tree(prof), run_case, 4000, label=f"shard{i}-{prof}")


def run(ctx):
    scope = {}
    for which, alpha, maxlen in SMALL:
        enumerate_run(ctx, small_cases(which, alpha, maxlen), run_case, stop_after_violation=True)
        scope[which] = dict(alphabet=alpha, max_len=maxlen)
        if ctx.has_violation():
            return
    if not enumerate_run(ctx, big_cases(), run_case):
        return
    scope["big"] = dict(escaped_sizes=list(BIG_TARGETS), positions=["text", "attr", "comment", "cdata", "slot", "after-deferred"])
    ctx.extra["exhaustive_small_scope"] = scope
    ctx.exhaustive = False      # the random trees below are sampled
    if ctx.thorough:
        ctx.shards(_shard, list(range(16)))
    else:
        for prof, n in (("html", 1400), ("xml", 1100), ("html-ctrl", 500)):
            if not hyp_run(ctx, tree(prof), run_case, n, label=prof):
                return
