"""C29 — HTTP/2 server flow control: never exceeds a window, bodies complete and
in order, blocked streams resume.

The real twisted.web._http2.H2Connection (+ Site, server.Request, a Resource
whose responses follow a generated plan) is driven in memory by an
h2.connection.H2Connection client under a harness reactor with
reactor-iteration semantics.  Every frame the server writes is decoded with
hyperframe and checked against an accounting of the windows the peer has
granted so far, written from RFC 7540 §6.9; h2's client state machine is a
second witness.
"""
import hashlib
import traceback

from hypothesis import strategies as st

from lib.core import hyp_run, enumerate_run, HarnessError, PropertyViolation, KnownFindingSkip

META = dict(
    property="C29",
    level="exploration",
    technique="generated stream sets, response plans (plain writes, push/pull producers, delayed and application-paced writes) and peer schedules (WINDOW_UPDATE, SETTINGS INITIAL_WINDOW_SIZE up and down, MAX_FRAME_SIZE, PRIORITY, split delivery, transport back-pressure) against the real H2Connection; independent RFC 7540 §6.9 window accounting on hyperframe-decoded frames + h2 client as second witness; quiescence checks for liveness",
    level_text="Random histories: 1-8 concurrent streams, bodies 0..300 KiB written in 0-6 chunks by five kinds of responders, initial windows 0..100000, 5-40 peer/application operations. Checked at every server write: cumulative DATA per stream and per connection never exceeds what the peer had granted when the bytes were written (initial window at stream creation + WINDOW_UPDATEs + SETTINGS deltas), frame length within the peer's MAX_FRAME_SIZE. Checked whenever the harness lets the system go quiet (no bytes and no application activity for 6 + 2 x streams reactor iterations, transport not paused): every open stream is either finished or has no window left (connection or stream) - i.e. nothing that could be sent is left unsent; and a stream whose application has finished and whose body is entirely on the wire has its END_STREAM even while its window is closed (ending needs no credit). Checked at the end after every stream and the connection received 4 MiB of window: every response ended, body byte-identical to the plan, also as seen by the h2 client. 'Resume' is a quiescence property under a fair harness-owned continuation, not liveness in general. Sampled, no proof.",
    level_note="Trusted base: h2 4.4.1 / hyperframe / hpack as installed (the server itself is built on h2), the ~90-line round-robin stand-in for the missing `priority` package in /verif/vendor/priority (dependencies and weights are not honoured; the property is about flow control, not weighting), the window accounting in this file. The busy polling of _sendPrioritisedData while a stream with queued data has no window (it re-arms callLater(0) every iteration) is not asserted. PRIORITY frames (idle, open and completed streams) are generated as additional legal peer input; no request bodies, RST_STREAM or GOAWAY.",
    design_ref="§5 C29",
    rule="case = {w0, streams:[{mode, chunks}], ops:[...]} interpreted by run_case; a complete one-stream scope (windows 0-2, 0-2 byte bodies, all sequences of <=2 operations, 3420 cases) runs first, then random histories. non-trivial = at some quiescent point at least 2 streams were simultaneously blocked on flow control with body still to send; distinct by canonical JSON of the case.",
)

PREFACE = b"PRI * HTTP/2.0\r\n\r\nSM\r\n\r\n"
BIG = 2 ** 22
IDLE_TICKS = 6
MAX_TICKS = 4000


def body_of(i, n):
    if n == 0:
        return b""
    return hashlib.shake_128(b"stream-%d" % i).digest(n)


# --------------------------------------------------------------------------
# harness reactor: one step() = one reactor iteration

class _Call:
    def __init__(self, f, a, kw):
        self.f, self.a, self.kw = f, a, kw
        self.cancelled = False
        self.called = False

    def cancel(self):
        self.cancelled = True

    def active(self):
        return not (self.cancelled or self.called)


class HReactor:
    def __init__(self):
        self.calls = []
        self.later = []

    def seconds(self):
        return 0.0

    def callLater(self, delay, f, *a, **kw):
        c = _Call(f, a, kw)
        (self.calls if delay == 0 else self.later).append(c)
        return c

    def step(self, onerror):
        batch, self.calls = self.calls, []
        for c in batch:
            if c.cancelled:
                continue
            c.called = True
            try:
                c.f(*c.a, **c.kw)
            except (PropertyViolation, KnownFindingSkip, HarnessError):
                raise
            except Exception as e:       # reported, never swallowed
                onerror(e)


class FrameReader:
    def __init__(self, preface=False):
        self.buf = b""
        self.preface = preface

    def feed(self, data):
        from hyperframe.frame import Frame
        self.buf += data
        out = []
        if self.preface:
            if len(self.buf) < len(PREFACE):
                return out
            if not self.buf.startswith(PREFACE):
                raise HarnessError("client preface missing")
            self.buf = self.buf[len(PREFACE):]
            self.preface = False
        while len(self.buf) >= 9:
            f, length = Frame.parse_frame_header(memoryview(self.buf[:9]))
            if len(self.buf) < 9 + length:
                break
            f.parse_body(memoryview(self.buf[9:9 + length]))
            f.raw = self.buf[:9 + length]
            out.append((f, length))
            self.buf = self.buf[9 + length:]
        return out


class World:
    """Everything of one case."""

    def __init__(self, ctx, case):
        self.ctx, self.case = ctx, case
        self.R = HReactor()
        self.activity = 0
        self.bytes_out = 0
        self.problems = []          # (signature, detail) found inside server call stacks
        self.responders = {}        # stream index -> responder
        self.sid_of = {}            # stream index -> stream id
        self.idx_of = {}
        # accounting (server's point of view)
        self.cur_initial = 65535
        self.cur_mfs = 16384
        self.conn_granted = 65535
        self.conn_sent = 0
        self.granted = {}
        self.sent = {}
        self.ended = {}
        self.wire_body = {}
        self.cause = {}             # sid -> kind of the most recent event that enlarged its window
        self.c2s = b""
        self.c2s_reader = FrameReader(preface=True)
        self.s2c_reader = FrameReader()
        self.paused = False
        self.client_body = {}
        self.client_ended = set()
        self.max_blocked = 0
        self.saw_negative = False
        self.settings_unacked = 1   # the client's initial SETTINGS
        self.client_dead = False
        self.headers_seen = set()

    # -- server side -------------------------------------------------------
    def start(self):
        import h2.config
        import h2.connection
        import h2.exceptions
        import h2.settings
        from twisted.internet import task
        from twisted.internet import _producer_helpers
        from twisted.internet.testing import StringTransport
        from twisted.web import server, resource
        from twisted.web._http2 import H2Connection
        world = self

        class Transport(StringTransport):
            def write(self, data):
                world.server_wrote(data)

        class Res(resource.Resource):
            isLeaf = True

            def render_GET(self, request):
                i = int(request.path.rsplit(b"/", 1)[1])
                world.responders[i] = Responder(world, i, request)
                world.responders[i].begin()
                return server.NOT_DONE_YET

        cfg = h2.config.H2Configuration(client_side=True, header_encoding=None)
        self.client = h2.connection.H2Connection(config=cfg)
        S = h2.settings.SettingCodes
        self.client.local_settings = h2.settings.Settings(client=True, initial_values={
            S.MAX_CONCURRENT_STREAMS: 100, S.INITIAL_WINDOW_SIZE: self.case["w0"]})

        self.coop = task.Cooperator(
            terminationPredicateFactory=lambda: (lambda: True),
            scheduler=lambda f: self.R.callLater(0, f))
        self._saved_cooperate = _producer_helpers.cooperate
        _producer_helpers.cooperate = self.coop.cooperate
        self.site = server.Site(Res(), reactor=self.R)
        self.server = H2Connection(reactor=self.R)
        self.server.requestFactory = server.Request
        self.server.site = self.site
        self.server.factory = None
        self.transport = Transport()
        # h2 itself refuses to send beyond a window.  Whether that exception
        # reaches the reactor or is swallowed by a Deferred (resumeProducing
        # path), it means the server tried: record it where it happens.
        orig_send_data = self.server.conn.send_data

        def send_data(stream_id, data, *a, **kw):
            try:
                return orig_send_data(stream_id, data, *a, **kw)
            except h2.exceptions.FlowControlError as e:
                neg = stream_id in self.granted and self.granted[stream_id] - self.sent[stream_id] < 0
                self.problems.append((
                    "h2-refused-send_data:" + ("stream-window-negative" if neg else "window-not-negative"),
                    f"send_data({stream_id}, {len(data)} bytes): {e}; accounting: stream window "
                    f"{self.granted.get(stream_id, 0) - self.sent.get(stream_id, 0)}, connection window {self.conn_granted - self.conn_sent}. "
                    "The exception leaves _sendPrioritisedData before it re-arms itself."))
                raise
        self.server.conn.send_data = send_data
        self.client.initiate_connection()
        self.collect_client()
        self.call_server(self.server.makeConnection, self.transport)


    def stop(self):
        from twisted.internet import _producer_helpers
        _producer_helpers.cooperate = self._saved_cooperate

    def call_server(self, f, *a):
        try:
            f(*a)
        except (PropertyViolation, KnownFindingSkip, HarnessError):
            raise
        except Exception as e:           # reported, never swallowed
            self.server_error(e)
        self.raise_problems()

    def server_error(self, e):
        tb = traceback.extract_tb(e.__traceback__)
        if tb and tb[-1].filename == __file__:
            raise e                      # a bug of this harness, not of twisted
        where = "?"
        for fr in tb:
            if "/twisted/" in fr.filename:
                where = fr.name
        sig = f"server-raised:{type(e).__name__}@{where}"
        self.problems.append((sig,
                              "".join(traceback.format_exception(e))[-2500:]))

    def raise_problems(self):
        if self.problems:
            sig, detail = self.problems[0]
            self.ctx.violation(sig, self.case, detail)

    def server_wrote(self, data):
        from hyperframe.frame import DataFrame, HeadersFrame
        self.bytes_out += len(data)
        for f, length in self.s2c_reader.feed(data):
            if isinstance(f, HeadersFrame):
                self.headers_seen.add(f.stream_id)
            if isinstance(f, DataFrame):
                sid = f.stream_id
                if sid not in self.headers_seen:
                    self.problems.append(("data-before-response-headers", f"stream {sid}: DATA frame of {len(f.data)} bytes before the response HEADERS"))
                n = f.flow_controlled_length
                if sid not in self.granted:
                    self.problems.append(("data-on-unknown-stream", f"stream {sid}"))
                    continue
                if self.ended.get(sid):
                    self.problems.append(("data-after-end-stream", f"stream {sid}"))
                if length > self.cur_mfs:
                    self.problems.append(("frame-larger-than-max-frame-size",
                                          f"stream {sid}: {length} > {self.cur_mfs}"))
                self.sent[sid] += n
                self.conn_sent += n
                # (a window driven below zero by a SETTINGS decrease is legal; sending into it is not)
                if n > 0 and self.sent[sid] > self.granted[sid]:
                    self.problems.append(("stream-window-exceeded",
                                          f"stream {sid}: sent {self.sent[sid]} of granted {self.granted[sid]} (frame of {n})"))
                if n > 0 and self.conn_sent > self.conn_granted:
                    self.problems.append(("connection-window-exceeded",
                                          f"sent {self.conn_sent} of granted {self.conn_granted} (frame of {n} on stream {sid})"))
                self.wire_body[sid].append(f.data)
                if "END_STREAM" in f.flags:
                    self.ended[sid] = True
            # second witness: the h2 client state machine
            self.feed_client(f)

    def feed_client(self, f):
        import h2.events
        import h2.exceptions
        from hyperframe.frame import DataFrame
        if self.client_dead:
            return
        restore = None
        if isinstance(f, DataFrame) and f.flow_controlled_length == 0:
            # RFC 7540 6.9.1 allows an empty DATA frame when no window is left;
            # h2 4.4.1 as a receiver rejects it when its window is *negative*
            # (after its own SETTINGS decrease).  Lift the window for this frame.
            st_ = self.client.streams.get(f.stream_id)
            wm = getattr(st_, "_inbound_window_manager", None)
            if wm is not None and wm.current_window_size < 0:
                restore = (wm, wm.current_window_size)
                wm.current_window_size = 0
        try:
            try:
                events = self.client.receive_data(f.raw)
            finally:
                if restore:
                    restore[0].current_window_size = restore[1]
        except h2.exceptions.FlowControlError as e:
            self.client_dead = True
            self.problems.append(("client-flow-control-error", str(e)))
            return
        except h2.exceptions.ProtocolError as e:
            self.client_dead = True
            self.problems.append((f"client-protocol-error:{type(e).__name__}", str(e)))
            return
        for ev in events:
            if isinstance(ev, h2.events.DataReceived):
                self.client_body.setdefault(ev.stream_id, []).append(ev.data)
            elif isinstance(ev, h2.events.StreamEnded):
                self.client_ended.add(ev.stream_id)
            elif isinstance(ev, h2.events.SettingsAcknowledged):
                self.settings_unacked -= 1
            elif isinstance(ev, (h2.events.StreamReset, h2.events.ConnectionTerminated)):
                self.problems.append((f"server-sent:{type(ev).__name__}", repr(ev)))
        self.collect_client()

    # -- client side -------------------------------------------------------
    def collect_client(self):
        self.c2s += self.client.data_to_send()

    def account_incoming(self, segment):
        """What the server has been told once `segment` is in its hands."""
        from hyperframe.frame import HeadersFrame, SettingsFrame, WindowUpdateFrame
        for f, _ in self.c2s_reader.feed(segment):
            if isinstance(f, HeadersFrame):
                sid = f.stream_id
                self.granted[sid] = self.cur_initial
                self.sent[sid] = 0
                self.ended[sid] = False
                self.wire_body[sid] = []
                self.cause[sid] = None
            elif isinstance(f, SettingsFrame) and "ACK" not in f.flags:
                if SettingsFrame.INITIAL_WINDOW_SIZE in f.settings:
                    v = f.settings[SettingsFrame.INITIAL_WINDOW_SIZE]
                    delta = v - self.cur_initial
                    self.cur_initial = v
                    for sid in self.granted:
                        if not self.ended[sid]:
                            self.granted[sid] += delta
                            if delta > 0:
                                self.cause[sid] = "settings"
                            if self.granted[sid] - self.sent[sid] < 0:
                                self.saw_negative = True
                if SettingsFrame.MAX_FRAME_SIZE in f.settings:
                    self.cur_mfs = f.settings[SettingsFrame.MAX_FRAME_SIZE]
            elif isinstance(f, WindowUpdateFrame):
                if f.stream_id == 0:
                    self.conn_granted += f.window_increment
                    for sid in self.granted:
                        self.cause[sid] = "window-update"
                elif f.stream_id in self.granted:
                    self.granted[f.stream_id] += f.window_increment
                    self.cause[f.stream_id] = "window-update"

    def window(self, sid):
        return min(self.conn_granted - self.conn_sent, self.granted[sid] - self.sent[sid])

    def flush(self, cut=None):
        data, self.c2s = self.c2s, b""
        if not data:
            return
        segs = [data]
        if cut is not None and 0 < cut < len(data):
            segs = [data[:cut], data[cut:]]
        for s in segs:
            self.account_incoming(s)
            self.call_server(self.server.dataReceived, s)
            if self.transport.disconnecting or self.transport.disconnected:
                self.ctx.violation("server-closed-connection", self.case,
                                   "the server dropped the connection although the peer only sent legal frames")

    def tick(self):
        self.R.step(self.server_error)
        self.raise_problems()

    def quiesce(self):
        idle = 0
        # the sending loop serves ONE stream per reactor iteration, round robin,
        # and window-blocked streams with queued data take their turn too
        need = IDLE_TICKS + 2 * len(self.sid_of)
        for _ in range(MAX_TICKS):
            self.flush()
            mark = (self.bytes_out, self.activity)
            self.tick()
            if mark == (self.bytes_out, self.activity) and not self.c2s:
                idle += 1
                if idle >= need:
                    return
            else:
                idle = 0
        raise HarnessError("no quiescence within %d reactor iterations" % MAX_TICKS)

    def check_nothing_sendable_left(self, where):
        """At quiescence with the transport writable: each open stream is done or
        out of window."""
        blocked = 0
        for i, sid in sorted(self.sid_of.items()):
            if sid not in self.granted or self.ended[sid]:
                continue
            r = self.responders.get(i)
            if r is None:
                self.ctx.violation("request-never-dispatched", self.case, f"{where}: stream {sid}")
            if self.window(sid) <= 0:
                if r.remaining() > 0 or self.sent[sid] < r.produced:
                    blocked += 1
                elif r.finished:
                    # Ending a stream costs no flow-control credit (RFC 7540 6.9:
                    # only DATA payload is counted; an empty END_STREAM frame may be
                    # sent with no window).  Every body byte is on the wire and the
                    # application has finished: the response must be complete now,
                    # the peer has no reason to send another WINDOW_UPDATE.
                    cause = self.cause.get(sid) or "nothing"
                    self.ctx.violation(
                        "end-stream-withheld-while-window-closed", self.case,
                        f"{where}: stream {sid} (#{i}, {r.mode}): all {r.produced} body bytes sent, application finished, "
                        f"window={self.window(sid)} (stream {self.granted[sid] - self.sent[sid]}, connection "
                        f"{self.conn_granted - self.conn_sent}), but no END_STREAM; window last enlarged by {cause}")
                continue
            if r.mode == "manual" and not r.finished and self.sent[sid] == r.produced:
                continue        # waiting for the application, nothing to send
            q = self.server._outboundStreamQueues.get(sid)
            qlen = sum(len(c) for c in q if isinstance(c, bytes)) if q is not None else None
            cause = self.cause.get(sid) or "nothing"
            kind = "queued-data" if self.sent[sid] < r.produced else (
                "producer-not-resumed" if r.mode in ("push", "pull") else "end-not-sent")
            if kind == "queued-data" and cause != "settings":
                # why is queued data not moving: stream still blocked in the priority
                # tree / tree fine but the sending loop is parked on _sendingDeferred
                active = getattr(self.server.priority, "_active", {}).get(sid)
                if not active:
                    kind += "-stream-blocked-in-priority-tree"
                elif self.server._sendingDeferred is not None:
                    kind += "-sending-loop-parked"
                else:
                    kind += "-loop-running"
            self.ctx.violation(
                f"stalled-with-open-window:{kind}:after-{cause}", self.case,
                f"{where}: stream {sid} (#{i}, {r.mode}) idle: window={self.window(sid)} "
                f"(stream {self.granted[sid] - self.sent[sid]}, connection {self.conn_granted - self.conn_sent}), "
                f"sent {self.sent[sid]} of {r.produced} written by the application ({r.total} planned), "
                f"finished={r.finished}, queued in H2Connection={qlen}, window last opened by {cause}")
        self.max_blocked = max(self.max_blocked, blocked)
        return blocked


class Responder:
    def __init__(self, world, i, request):
        plan = world.case["streams"][i]
        self.w, self.i, self.request = world, i, request
        self.mode = plan["mode"]
        self.chunks = list(plan["chunks"])
        self.total = sum(self.chunks)
        self.body = body_of(i, self.total)
        self.pos = 0            # next chunk
        self.produced = 0
        self.finished = False
        self.paused = False
        self.ticking = False

    def remaining(self):
        return self.total - self.produced

    def write_next(self):
        n = self.chunks[self.pos]
        self.pos += 1
        data = self.body[self.produced:self.produced + n]
        self.produced += n
        self.w.activity += 1
        self.request.write(data)

    def finish(self):
        self.finished = True
        self.w.activity += 1
        sid = self.w.sid_of.get(self.i)
        if sid in self.w.granted and self.w.window(sid) <= 0:
            if self.w.sent[sid] == self.produced:
                self.w.ctx.count("finished-with-window-closed:nothing-queued"
                                 + (":empty-body" if self.total == 0 else ""))
                if self.w.conn_granted - self.w.conn_sent <= 0:
                    self.w.ctx.count("finished-with-window-closed:nothing-queued:connection-window-exhausted-by-others")
            else:
                self.w.ctx.count("finished-with-window-closed:data-queued")
        self.request.finish()

    def begin(self):
        from zope.interface import directlyProvides
        from twisted.internet.interfaces import IPushProducer, IPullProducer
        if self.mode == "write":
            while self.pos < len(self.chunks):
                self.write_next()
            self.finish()
        elif self.mode == "delayed":
            self.arm()
        elif self.mode == "push":
            directlyProvides(self, IPushProducer)
            self.request.registerProducer(self, True)
            self.arm()
        elif self.mode == "pull":
            directlyProvides(self, IPullProducer)
            self.request.registerProducer(self, False)
        elif self.mode == "manual":
            pass
        else:
            raise HarnessError("mode " + self.mode)

    def arm(self):
        if not self.ticking:
            self.ticking = True
            self.w.R.callLater(0, self.on_tick)

    def on_tick(self):
        self.ticking = False
        if self.finished or (self.mode == "push" and self.paused):
            return
        self.advance()
        if not self.finished:
            self.arm()

    def advance(self):
        """One unit of application work."""
        if self.finished:
            return
        if self.pos < len(self.chunks):
            self.write_next()
        else:
            if self.mode in ("push", "pull"):
                self.request.unregisterProducer()
            self.finish()

    # IPushProducer / IPullProducer
    def pauseProducing(self):
        self.paused = True

    def resumeProducing(self):
        if self.mode == "pull":
            self.advance()
            return
        self.paused = False
        self.w.activity += 1
        if not self.finished:
            self.arm()

    def stopProducing(self):
        self.paused = True
        self.finished = True


# --------------------------------------------------------------------------

def run_case(ctx, case):
    w = World(ctx, case)
    w.start()
    try:
        _interpret(ctx, case, w)
    finally:
        w.stop()


def _open(w, i):
    if i in w.sid_of or i >= len(w.case["streams"]):
        return False
    sid = 2 * len(w.sid_of) + 1
    w.sid_of[i] = sid
    w.idx_of[sid] = i
    w.client.send_headers(sid, [(b":method", b"GET"), (b":path", b"/s/%d" % i),
                                (b":scheme", b"https"), (b":authority", b"verif.test")],
                          end_stream=True)
    w.collect_client()
    return True


def _interpret(ctx, case, w):
    import h2.settings
    S = h2.settings.SettingCodes
    nstreams = len(case["streams"])
    w.flush()
    for op in case["ops"]:
        kind = op[0]
        if kind == "open":
            if _open(w, op[1]):
                ctx.count("op:open")
        elif kind == "wu":
            i, n = op[1], op[2]
            if i < 0:
                w.client.increment_flow_control_window(n)
                ctx.count("op:window-update-connection")
            else:
                sid = w.sid_of.get(i)
                if sid is None or sid in w.client_ended:
                    ctx.count("op:skipped")
                    continue
                w.client.increment_flow_control_window(n, sid)
                ctx.count("op:window-update-stream")
            w.collect_client()
        elif kind in ("init", "mfs"):
            # The h2 *client* applies one pending value of every setting per ACK,
            # so with two SETTINGS frames for different settings in flight its own
            # view of its receive window can run ahead of what the server has
            # been told.  Keep the second witness exact: one SETTINGS in flight.
            w.flush()
            if w.settings_unacked > 0:
                ctx.count("op:skipped")
                continue
            w.settings_unacked += 1
            if kind == "init":
                w.client.update_settings({S.INITIAL_WINDOW_SIZE: op[1]})
                ctx.count("op:settings-initial-window")
            else:
                w.client.update_settings({S.MAX_FRAME_SIZE: op[1]})
                ctx.count("op:settings-max-frame-size")
            w.collect_client()
        elif kind == "flush":
            if op[1] is not None and 0 < op[1] < len(w.c2s):
                ctx.count("op:split-delivery")
            w.flush(op[1])
        elif kind == "tick":
            w.flush()
            for _ in range(op[1]):
                w.tick()
        elif kind == "pause":
            if not w.paused:
                w.paused = True
                w.call_server(w.server.pauseProducing)
                ctx.count("op:transport-pause")
        elif kind == "resume":
            if w.paused:
                w.paused = False
                w.call_server(w.server.resumeProducing)
        elif kind == "app":
            w.flush()
            r = w.responders.get(op[1])
            if r is not None and r.mode == "manual" and not r.finished:
                w.call_server(r.advance)
                ctx.count("op:application-write")
            else:
                ctx.count("op:skipped")
        elif kind == "prio":
            # PRIORITY frame (RFC 7540 6.3 / 5.3): legal for any stream - idle (no
            # HEADERS yet, or never), open, or already completed.  It must not
            # disturb flow control or delivery of any stream.
            def resolve(t):
                if t is None:
                    return 0
                if t >= 100:
                    return 2 * (len(w.sid_of) + (t - 100)) + 1
                return w.sid_of.get(t)
            sid, dep = resolve(op[1]), resolve(op[2])
            if sid is None or dep is None:
                ctx.count("op:skipped")
                continue
            if dep == sid:
                dep = 0
            w.client.prioritize(sid, weight=op[3], depends_on=dep, exclusive=op[4])
            w.collect_client()
            ctx.count("op:priority:" + ("idle-stream" if sid not in w.idx_of else
                                        "completed-stream" if w.ended.get(sid) else "open-stream"))
        elif kind == "quiesce":
            w.quiesce()
            if not w.paused:
                b = w.check_nothing_sendable_left("mid-run")
                ctx.count("quiescent-points")
                if b >= 2:
                    ctx.count("quiescent-points-with>=2-blocked")
        else:
            raise HarnessError("op %r" % (op,))

    # ---- final phase: everything opened, everything granted, drained
    if w.paused:
        w.paused = False
        w.call_server(w.server.resumeProducing)
    for i in range(nstreams):
        _open(w, i)
    w.quiesce()
    w.check_nothing_sendable_left("before the final grant")
    for _ in range(nstreams * 8 + 4):
        progressed = False
        for i in range(nstreams):
            r = w.responders.get(i)
            if r is not None and r.mode == "manual" and not r.finished:
                w.call_server(r.advance)
                progressed = True
        if not progressed:
            break
    w.client.increment_flow_control_window(BIG)
    for i, sid in sorted(w.sid_of.items()):
        if sid not in w.client_ended:
            w.client.increment_flow_control_window(BIG, sid)
    w.collect_client()
    w.quiesce()
    for i, sid in sorted(w.sid_of.items()):
        r = w.responders.get(i)
        if r is None:
            ctx.violation("request-never-dispatched", case, f"stream {sid}")
        want = r.body
        got = b"".join(w.wire_body.get(sid, []))
        if got != want[:len(got)]:
            k = next(j for j in range(min(len(got), len(want)) + 1)
                     if j >= len(want) or j >= len(got) or got[j] != want[j])
            ctx.violation("body-corrupted", case,
                          f"stream {sid} (#{i}, {r.mode}): differs from the plan at offset {k} of {len(want)} (received {len(got)})")
        if not w.ended.get(sid) or len(got) != len(want):
            cause = w.cause.get(sid) or "nothing"
            ctx.violation(f"response-never-completed:after-{cause}", case,
                          f"stream {sid} (#{i}, {r.mode}): {len(got)} of {len(want)} bytes on the wire, END_STREAM={w.ended.get(sid)}, "
                          f"application wrote {r.produced}, finished={r.finished}, window={w.window(sid)} after a {BIG} byte grant on stream and connection")
        cgot = b"".join(w.client_body.get(sid, []))
        if cgot != want or sid not in w.client_ended:
            ctx.violation("client-saw-different-body", case,
                          f"stream {sid}: h2 client received {len(cgot)} bytes, ended={sid in w.client_ended}, plan {len(want)}")
    if w.server._outboundStreamQueues or w.server.streams:
        ctx.violation("stream-state-left-behind", case,
                      f"queues={list(w.server._outboundStreamQueues)} streams={list(w.server.streams)}")

    # ---- bookkeeping
    from lib.core import dumps
    ctx.count("streams", nstreams)
    ctx.count("body-bytes", sum(r.total for r in w.responders.values()))
    for r in w.responders.values():
        ctx.count("mode:" + r.mode)
    if w.saw_negative:
        ctx.count("window-driven-negative-by-settings")
    ctx.count("max-simultaneously-blocked=%s" % (w.max_blocked if w.max_blocked < 4 else "4+"))
    if w.max_blocked >= 2:
        ctx.nontrivial(dumps(case))
        ctx.count("nontrivial")
        if len(ctx.samples) < 5 and len(case["ops"]) <= 14:
            ctx.sample(case)


# --------------------------------------------------------------------------
# generator

WINDOWS = [0, 1, 2, 5, 100, 1000, 16383, 16384, 16385, 40000, 65535, 100000]
INCS = [1, 1, 1, 2, 5, 100, 1000, 16384, 65535, 100000]
SIZES = [0, 1, 1, 2, 3, 10, 100, 100, 1000, 5000, 16383, 16384, 16385, 40000, 65535, 65536, 70000, 150000, 300000]
SMALLSIZES = [0, 1, 2, 3, 10, 100, 1000, 5000]
MODES = ["write", "delayed", "push", "pull", "manual"]
MFS = [16384, 16385, 20000, 65536, 1 << 20]

_INT = {n: st.integers(0, n - 1) for n in range(1, 64)}


@st.composite
def cases(draw, maxstreams=6):
    def integer(lo, hi):
        return lo + draw(_INT[hi - lo + 1])

    def pick(seq):
        return seq[draw(_INT[len(seq)])]

    n = integer(1, maxstreams)
    big = integer(0, 3) == 0          # most cases keep bodies small (speed); some go up to 300 KiB
    w0 = pick(WINDOWS)
    streams = []
    for _ in range(n):
        sizes = SIZES if big else SMALLSIZES + [16384, 20000]
        if 0 < w0 <= 20000 or big:
            # chunks that end exactly at the window edge (remaining window == 0)
            sizes = sizes + [w0, w0, w0]
        streams.append(dict(mode=pick(MODES), chunks=[pick(sizes) for _ in range(integer(0, 5))]))
    ops = []
    opened = 0
    for _ in range(integer(4, 36)):
        k = pick(["open", "open", "wu", "wu", "wu", "init", "init", "mfs", "flush", "tick", "tick",
                  "pause", "resume", "app", "app", "quiesce", "quiesce", "prio", "prio"])
        if k == "open":
            if opened < n:
                ops.append(["open", opened])
                opened += 1
            else:
                ops.append(["tick", 1])
        elif k == "wu":
            ops.append(["wu", integer(-1, max(opened, 1) - 1), pick(INCS)])
        elif k == "init":
            ops.append(["init", pick(WINDOWS)])
        elif k == "mfs":
            ops.append(["mfs", pick(MFS)])
        elif k == "flush":
            ops.append(["flush", pick([None, 1, 5, 9, 10, 13, 20, 30])])
        elif k == "tick":
            ops.append(["tick", integer(1, 4)])
        elif k == "prio":
            targets = list(range(opened)) + [100, 100, 101, 102]
            ops.append(["prio", pick(targets), pick([None, None] + targets), pick([1, 16, 200, 256]), integer(0, 1) == 1])
        elif k == "app":
            manual = [i for i in range(opened) if streams[i]["mode"] == "manual"]
            ops.append(["app", pick(manual)] if manual else ["tick", 1])
        else:
            ops.append([k])
    return dict(w0=w0, streams=streams, ops=ops)


SMALL_OPS = [["wu", 0, 1], ["wu", 0, 2], ["wu", -1, 1], ["init", 0], ["init", 1], ["init", 3], ["app", 0],
             ["prio", 100, None, 16, False]]      # PRIORITY for a stream that never gets HEADERS


def small_cases():
    """Complete small scope: one stream, windows 0..2, bodies of 0-2 bytes, every
    sequence of up to two peer/application operations, quiescence check after each."""
    import itertools
    for mode in MODES:
        for w0 in (0, 1, 2):
            for chunks in ([], [1], [2], [1, 1]):
                for n in (0, 1, 2):
                    for seq in itertools.product(SMALL_OPS, repeat=n):
                        if n == 2 and seq[0][0] == "prio" and seq[1][0] == "prio":
                            # instead: PRIORITY for the stream before its HEADERS arrive
                            ops = [["prio", 100, None, 200, True], ["tick", 1], ["open", 0], ["quiesce"]]
                            yield dict(w0=w0, streams=[dict(mode=mode, chunks=list(chunks))], ops=ops)
                            continue
                        ops = [["open", 0], ["quiesce"]]
                        if mode == "manual":
                            ops += [["app", 0], ["quiesce"]]
                        for op in seq:
                            ops += [list(op), ["quiesce"]]
                        yield dict(w0=w0, streams=[dict(mode=mode, chunks=list(chunks))], ops=ops)


def _shard(sub, i):
    hyp_run(sub, cases(8), run_case, 2500, label=f"shard{i}")


def run(ctx):
    if not enumerate_run(ctx, small_cases(), run_case):
        return
    ctx.extra["exhaustive_small_scope"] = dict(streams=1, initial_window=[0, 1, 2], chunks=[[], [1], [2], [1, 1]],
                                               modes=MODES, ops=SMALL_OPS, max_ops=2)
    ctx.exhaustive = False
    if ctx.thorough:
        ctx.shards(_shard, list(range(16)))
    else:
        hyp_run(ctx, cases(6), run_case, 1200, label="histories")
